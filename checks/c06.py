"""C06 — state-space distances obey the metric laws each space claims.

Obligations: theorems of lean/OmplModel/Props/C06.lean (kernel-checked, audited), incl. `claims_covered`
over lean/OmplModel/Generated/Claims.lean, which extract/claims.py regenerates on every run by RUNNING
the real code.
Correspondence: real ompl state spaces (harness/spacedist.cpp, links libompl built from the current tree)
vs the Lean model (drv_spacedist) in lock step on distance / equalStates / satisfiesBounds /
getMaximumExtent / claims: bit-exact first, <= 1e-12 relative logged as drift, beyond that a disagreement.
Spec oracle (on the implementation's outputs only): the six laws over pairs and GENUINE triples of in-bounds
states, demanded where claimed, with float-epsilon-scale slack (as StateSpace::sanityChecks).
"""
import math
import os
from concurrent.futures import ThreadPoolExecutor

from lib import core
from extract import claims as claims_gen

DRIVER = "drv_spacedist"
LEAN_TARGETS = ["OmplModel.Props.C06", DRIVER]
B = core.f2bits
F = core.bits2f
PI = math.pi
DBL_EPS = 2.0 ** -52
FLT_EPS = 2.0 ** -23
QERR = 1e-9
CLAMP_ANGLE = math.acos(1.0 - QERR)          # F5: arcLength is 0 below this angle
WEIGHTS = [0.5, 1.0, 2.0, 1e-3, 1e3]
# the whole legal range of a component weight (addSubspace / setSubspaceWeight reject only negative values):
MIN_NORMAL = 2.0 ** -1022
TINY_WEIGHTS = [1e-16, 2.0 ** -53, math.nextafter(DBL_EPS, 0.0), 1e-17, 1e-20, 1e-100, 1e-300, MIN_NORMAL, 1e-310, 5e-324]
EDGE_WEIGHTS = [DBL_EPS, math.nextafter(DBL_EPS, 1.0), 2.0 ** -51]     # the kept side of getMaximumExtent's `>= epsilon` guard
HUGE_WEIGHTS = [1e6, 1e15, 1e100]
IMPL_ONLY = ("dubins", "reedsshepp", "owen", "vana", "vanaowen")
CAR2D = ("dubins", "reedsshepp")
CONSTRAINED = ("projected", "atlas", "tangentbundle")


SPECIAL = ("torus", "mobius", "klein", "sphere")


def old_extent_guard():
    """does the tree under test still have the former guard `weights_[i] >= epsilon` in CompoundStateSpace::getMaximumExtent
    (before bb83952a6, F360)?  Read from the source text, so that the MODEL follows the variant of the tree (no spurious
    correspondence noise on scratch trees based on older commits / on a revert); the independent oracle does not care:
    it reports the old defect as a violation either way (the F360 line is `fixed`, it suppresses nothing)."""
    try:
        src = open(os.path.join(core.REPO, "src", "ompl", "base", "src", "StateSpace.cpp")).read()
        i = src.index("ompl::base::CompoundStateSpace::getMaximumExtent()")
        body = src[i:src.index("\n}", i)]
        return "weights_[i] >= std::numeric_limits<double>::epsilon()" in body
    except (OSError, ValueError):
        return False


OLD_EXTENT = old_extent_guard()


def is_con(k):
    """projected|atlas|tangentbundle[:sphere|:plane|:torus]"""
    return k.split(":")[0] in CONSTRAINED


def up(x):
    return math.nextafter(x, math.inf)


def dn(x):
    return math.nextafter(x, -math.inf)


# ------------------------------------------------------------------------------- space syntax
# AST: ("rv", lo[], hi[]) ("so2",) ("so3",) ("time", None|(lo,hi)) ("disc", lo, hi) ("cmp", [(w, sp)])
#      ("se2", lo2, hi2) ("se3", lo3, hi3) ("torus", R, r) ("mobius", imax, rad) ("klein",) ("sphere", r)
#      ("wrap", sp) ("dubins", rho, sym, lo2, hi2) ("reedsshepp", rho, lo2, hi2)
def sp_tokens(sp):
    k = sp[0]
    if k == "hist":
        return sp_tokens(sp[3])
    if k == "wspecial":
        return sp_tokens(sp[1])
    if k == "rv":
        return ["rv", str(len(sp[1]))] + [B(x) for x in sp[1]] + [B(x) for x in sp[2]]
    if k in ("so2", "so3", "klein"):
        return [k]
    if k == "time":
        return ["time", "u"] if sp[1] is None else ["time", "b", B(sp[1][0]), B(sp[1][1])]
    if k == "disc":
        return ["disc", str(sp[1]), str(sp[2])]
    if k == "cmp":
        out = ["cmp", str(len(sp[1]))]
        for w, s in sp[1]:
            out += [B(w)] + sp_tokens(s)
        return out
    if k in ("se2", "se3"):
        return [k] + [B(x) for x in sp[1]] + [B(x) for x in sp[2]]
    if k in ("torus", "mobius"):
        return [k, B(sp[1]), B(sp[2])]
    if k == "sphere":
        return [k, B(sp[1])]
    if k == "wrap":
        return ["wrap"] + sp_tokens(sp[1])
    if k == "dubins":
        return ["dubins", B(sp[1]), "1" if sp[2] else "0"] + [B(x) for x in sp[3]] + [B(x) for x in sp[4]]
    if k == "reedsshepp":
        return ["reedsshepp", B(sp[1])] + [B(x) for x in sp[2]] + [B(x) for x in sp[3]]
    if k in ("owen", "vana", "vanaowen"):
        return [k, B(sp[1]), B(sp[2])] + [B(x) for x in sp[3]] + [B(x) for x in sp[4]]
    if k == "empty":
        return ["empty"]
    if k == "spacetime":
        tb = ["u"] if sp[3] is None else ["b", B(sp[3][0]), B(sp[3][1])]
        return ["spacetime", B(sp[1]), B(sp[2])] + tb + sp_tokens(sp[4])
    if is_con(k) or k == "cforest":
        return [k] + sp_tokens(sp[1])
    raise ValueError(k)


def parse_space(t, i=0):
    k = t[i]
    i += 1

    def fl(n):
        nonlocal i
        xs = [F(x) for x in t[i:i + n]]
        i += n
        return xs
    if k == "rv":
        n = int(t[i])
        i += 1
        lo = fl(n)
        hi = fl(n)
        return ("rv", lo, hi), i
    if k in ("so2", "so3", "klein"):
        return (k,), i
    if k == "time":
        m = t[i]
        i += 1
        if m == "u":
            return ("time", None), i
        lo, hi = fl(2)
        return ("time", (lo, hi)), i
    if k == "disc":
        lo, hi = int(t[i]), int(t[i + 1])
        return ("disc", lo, hi), i + 2
    if k == "cmp":
        n = int(t[i])
        i += 1
        cs = []
        for _ in range(n):
            w = fl(1)[0]
            s, i = parse_space(t, i)
            cs.append((w, s))
        return ("cmp", cs), i
    if k in ("se2", "se3"):
        n = 2 if k == "se2" else 3
        lo = fl(n)
        hi = fl(n)
        return (k, lo, hi), i
    if k in ("torus", "mobius"):
        a, b = fl(2)
        return (k, a, b), i
    if k == "sphere":
        return (k, fl(1)[0]), i
    if k == "wrap":
        s, i = parse_space(t, i)
        return ("wrap", s), i
    if k == "dubins":
        rho = fl(1)[0]
        sym = t[i] == "1"
        i += 1
        lo = fl(2)
        hi = fl(2)
        return ("dubins", rho, sym, lo, hi), i
    if k == "reedsshepp":
        rho = fl(1)[0]
        lo = fl(2)
        hi = fl(2)
        return ("reedsshepp", rho, lo, hi), i
    if k in ("owen", "vana", "vanaowen"):
        rho, pitch = fl(2)
        lo = fl(3)
        hi = fl(3)
        return (k, rho, pitch, lo, hi), i
    if k == "empty":
        return ("empty",), i
    if k == "spacetime":
        vmax, tw = fl(2)
        m = t[i]
        i += 1
        tb = None
        if m == "b":
            tb = tuple(fl(2))
        inner, i = parse_space(t, i)
        return ("spacetime", vmax, tw, tb, inner), i
    if is_con(k) or k == "cforest":
        inner, i = parse_space(t, i)
        return (k, inner), i
    raise ValueError("space kind " + k)


def prims(sp):
    """primitive leaves in state order: ("rv", lo, hi) ("so2",) ("so3",) ("time", b) ("disc", lo, hi)"""
    k = sp[0]
    if k == "hist":
        return prims(sp[3])
    if k == "wspecial":
        return prims(sp[1])
    if k in ("rv", "so2", "so3", "time", "disc"):
        return [sp]
    if k == "cmp":
        return [p for _w, s in sp[1] for p in prims(s)]
    if k == "se2":
        return [("rv", sp[1], sp[2]), ("so2",)]
    if k == "se3":
        return [("rv", sp[1], sp[2]), ("so3",)]
    if k == "torus":
        return [("so2",), ("so2",)]
    if k == "mobius":
        return [("so2",), ("rv", [-sp[1]], [sp[1]])]
    if k == "klein":
        return [("rv", [0.0], [PI]), ("so2",)]
    if k == "sphere":
        return [("so2",), ("rv", [0.0], [PI])]
    if k == "wrap":
        return prims(sp[1])
    if k == "dubins":
        return [("rv", sp[3], sp[4]), ("so2",)]
    if k == "reedsshepp":
        return [("rv", sp[2], sp[3]), ("so2",)]
    if k == "owen":
        return [("rv", sp[3], sp[4]), ("so2",)]
    if k in ("vana", "vanaowen"):
        return [("rv", list(sp[3]) + [-sp[2]], list(sp[4]) + [sp[2]]), ("so2",)]
    if k == "empty":
        return []
    if k == "spacetime":
        return prims(sp[4]) + [("time", sp[3])]
    if is_con(k) or k == "cforest":
        return prims(sp[1])
    raise ValueError(k)


def prim_n(p):
    return {"rv": lambda: len(p[1]), "so2": lambda: 1, "so3": lambda: 4, "time": lambda: 1, "disc": lambda: 1}[p[0]]()


def nvals(sp):
    return sum(prim_n(p) for p in prims(sp))


def unit_kind(sp):
    k = sp[0]
    if k == "hist":
        return unit_kind(sp[3])
    if k == "wspecial":
        return sp[1][0]
    if k == "time":
        return "timeU" if sp[1] is None else "timeB"
    if k == "dubins":
        return "dubinsSym" if sp[2] else "dubins"
    return k


def units(sp, w=1.0):
    """the smallest sub-spaces with a distance function of their own, with effective weight, in state
    order: [(unit space, effective weight, number of leaf values)]"""
    k = sp[0]
    if k == "hist":
        return units(sp[3], w)
    if k == "cmp":
        return [u for wi, s in sp[1] for u in units(s, w * wi)]
    if k == "se2":
        return [(("rv", sp[1], sp[2]), w, 2), (("so2",), w * 0.5, 1)]
    if k == "se3":
        return [(("rv", sp[1], sp[2]), w, 3), (("so3",), w, 4)]
    if k == "wrap" or k == "cforest" or is_con(k):      # pure forwarding
        return units(sp[1], w)
    if k == "spacetime":                                        # compound [(w0, space), (w1, time)], initially (1-tw, tw)
        w0, w1 = st_weights(sp)
        return units(sp[4], w * w0) + [(("time", sp[3]), w * w1, 1)]
    if k == "wspecial":
        # a Torus / Moebius / Klein / Sphere space with changed weights is still ONE unit (a distance function of its own):
        # the unit is the space with its history
        return [(make_hist(sp[1], [("setweight", (), 0, sp[2][0]), ("setweight", (), 1, sp[2][1])]), w, nvals(sp))]
    return [(sp, w, nvals(sp))]


def st_weights(sp):
    """current weights of a SpaceTimeStateSpace node: `addSubspace(space, 1 - timeWeight); addSubspace(time, timeWeight)`
    unless changed by setSubspaceWeight (6th element of the effective AST)"""
    return sp[5] if len(sp) > 5 else (1.0 - sp[2], sp[2])


def unit_zero_flags(sp, z=False):
    """for every unit of `units(sp)`: is a weight on the way down EXACTLY zero (F135)?  (the product of the weights may
    underflow to 0 without any of them being 0 — that is rounding, not a zero weight)"""
    k = sp[0]
    if k == "hist":
        return unit_zero_flags(sp[3], z)
    if k == "cmp":
        return [u for wi, c in sp[1] for u in unit_zero_flags(c, z or wi == 0.0)]
    if k == "se2" or k == "se3":
        return [z, z]
    if k == "wrap" or k == "cforest" or is_con(k):
        return unit_zero_flags(sp[1], z)
    if k == "spacetime":
        w0, w1 = st_weights(sp)
        return unit_zero_flags(sp[4], z or w0 == 0.0) + [z or w1 == 0.0]
    return [z]


def tree_fold(sp, vals, mode="dist"):
    """the value of the whole space from the values of its unit sub-spaces (`vals`: an iterator in `units()` order), folded
    exactly as CompoundStateSpace does it — per compound node `acc = 0.0; acc += w_i * child_i` in component order, in IEEE
    double arithmetic (Python floats) — i.e. literally "the weighted sum of its components' distances" at every level.
    mode: "dist" (every component counts), "extent>0" (getMaximumExtent with the guard `w > 0`: components of positive weight).
    Returns (value, underflow): underflow = some product of a positive weight and a positive value came out below the
    smallest normal double (subnormal or zero: its relative precision is lost)."""
    k = sp[0]
    if k == "hist":
        return tree_fold(sp[3], vals, mode)
    if k in ("se2", "se3"):
        return tree_fold(expand(sp), vals, mode)
    if k == "cmp" or k == "spacetime":
        comps = sp[1] if k == "cmp" else list(zip(st_weights(sp), [sp[4], ("time", sp[3])]))
        acc, uf = 0.0, False
        for w, c in comps:
            v, u = tree_fold(c, vals, mode)
            uf = uf or u
            if mode != "dist" and not w > 0.0:
                continue
            p = w * v
            if w > 0.0 and v > 0.0 and p < MIN_NORMAL:
                uf = True
            acc += p
        return acc, uf
    if k == "wrap" or k == "cforest" or is_con(k):
        return tree_fold(sp[1], vals, mode)
    return next(vals), False


def all_weights(sp):
    k = sp[0]
    if k == "hist":
        return all_weights(sp[3])
    if k == "cmp":
        return [w for w, _c in sp[1]] + [x for _w, c in sp[1] for x in all_weights(c)]
    if k == "wrap" or k == "cforest" or is_con(k):
        return all_weights(sp[1])
    if k == "spacetime":
        return list(st_weights(sp)) + all_weights(sp[4])
    return []


def odd_weights(sp):
    """does the space carry a weight outside the everyday range (tiny, at the epsilon guard, huge)?"""
    return any(w != 0.0 and (w < 1e-6 or w > 1e5) for w in all_weights(sp))


def contains(sp, pred):
    if sp[0] == "hist":
        return contains(sp[3], pred)
    if pred(sp):
        return True
    k = sp[0]
    if k == "cmp":
        return any(contains(s, pred) for _w, s in sp[1])
    if k == "wrap" or k == "cforest" or is_con(k):
        return contains(sp[1], pred)
    if k == "spacetime":
        return contains(sp[4], pred)
    return False


def impl_only(sp):
    """no Lean model: a car-like space that is not at top level (e.g. inside a CForest wrapper).  At top level
    Dubins / Reeds-Shepp / Vana are recomputed by C14's models, Owen / VanaOwen with recorded answers
    (Model/SpaceDistCar.lean)."""
    while sp[0] == "cforest":            # pure forwarding, modelled
        sp = sp[1]
    if sp[0] in IMPL_ONLY:
        return False
    return contains(sp, lambda s: s[0] in IMPL_ONLY)


# ------------------------------------------------------------------------------- state generation
def rand_quat(r):
    while True:
        q = [r.uniform(-1, 1) for _ in range(4)]
        n = math.sqrt(sum(x * x for x in q))
        if 1e-3 < n <= 1.0:
            return [x / n for x in q]


def qmul(a, b):
    ax, ay, az, aw = a
    bx, by, bz, bw = b
    return [aw * bx + ax * bw + ay * bz - az * by,
            aw * by - ax * bz + ay * bw + az * bx,
            aw * bz + ax * by - ay * bx + az * bw,
            aw * bw - ax * bx - ay * by - az * bz]


def qnorm(q):
    n = math.sqrt(sum(x * x for x in q))
    return [x / n for x in q]


def small_rot(r, ang):
    ax = rand_quat(r)[:3]
    n = math.sqrt(sum(x * x for x in ax)) or 1.0
    s = math.sin(ang / 2) / n
    return [ax[0] * s, ax[1] * s, ax[2] * s, math.cos(ang / 2)]


def gen_prim(r, p, mode):
    """one value list for primitive leaf p; mode: uniform | bound | seam"""
    k = p[0]
    if k == "rv":
        out = []
        for lo, hi in zip(p[1], p[2]):
            if mode == "bound":
                out.append(r.choice([lo, hi, up(lo), dn(hi), lo, hi]))
            else:
                out.append(min(hi, max(lo, r.uniform(lo, hi))))
        return out
    if k == "so2":
        if mode in ("bound", "seam"):
            return [r.choice([-PI, dn(PI), up(-PI), dn(dn(PI)), PI - 1e-9, -PI + 1e-9, PI - r.uniform(0, 0.2),
                              -PI + r.uniform(0, 0.2), 0.0, -0.0, PI / 2, -PI / 2, up(PI / 2), dn(PI / 2)])]
        return [max(-PI, min(dn(PI), r.uniform(-PI, PI)))]
    if k == "so3":
        if mode == "bound":
            return r.choice([[0.0, 0.0, 0.0, 1.0], [1.0, 0.0, 0.0, 0.0], [0.0, 0.0, 0.0, -1.0], [0.5, 0.5, 0.5, 0.5],
                             [0.0, 1.0, 0.0, 0.0], [0.0, 0.0, -1.0, 0.0]])
        return rand_quat(r)
    if k == "time":
        if p[1] is None:
            return [r.uniform(-100, 100)]
        lo, hi = p[1]
        if mode == "bound":
            return [r.choice([lo, hi, up(lo), dn(hi)])]
        return [min(hi, max(lo, r.uniform(lo, hi)))]
    if k == "disc":
        if mode == "bound":
            return [r.choice([p[1], p[2]])]
        return [r.range(p[1], p[2])]
    raise ValueError(k)


def perturb_prim(r, p, v, how):
    """a state near v: how = ulp (each double moved by at most one ulp, staying in bounds) |
    small (relative 1e-9..1e-4 moves; SO(3): rotation by 1e-6..1e-4 rad, the F5 regime) | neg (q -> -q)"""
    k = p[0]
    if k == "rv":
        out = []
        for x, lo, hi in zip(v, p[1], p[2]):
            if how == "ulp":
                y = r.choice([up(x), dn(x), x])
            elif how == "small":
                y = x + (hi - lo) * r.uniform(-1, 1) * r.choice([1e-4, 1e-7, 1e-10])
            else:
                y = x
            out.append(min(hi, max(lo, y)))
        return out
    if k == "so2":
        x = v[0]
        if how == "ulp":
            y = r.choice([up(x), dn(x), x])
        elif how == "small":
            y = x + r.uniform(-1, 1) * r.choice([1e-4, 1e-7, 1e-10])
        else:
            y = x
        if y >= PI:
            y = -PI if how != "neg" else dn(PI)
        if y < -PI:
            y = dn(PI)
        return [y]
    if k == "so3":
        if how == "ulp":
            return [r.choice([up(x), dn(x), x]) for x in v]
        if how == "small":
            return qnorm(qmul(small_rot(r, r.choice([1e-6, 1e-5, 3e-5, 6e-5, 1e-4])), v))
        return [-x for x in v]
    if k == "time":
        x = v[0]
        y = r.choice([up(x), dn(x), x]) if how == "ulp" else (x + r.uniform(-1, 1) * r.choice([1e-4, 1e-8]) if how == "small" else x)
        if p[1] is not None:
            y = min(p[1][1], max(p[1][0], y))
        return [y]
    if k == "disc":
        if how == "small":
            return [min(p[2], max(p[1], v[0] + r.choice([-1, 0, 1])))]
        return list(v)
    raise ValueError(k)


def gen_state(r, sp, mode):
    out = []
    for p in prims(sp):
        m = mode
        if mode == "mixed":
            m = r.choice(["uniform", "uniform", "bound", "seam"])
        out += gen_prim(r, p, m)
    return out


def perturb(r, sp, st, how):
    out = []
    i = 0
    for p in prims(sp):
        n = prim_n(p)
        out += perturb_prim(r, p, st[i:i + n], how)
        i += n
    return out


def seam_triple(r, sp):
    """for spaces with an SO(2) part: a and c on either side of the ±π seam (or, Möbius/Klein, on either
    side of the branch switch of the u-difference), b in between the long way round."""
    a = gen_state(r, sp, "uniform")
    b = list(a)
    c = list(a)
    i = 0
    for p in prims(sp):
        n = prim_n(p)
        if p[0] == "so2":
            x = r.choice([0.2, 1e-3, 1e-9, PI / 2 - 0.03, PI / 2 + 0.03, r.uniform(0, PI)])
            a[i], b[i], c[i] = max(-PI, -PI + x), r.choice([0.0, dn(PI), -PI, r.uniform(-1, 1)]), min(dn(PI), PI - x)
        elif p[0] == "rv" and n == 1 and r.chance(1, 2):
            lo, hi = p[1][0], p[2][0]
            m = 0.5 * (lo + hi)
            h = 0.5 * (hi - lo)
            f = r.choice([0.5, 0.54, 0.25, 0.27, 0.9])
            a[i], b[i], c[i] = m - f * h, m + r.uniform(-0.02, 0.02) * h, m + f * h
        i += n
    return a, b, c


def spacetime_boundary_triple(r, sp):
    """SpaceTimeStateSpace over R^n: pairs whose time difference equals deltaSpace / vMax up to a relative offset of
    0, ±1e-16 … ±2e-7 — on either side of, and inside, the float-epsilon slack of the reachability test
    (`deltaSpace / vMax_ > deltaTime + eps_` => +inf)."""
    vmax, tb = sp[1], sp[3]
    n = len(sp[4][1])

    def follow(a):
        b = gen_state(r, sp, "uniform")
        ds = math.sqrt(sum((a[j] - b[j]) ** 2 for j in range(n)))
        off = r.choice([0.0, 1e-16, -1e-16, 1e-9, -1e-9, 5e-8, -5e-8, 1.1e-7, -1.1e-7, 1.3e-7, -1.3e-7, 2e-7, -2e-7])
        sign = r.choice([1.0, -1.0])
        t = a[n] + sign * (ds / vmax) * (1.0 + off) + r.choice([0.0, 0.0, 1e-7, -1e-7, 1.19e-7, -1.19e-7, 1.2e-7, -1.2e-7])
        if tb is not None:
            t = min(tb[1], max(tb[0], t))
        b[n] = t
        return b
    a = gen_state(r, sp, "uniform")
    b = follow(a)
    return (a, b, follow(b))


TRIPLE_MODES = ["uniform", "uniform", "uniform", "mixed", "bound", "coincident", "ulp", "small", "small", "neg", "seam", "seam",
                "nonunit"]
# quaternion scale factors that keep |norm - 1| < MAX_QUATERNION_NORM_ERROR = 1e-9 (satisfiesBounds) — the first three
# push the squared norm below the clamp threshold 1 - 1e-9 (F76), the others do not
NONUNIT_SCALES = [1 - 0.75e-9, 1 - 0.6e-9, 1 - 0.9e-9, 1 - 0.4e-9, 1 + 0.9e-9, 1 + 0.3e-9]


def scale_so3(r, sp, st):
    """every SO(3) leaf multiplied by a factor from NONUNIT_SCALES: still in bounds for the code, not unit"""
    out = list(st)
    i = 0
    for p in prims(sp):
        n = prim_n(p)
        if p[0] == "so3":
            f = r.choice(NONUNIT_SCALES)
            out[i:i + n] = [x * f for x in out[i:i + n]]
        i += n
    return out


def gen_triple(r, sp, mode):
    if mode == "uniform":
        return tuple(gen_state(r, sp, "uniform") for _ in range(3))
    if mode == "mixed":
        return tuple(gen_state(r, sp, "mixed") for _ in range(3))
    if mode == "bound":
        return tuple(gen_state(r, sp, "bound") for _ in range(3))
    if mode == "coincident":
        a = gen_state(r, sp, r.choice(["uniform", "bound"]))
        return (a, list(a), gen_state(r, sp, "uniform") if r.chance(1, 2) else list(a))
    if mode in ("ulp", "small"):
        a = gen_state(r, sp, r.choice(["uniform", "uniform", "bound"]))
        b = perturb(r, sp, a, mode)
        c = perturb(r, sp, b, mode)
        return (a, b, c)
    if mode == "neg":
        a = gen_state(r, sp, "uniform")
        b = perturb(r, sp, a, "neg")
        c = gen_state(r, sp, r.choice(["uniform", "bound"]))
        return (a, b, c)
    if mode == "seam" and sp[0] == "spacetime" and sp[4][0] == "rv":
        return spacetime_boundary_triple(r, sp)
    if mode == "seam":
        return seam_triple(r, sp)
    if mode == "nonunit":
        a = scale_so3(r, sp, gen_state(r, sp, "uniform"))
        return (a, list(a), gen_state(r, sp, "uniform"))
    raise ValueError(mode)


def st_tokens(sp, st):
    out = []
    i = 0
    for p in prims(sp):
        n = prim_n(p)
        for x in st[i:i + n]:
            out.append(str(int(x)) if p[0] == "disc" else B(x))
        i += n
    return out


def st_parse(sp, toks):
    out = []
    i = 0
    for p in prims(sp):
        n = prim_n(p)
        for x in toks[i:i + n]:
            out.append(int(x) if p[0] == "disc" else F(x))
        i += n
    return out


# ------------------------------------------------------------------------------- space generation
def rand_box(r, n):
    lo, hi = [], []
    for _ in range(n):
        c = r.choice([0.0, 0.0, r.uniform(-50, 50)])
        h = r.choice([0.5, 1.0, 10.0, 1e-3, 100.0, r.uniform(0.1, 5)])
        lo.append(c - h)
        hi.append(c + h)
    return lo, hi


def rand_leaf(r, allow_special=True):
    ks = ["rv", "rv", "so2", "so3", "time", "disc", "se2", "se3"]
    if allow_special:
        ks += ["torus", "mobius", "klein", "sphere", "wraprv", "wrapso2"]
    k = r.choice(ks)
    if k == "rv":
        lo, hi = rand_box(r, r.range(1, 5))
        return ("rv", lo, hi)
    if k in ("so2", "so3", "klein"):
        return (k,)
    if k == "time":
        if r.chance(1, 5):
            return ("time", None)
        lo = r.choice([0.0, -3.0, 10.0])
        return ("time", (lo, lo + r.choice([1.0, 0.0, 25.0, 1e-6])))
    if k == "disc":
        lo = r.range(-5, 5)
        return ("disc", lo, lo + r.range(0, 9))
    if k in ("se2", "se3"):
        lo, hi = rand_box(r, 2 if k == "se2" else 3)
        return (k, lo, hi)
    if k == "torus":
        return ("torus", r.choice([1.0, 2.0]), r.choice([0.5, 0.1]))
    if k == "mobius":
        return ("mobius", r.choice([1.0, 0.3, 5.0]), 1.0)
    if k == "sphere":
        return ("sphere", r.choice([1.0, 0.5, 3.0]))
    if k == "wraprv":
        lo, hi = rand_box(r, r.range(1, 3))
        return ("wrap", ("rv", lo, hi))
    return ("wrap", ("so2",))


def rand_weight(r):
    """(weight, class): zero 1/12, everyday 7/12, tiny (subnormal … just below DBL_EPSILON) 1/6, at the epsilon guard 1/12,
    huge 1/12"""
    c = r.below(12)
    if c == 0:
        return 0.0, "zero"
    if c <= 2:
        return r.choice(TINY_WEIGHTS), "tiny"
    if c == 3:
        return r.choice(EDGE_WEIGHTS), "edge"
    if c == 4:
        return r.choice(HUGE_WEIGHTS), "huge"
    return r.choice(WEIGHTS), "normal"


def big_partner(r, w):
    """a component whose range is so large that its term under the tiny weight `w` is NOT negligible (a coordinate stored
    in very small units, compensated by the weight): weighted range ~ 0.2 … 20 where the doubles allow it.  R^n squares
    the differences (range capped at 1e150), time and SO(2)-free leaves do not (capped at 1e300)."""
    c = r.choice([1.0, 10.0, 0.1])
    if r.chance(1, 2):
        h = min(c / w, 1e300)
        lo = r.choice([-h, -h, 0.0])
        return ("time", (lo, h))
    h = min(c / w, 1e150)
    n = r.range(1, 3)
    lo = r.choice([-h, -h, 0.0])
    return ("rv", [lo] * n, [h] * n)


def rough_extent(sp):
    """upper estimate of the largest distance (no cut-off), only used to keep huge weights away from overflow"""
    k = sp[0]
    if k == "rv":
        return math.sqrt(sum((h - l) ** 2 for l, h in zip(sp[1], sp[2])))
    if k == "time":
        return 200.0 if sp[1] is None else sp[1][1] - sp[1][0]
    if k == "disc":
        return float(sp[2] - sp[1])
    if k == "cmp":
        return sum(w * rough_extent(c) for w, c in sp[1])
    if k in ("se2", "se3"):
        return rough_extent(("rv", sp[1], sp[2])) + PI
    if k == "wrap":
        return rough_extent(sp[1])
    if k == "mobius":
        return PI + 2 * sp[1]
    if k == "sphere":
        return PI * sp[1]
    return 2 * PI


def tame(sp):
    """huge weights replaced by 1 (used when the weighted range would approach the overflow threshold)"""
    if sp[0] == "cmp":
        return ("cmp", [((1.0 if w > 1e5 else w), tame(c)) for w, c in sp[1]])
    if sp[0] == "wrap":
        return ("wrap", tame(sp[1]))
    return sp


def rand_compound(r, depth, top=True):
    k = r.range(1, 4) if depth > 1 else r.range(1, 3)
    cs = []
    for _ in range(k):
        w, cls = rand_weight(r)
        if cls == "tiny" and r.chance(2, 3):
            s = big_partner(r, w)
        elif depth > 1 and r.chance(2, 5):
            s = rand_compound(r, depth - 1, top=False)
            if r.chance(1, 6):
                s = ("wrap", s)
        else:
            s = rand_leaf(r)
        cs.append((w, s))
    sp = ("cmp", cs)
    if top and not rough_extent(sp) < 1e200:
        sp = tame(sp)
    return sp


def weight_spaces():
    """fixed compounds over the whole legal weight range: tie-breaker weights, weights compensating a component in tiny
    units (weighted range 20), subnormal weights, weights on either side of getMaximumExtent's epsilon guard, huge weights,
    mixtures, nested, wrapped, as SE(2) / SpaceTime weights"""
    r1 = ("rv", [0.0], [1.0])
    sub = math.nextafter(DBL_EPS, 0.0)
    return [
        ("cmp", [(1.0, ("rv", [0.0, 0.0], [1.0, 1.0])), (1e-16, ("so2",))]),                       # tie-breaker
        ("cmp", [(1.0, r1), (1e-16, ("rv", [-1e17], [1e17]))]),                                    # femtometres
        ("cmp", [(1e-16, ("rv", [-1e17, -1e17], [1e17, 1e17])), (0.5, ("so2",)), (1e-300, ("time", (-1e300, 1e300)))]),
        ("cmp", [(sub, ("time", (0.0, 1e17))), (DBL_EPS, ("time", (0.0, 1e17))), (1.0, ("so3",))]),  # either side of the guard
        ("cmp", [(5e-324, ("time", (-1e300, 1e300))), (1e-310, ("rv", [-1e150], [1e150])), (1.0, ("disc", 0, 3))]),
        ("cmp", [(1e100, r1), (1e-100, ("rv", [-1e101], [1e101])), (1e15, ("so2",))]),
        ("cmp", [(2.0, ("cmp", [(1e-200, ("cmp", [(1e-100, ("time", (-1e300, 1e300)))])), (1.0, ("so2",))])), (0.0, r1)]),
        ("wrap", ("cmp", [(1e-17, ("se2", [-1e17, -1e17], [1e17, 1e17])), (1.0, ("torus", 1.0, 0.5))])),
        ("cmp", [(2.0 ** -53, ("time", (0.0, 2.0 ** 60))), (1.0, ("time", (0.0, 1.0)))]),          # the Lean witness of F360
        ("spacetime", 1e17, 1e-16, (0.0, 1e17), ("rv", [0.0], [1.0])),
        ("spacetime", 1.0, math.nextafter(1.0, 0.0), (0.0, 4.0), ("rv", [-1.0, -1.0], [1.0, 1.0])),
        ("spacetime", 2.0, 5e-324, None, ("so2",)),
        ("spacetime", 1.0, 0.0, (0.0, 2.0), ("so2",)),
        ("spacetime", 1.0, 1.0, (0.0, 2.0), ("rv", [0.0], [1.0])),
    ]


def shipped_spaces(r):
    out = []
    for n in (1, 2, 3, 6):
        lo, hi = rand_box(r, n)
        out.append(("rv", lo, hi))
    out.append(("rv", [0.0, -1.0], [1.0, 1.0]))
    out += [("so2",), ("so3",), ("klein",), ("time", None), ("time", (0.0, 1.0)), ("time", (-3.0, 22.0)), ("disc", 0, 5),
            ("disc", -3, 3), ("torus", 1.0, 0.5), ("mobius", 1.0, 1.0), ("mobius", 5.0, 1.0), ("mobius", 0.3, 2.0),
            ("sphere", 1.0), ("sphere", 3.0), ("sphere", 0.5)]
    lo, hi = rand_box(r, 2)
    out.append(("se2", lo, hi))
    out.append(("se2", [0.0, 0.0], [1.0, 1.0]))
    lo, hi = rand_box(r, 3)
    out.append(("se3", lo, hi))
    out.append(("se3", [-1.0, -1.0, -1.0], [1.0, 1.0, 1.0]))
    out += [("wrap", ("rv", [0.0], [1.0])), ("wrap", ("so3",)), ("wrap", ("so2",)), ("wrap", ("disc", 0, 4)),
            ("wrap", ("se3", [0.0, 0.0, 0.0], [2.0, 2.0, 2.0])), ("wrap", ("wrap", ("torus", 1.0, 0.5))),
            ("wrap", ("cmp", [(2.0, ("so2",)), (0.5, ("time", (0.0, 1.0)))]))]
    # spaces outside the shared `Space` type (Model/SpaceDistX.lean)
    box3 = ("rv", [-2.0, -2.0, -2.0], [2.0, 2.0, 2.0])
    out += [("empty",),
            ("spacetime", 1.0, 0.5, None, ("rv", [0.0, 0.0], [1.0, 1.0])),
            ("spacetime", 0.5, 0.25, (0.0, 8.0), ("rv", [-1.0], [1.0])),
            ("spacetime", 0.5, 0.3, (0.0, 10.0), ("se2", [0.0, 0.0], [1.0, 1.0])),
            ("spacetime", 2.0, 0.9, (0.0, 1.0), ("so3",)),
            ("spacetime", 1.0, 0.5, (0.0, 5.0), ("cmp", [(1.0, ("so2",)), (2.0, ("rv", [0.0], [3.0]))])),
            ("projected", box3), ("atlas", box3), ("tangentbundle", ("rv", [-1.0, -1.0], [1.0, 1.0])),
            # other constraints (hyperplane x0 = 0, torus) and wrapped / compound ambient spaces (fd9a6cce3)
            ("projected:plane", box3), ("atlas:torus", ("rv", [-3.0, -3.0, -1.0], [3.0, 3.0, 1.0])), ("tangentbundle:plane", box3),
            ("projected:plane", ("se2", [-1.0, -1.0], [1.0, 1.0])), ("atlas:plane", ("wrap", ("se2", [-1.0, -1.0], [1.0, 1.0]))),
            ("projected:torus", ("se3", [-3.0, -3.0, -1.0], [3.0, 3.0, 1.0])), ("tangentbundle:sphere", ("wrap", ("se3", [-1.0] * 3, [1.0] * 3))),
            ("projected:plane", ("cmp", [(2.0, ("rv", [0.0], [1.0])), (0.5, ("so2",)), (1.0, ("time", (0.0, 2.0)))])),
            ("cforest", ("atlas:torus", ("wrap", ("rv", [-3.0, -3.0, -1.0], [3.0, 3.0, 1.0])))),
            ("cforest", ("se2", [0.0, 0.0], [1.0, 1.0])), ("cforest", ("so3",)), ("cforest", ("cforest", ("disc", 0, 3))),
            ("cforest", ("spacetime", 1.0, 0.5, None, ("so2",))), ("cforest", ("projected", box3)),
            ("cforest", ("mobius", 1.0, 1.0)),
            # zero weights: the compound still claims isMetricSpace()
            ("cmp", [(0.0, ("so2",)), (1.0, ("rv", [0.0], [1.0]))]),
            ("cmp", [(1.0, ("rv", [0.0, 0.0], [1.0, 1.0])), (0.0, ("so3",))]),
            ("cmp", [(0.0, ("disc", 0, 3))])]
    return out


def car_spaces(r):
    out = []
    for rho in (1.0, 0.25, 5.0):
        box = r.choice([([0.0, 0.0], [1.0, 1.0]), ([-10.0, -10.0], [10.0, 10.0]), ([-100.0, -100.0], [100.0, 100.0])])
        out.append(("dubins", rho, False, box[0], box[1]))
        out.append(("dubins", rho, True, box[0], box[1]))
        out.append(("reedsshepp", rho, box[0], box[1]))
    out.append(("cforest", ("dubins", 1.0, False, [0.0, 0.0], [5.0, 5.0])))
    b3 = ([-10.0, -10.0, -10.0], [10.0, 10.0, 10.0])
    out += [("owen", 1.0, PI / 6, b3[0], b3[1]), ("vana", 1.0, PI / 6, b3[0], b3[1]), ("vanaowen", 1.0, PI / 6, b3[0], b3[1]),
            ("owen", 3.0, 0.3, [0.0, 0.0, 0.0], [2.0, 2.0, 2.0])]
    return out



# ------------------------------------------------------------------------------- histories
# ("hist", base space, ops, effective space): the base space is constructed, then changed by `ops`
# (setup / setbounds / setweight / setweightn, harness/spacedist.cpp); the effective space is the AST with the
# CURRENT bounds and weights (SE(2)/SE(3) written out as compounds), used for state generation, units and records.
def expand(sp):
    k = sp[0]
    if k == "se2":
        return ("cmp", [(1.0, ("rv", list(sp[1]), list(sp[2]))), (0.5, ("so2",))], "se2")     # tag: a real SE2StateSpace
    if k == "se3":
        return ("cmp", [(1.0, ("rv", list(sp[1]), list(sp[2]))), (1.0, ("so3",))], "se3")
    if k == "cmp":
        return ("cmp", [(w, expand(c)) for w, c in sp[1]])
    if k == "wrap" or k == "cforest" or is_con(k):
        return (k, expand(sp[1]))
    if k == "spacetime":
        return ("spacetime", sp[1], sp[2], sp[3], expand(sp[4]), st_weights(sp))
    return sp


def children(sp):
    k = sp[0]
    if k == "cmp":
        return [c for _w, c in sp[1]]
    if k == "wrap" or k == "cforest" or is_con(k):
        return [sp[1]]
    if k == "spacetime":
        return [sp[4], ("time", sp[3])]
    return []


def with_child(sp, i, new):
    k = sp[0]
    if k == "cmp":
        cs = list(sp[1])
        cs[i] = (cs[i][0], new)
        return ("cmp", cs) + tuple(sp[2:])
    if k == "wrap" or k == "cforest" or is_con(k):
        return (k, new)
    if k == "spacetime":
        if i == 0:
            return ("spacetime", sp[1], sp[2], sp[3], new) + tuple(sp[5:])
        return ("spacetime", sp[1], sp[2], new[1], sp[4]) + tuple(sp[5:])
    raise ValueError("no child")


def mod_at(sp, path, f):
    if not path:
        return f(sp)
    return with_child(sp, path[0], mod_at(children(sp)[path[0]], path[1:], f))


def nodes(sp, path=()):
    """(path, node) of the expanded AST in protocol navigation order"""
    yield path, sp
    for i, c in enumerate(children(sp)):
        yield from nodes(c, path + (i,))


def apply_op(eff, op):
    if op[0] == "setup":
        return eff
    if op[0] == "setbounds":
        _k, path, lo, hi = op

        def f(n):
            if n[0] == "rv":
                return ("rv", list(lo), list(hi))
            if n[0] == "time":
                return ("time", (lo[0], hi[0]))
            if n[0] == "disc":
                return ("disc", int(lo[0]), int(hi[0]))
            if n[0] == "cmp" and len(n) > 2:      # SE2/SE3StateSpace::setBounds forwarders
                cs = list(n[1])
                cs[0] = (cs[0][0], ("rv", list(lo), list(hi)))
                return ("cmp", cs) + tuple(n[2:])
            raise ValueError("setbounds on " + n[0])
        return mod_at(eff, list(path), f)
    if op[0] == "adddim":
        _k, path, lo, hi = op
        return mod_at(eff, list(path), lambda n: ("rv", list(n[1]) + [lo], list(n[2]) + [hi]))
    if op[0] == "weights":
        return eff
    _k, path, idx, w = op
    if w < 0.0:                # setSubspaceWeight throws "Subspace weight cannot be negative": the space stays as it is
        return eff

    def g(n):
        if n[0] in SPECIAL or n[0] == "wspecial":      # Torus / Moebius / Klein / Sphere: compounds of two components (1, 1)
            base, ws = (n[1], list(n[2])) if n[0] == "wspecial" else (n, [1.0, 1.0])
            ws[idx] = w
            return ("wspecial", base, tuple(ws))
        if n[0] == "spacetime":                 # a SpaceTimeStateSpace is a compound of (space, time) itself
            ws = list(st_weights(n))
            ws[idx] = w
            return n[:5] + (tuple(ws),)
        cs = list(n[1])
        cs[idx] = (w, cs[idx][1])
        return ("cmp", cs) + tuple(n[2:])
    return mod_at(eff, list(path), g)


def op_line(op):
    if op[0] == "setup":
        return "setup"
    if op[0] == "setbounds":
        _k, path, lo, hi = op
        return " ".join(["setbounds", str(len(path))] + [str(i) for i in path] + [str(len(lo))] + [B(x) for x in lo] + [B(x) for x in hi])
    if op[0] == "adddim":
        _k, path, lo, hi = op
        return " ".join(["adddim", str(len(path))] + [str(i) for i in path] + [B(lo), B(hi)])
    if op[0] == "weights":
        return " ".join(["weights", str(len(op[1]))] + [str(i) for i in op[1]])
    k, path, idx, w = op
    return " ".join([k, str(len(path))] + [str(i) for i in path] + [str(idx), B(w)])


def make_hist(base, ops):
    eff = expand(base)
    for op in ops:
        eff = apply_op(eff, op)
    return ("hist", base, list(ops), eff)


def pre_expected(sp):
    """what the lines before `claims` must answer: `ok`, or for a `weights` query the CURRENT weights of that compound
    (as tracked through the history, bit for bit; by index, by name and through getSubspaceWeights())"""
    if sp[0] != "hist":
        return ["ok"]
    out = ["ok"]
    eff = expand(sp[1])
    for op in sp[2]:
        eff = apply_op(eff, op)
        if op[0] == "weights":
            node = eff
            for i in op[1]:
                node = children(node)[i]
            ws = (list(st_weights(node)) if node[0] == "spacetime" else list(node[2]) if node[0] == "wspecial" else
                  [1.0, 1.0] if node[0] in SPECIAL else [w for w, _c in node[1]])
            out.append(" ".join(["w", str(len(ws))] + [B(w) for w in ws]))
        elif op[0] in ("setweight", "setweightn") and op[3] < 0.0:
            out.append("bad-op")
        else:
            out.append("ok")
    return out


def pre_lines(sp):
    """number of protocol lines before `claims` (each answered `ok`)"""
    return 1 + len(sp[2]) if sp[0] == "hist" else 1


def rand_history(r, base):
    """random changes after construction: setup() somewhere, bounds enlarged / shrunk / moved, weights raised /
    lowered / zeroed by index and by name, on any node of the tree"""
    eff = expand(base)
    ops = []
    if r.chance(3, 4):
        ops.append(("setup",))
    cand = list(nodes(eff))
    for _ in range(r.range(1, 3)):
        path, n = r.choice(cand)
        parent = dict(cand).get(tuple(path[:-1])) if path else None
        in_se = parent is not None and parent[0] == "cmp" and len(parent) > 2      # the R^n part of a real SE(2)/SE(3)
        if n[0] == "rv" and n[1] and len(n[1]) < 6 and r.chance(1, 4) and not in_se:
            lo = r.choice([0.0, -2.0, 5.0])
            ops.append(("adddim", path, lo, lo + r.choice([1.0, 10.0, 0.5])))
        elif n[0] == "rv" and n[1]:
            f = r.choice([10.0, 3.0, 0.5, 0.1, 100.0])
            lo, hi = [], []
            for l, h in zip(n[1], n[2]):
                c, hw = 0.5 * (l + h), 0.5 * (h - l) * f
                hw = hw if hw > 0 else 1.0
                sh = r.choice([0.0, 0.0, hw])
                lo.append(c - hw + sh)
                hi.append(c + hw + sh)
            ops.append(("setbounds", path, lo, hi))
        elif n[0] == "time":
            lo = r.choice([0.0, -5.0])
            ops.append(("setbounds", path, [lo], [lo + r.choice([2.0, 50.0, 0.25])]))
        elif n[0] == "disc":
            lo = r.range(-4, 4)
            ops.append(("setbounds", path, [float(lo)], [float(lo + r.range(0, 12))]))
        elif n[0] == "cmp" and n[1]:
            idx = r.below(len(n[1]))
            if len(n) > 2 and r.chance(1, 3):           # a real SE2/SE3: bounds through the class's own setBounds
                m = 2 if n[2] == "se2" else 3
                ops.append(("setbounds", path, [-7.0] * m, [r.choice([7.0, 70.0])] * m))
            else:
                if r.chance(1, 10):             # refused (negative): answered bad-op, nothing changes
                    ops.append((r.choice(["setweight", "setweightn"]), path, idx, r.choice([-1.0, -1e-300, -5e-324])))
                    eff = apply_op(eff, ops[-1])
                w = r.choice([2.0, 0.25, 0.1, 3.0, 1e3, 0.0, 1.0]) if r.chance(3, 5) else r.choice(TINY_WEIGHTS + EDGE_WEIGHTS + [1e15])
                ops.append((r.choice(["setweight", "setweightn"]), path, idx, w))
                eff = apply_op(eff, ops[-1])
                ops.append(("weights", path))
                if 0.0 < w < 1e-6 and r.chance(2, 3):
                    # ... and the component under the tiny weight gets a range that makes its term count
                    cpath = tuple(path) + (idx,)
                    node = dict(nodes(eff)).get(cpath)
                    h = min(r.choice([1.0, 10.0]) / w, 1e150)
                    if node is not None and node[0] == "rv" and node[1]:
                        eff = apply_op(eff, ops[-1])
                        ops.append(("setbounds", cpath, [-h] * len(node[1]), [h] * len(node[1])))
                    elif node is not None and node[0] == "time":
                        eff = apply_op(eff, ops[-1])
                        ops.append(("setbounds", cpath, [0.0], [min(r.choice([1.0, 10.0]) / w, 1e300)]))
                    elif node is not None and node[0] == "cmp" and len(node) > 2:
                        eff = apply_op(eff, ops[-1])
                        m = 2 if node[2] == "se2" else 3
                        ops.append(("setbounds", cpath, [-h] * m, [h] * m))
        elif (n[0] in SPECIAL or n[0] == "wspecial") and all(m[0] == "cforest" for q, m in cand if len(q) < len(path) and tuple(path[:len(q)]) == tuple(q)):
            # setSubspaceWeight on a Torus / Moebius / Klein / Sphere space (top level or under CForest wrappers: modelled there)
            ops.append((r.choice(["setweight", "setweightn"]), path, r.below(2), r.choice([0.1, 0.25, 0.5, 2.0, 3.0, 1e-3, 1e3])))
            eff = apply_op(eff, ops[-1])
            ops.append(("weights", path))
        elif n[0] == "spacetime":
            idx = r.below(2)
            ops.append((r.choice(["setweight", "setweightn"]), path, idx, r.choice([0.25, 2.0, 0.0, 1e-16, 1e-300, 5e-324, 1e6])))
            eff = apply_op(eff, ops[-1])
            ops.append(("weights", path))
        else:
            continue
        eff = apply_op(eff, ops[-1])
        cand = list(nodes(eff))
    if r.chance(1, 3):
        ops.append(("setup",))
    return make_hist(base, ops)


def history_spaces(r, n_random):
    rv2 = ("rv", [0.0, 0.0], [1.0, 1.0])
    box3 = ("rv", [-1.0, -1.0, -1.0], [1.0, 1.0, 1.0])
    se2 = ("se2", [-2.0, -2.0], [2.0, 2.0])
    big2 = ("setbounds", (0,), [0.0, 0.0], [10.0, 10.0])
    out = [
        # a wrapper must report the extent of the wrapped space as it is NOW
        make_hist(("wrap", rv2), [("setup",), big2]),
        make_hist(("wrap", rv2), [big2, ("setup",), ("setbounds", (0,), [-50.0, -50.0], [50.0, 50.0])]),
        make_hist(("wrap", se2), [("setup",), ("setbounds", (0, 0), [-50.0, -50.0], [50.0, 50.0])]),
        make_hist(("wrap", se2), [("setup",), ("setweight", (0,), 1, 3.0)]),
        make_hist(("wrap", ("wrap", ("time", (0.0, 1.0)))), [("setup",), ("setbounds", (0, 0), [0.0], [30.0])]),
        make_hist(("projected", box3), [("setup",), ("setbounds", (0,), [-10.0] * 3, [10.0] * 3), ("setup",)]),
        make_hist(("atlas", box3), [("setup",), ("setbounds", (0,), [-10.0] * 3, [10.0] * 3), ("setup",)]),
        make_hist(("tangentbundle", box3), [("setup",), ("setbounds", (0,), [-10.0] * 3, [10.0] * 3)]),
        make_hist(("cforest", ("wrap", rv2)), [("setup",), ("setbounds", (0, 0), [0.0, 0.0], [7.0, 7.0])]),
        make_hist(("cmp", [(1.0, ("wrap", rv2)), (2.0, ("so2",))]), [("setup",), ("setbounds", (0, 0), [0.0, 0.0], [9.0, 9.0])]),
        # the distance of a compound is the weighted sum with the CURRENT weights
        make_hist(se2, [("setweight", (), 1, 2.0)]),
        make_hist(se2, [("setup",), ("setweight", (), 0, 0.25), ("setweight", (), 1, 0.1)]),
        make_hist(se2, [("setweightn", (), 1, 1.0), ("setup",)]),
        make_hist(se2, [("setweightn", (), 0, 3.0)]),
        make_hist(("se3", [-1.0] * 3, [1.0] * 3), [("setup",), ("setweight", (), 1, 0.2), ("setweightn", (), 0, 0.5)]),
        make_hist(("cmp", [(3.0, se2), (1.0, ("rv", [0.0], [1.0]))]), [("setweight", (0,), 0, 0.25), ("setweight", (0,), 1, 0.1)]),
        make_hist(("cmp", [(3.0, se2), (1.0, ("rv", [0.0], [1.0]))]), [("setup",), ("setweightn", (), 0, 0.5), ("setweight", (0,), 1, 4.0)]),
        make_hist(("wrap", ("cmp", [(1.0, ("so2",)), (1.0, ("cmp", [(2.0, se2), (0.5, ("disc", 0, 3))]))])),
                  [("setup",), ("setweight", (0, 1), 0, 0.1), ("setweight", (0, 1, 0), 1, 5.0)]),
        make_hist(("cforest", se2), [("setweight", (0,), 1, 2.0)]),
        make_hist(("spacetime", 1.0, 0.5, (0.0, 5.0), se2), [("setup",), ("setweight", (0,), 1, 2.0), ("setbounds", (1,), [0.0], [20.0])]),
        make_hist(("torus", 1.0, 0.5), [("setup",)]),
        make_hist(se2, [("setup",), ("setbounds", (), [-9.0, -9.0], [9.0, 9.0]), ("setweight", (), 1, 0.75), ("weights", ())]),
        make_hist(("wrap", ("se3", [-1.0] * 3, [1.0] * 3)), [("setup",), ("setbounds", (0,), [-4.0] * 3, [4.0] * 3), ("weights", (0,))]),
        make_hist(("disc", 0, 3), [("setup",), ("setbounds", (), [-2.0], [9.0])]),
        make_hist(("cmp", [(2.0, ("disc", 0, 3)), (1.0, rv2)]), [("setup",), ("setbounds", (0,), [0.0], [40.0]), ("adddim", (1,), -3.0, 3.0)]),
        make_hist(("wrap", rv2), [("setup",), ("adddim", (0,), 0.0, 25.0)]),
        make_hist(("projected", box3), [("adddim", (0,), -5.0, 5.0), ("setup",)]),
        # weights over the whole legal range, set after construction: a tie-breaker weight on the SO(2) part of a real SE(2),
        # a weight compensating tiny units (weighted range 20), subnormal, either side of the epsilon guard, refused negatives
        make_hist(se2, [("setweight", (), 1, 1e-16), ("weights", ())]),
        make_hist(se2, [("setup",), ("setweightn", (), 0, 1e-16), ("setbounds", (), [-1e17, -1e17], [1e17, 1e17]), ("weights", ())]),
        make_hist(("se3", [-1.0] * 3, [1.0] * 3), [("setweight", (), 1, 5e-324), ("setweight", (), 0, 1e-300),
                                                   ("setbounds", (), [-1e150] * 3, [1e150] * 3), ("setup",)]),
        make_hist(("cmp", [(1.0, rv2), (1.0, ("time", (0.0, 1.0)))]),
                  [("setup",), ("setweight", (), 1, math.nextafter(DBL_EPS, 0.0)), ("setbounds", (1,), [0.0], [1e17]), ("weights", ())]),
        make_hist(("cmp", [(1.0, rv2), (1.0, ("time", (0.0, 1.0)))]),
                  [("setweight", (), 1, DBL_EPS), ("setbounds", (1,), [0.0], [1e17]), ("setup",)]),
        make_hist(("wrap", ("cmp", [(3.0, se2), (1.0, ("rv", [0.0], [1.0]))])),
                  [("setweight", (0,), 1, -1.0), ("setweightn", (0,), 1, 1e-100), ("setbounds", (0, 1), [-1e101], [1e101]), ("weights", (0,))]),
        make_hist(("cforest", se2), [("setup",), ("setweightn", (0,), 1, -5e-324), ("setweight", (0,), 1, 2.0 ** -53), ("weights", (0,))]),
        make_hist(("spacetime", 1.0, 0.5, (0.0, 5.0), rv2), [("setweight", (), 1, 1e-16), ("setbounds", (1,), [0.0], [1e17]), ("weights", ())]),
        make_hist(("spacetime", 1.0, 0.5, (0.0, 5.0), se2), [("setup",), ("setweightn", (), 0, 5e-324), ("setweight", (), 1, 3.0), ("weights", ())]),
        make_hist(("spacetime", 2.0, 0.25, None, ("so2",)), [("setweight", (), 0, -1.0), ("setweight", (), 0, 0.0), ("weights", ())]),
        # the special spaces are compounds too: their distance() overrides use the weights only partly (F361)
        make_hist(("mobius", 1.0, 1.0), [("weights", ()), ("setweight", (), 1, 0.1), ("weights", ())]),
        make_hist(("mobius", 1.0, 1.0), [("setup",), ("setweightn", (), 0, 2.0), ("setweight", (), 1, 3.0), ("weights", ())]),
        make_hist(("klein",), [("setweight", (), 0, 0.25), ("setweightn", (), 1, 0.25), ("weights", ())]),
        make_hist(("klein",), [("setweight", (), 1, 2.0), ("setup",)]),
        make_hist(("torus", 1.0, 0.5), [("setweight", (), 0, 0.1), ("setweight", (), 1, 0.1), ("weights", ())]),
        make_hist(("torus", 2.0, 0.5), [("setup",), ("setweightn", (), 1, 3.0)]),
        make_hist(("sphere", 3.0), [("setweight", (), 0, 0.1), ("setweight", (), 1, 5.0), ("weights", ())]),
        make_hist(("cforest", ("mobius", 5.0, 1.0)), [("setweight", (0,), 1, 0.5), ("weights", (0,))]),
    ]
    for i in range(n_random):
        rr = r.fork("hist%d" % i)
        base = rand_compound(rr, rr.choice([1, 2, 2, 3])) if rr.chance(2, 3) else rr.choice(
            [se2, ("se3", [0.0] * 3, [2.0] * 3), ("wrap", se2), ("wrap", rv2), ("cforest", se2), ("projected", box3),
             ("spacetime", 1.0, 0.5, (0.0, 5.0), rv2), ("spacetime", 0.5, rr.choice([0.3, 1e-16, 0.0, 1.0]), None, se2),
             ("mobius", rr.choice([1.0, 0.3, 5.0]), 1.0), ("klein",), ("torus", 1.0, 0.5), ("sphere", rr.choice([1.0, 3.0])),
             ("cforest", ("mobius", 1.0, 1.0)), ("cforest", ("klein",))])
        if rr.chance(1, 4) and base[0] == "cmp":
            base = ("wrap", base)
        if nvals(base) > 40:
            continue
        out.append(rand_history(rr, base))
    return out


# ------------------------------------------------------------------------------- scripts
PAIRS = [(0, 0), (1, 1), (2, 2), (0, 1), (1, 0), (1, 2), (2, 1), (0, 2), (2, 0)]
EQS = [(0, 0), (0, 1), (1, 0), (1, 2), (0, 2)]
OPS_PER_TRIPLE = 3 + len(PAIRS) + len(EQS)


def triple_lines(sp, tr):
    toks = [" ".join(st_tokens(sp, s)) for s in tr]
    lines = ["inbounds " + t for t in toks]
    lines += ["dist %s %s" % (toks[i], toks[j]) for i, j in PAIRS]
    lines += ["equal %s %s" % (toks[i], toks[j]) for i, j in EQS]
    return lines


def space_lines(sp, triples):
    if sp[0] == "hist":
        lines = ["space " + " ".join(sp_tokens(sp[1]))] + [op_line(op) for op in sp[2]] + ["claims", "extent"]
    else:
        lines = ["space " + " ".join(sp_tokens(sp)), "claims", "extent"]
    for tr in triples:
        lines += triple_lines(sp, tr)
    return lines


def parse_claims(line):
    if not line.startswith("claims "):
        return None
    return {k: v == "1" for k, v in (p.split("=") for p in line.split()[1:])}


def parse_block(out):
    """outputs of one space block (after the `ok`): claims, extent, then per triple OPS_PER_TRIPLE lines"""
    cl = parse_claims(out[0])
    ext = F(out[1].split()[1]) if out[1].startswith("ext ") else None
    triples = []
    i = 2
    while i + OPS_PER_TRIPLE <= len(out):
        o = out[i:i + OPS_PER_TRIPLE]
        try:
            inb = [x == "in 1" for x in o[:3]]
            if not all(x.startswith("in ") for x in o[:3]):
                raise ValueError
            D = {}
            for (a, b), x in zip(PAIRS, o[3:3 + len(PAIRS)]):
                if not x.startswith("d "):
                    raise ValueError
                D[(a, b)] = F(x.split()[1])
            E = {}
            for (a, b), x in zip(EQS, o[3 + len(PAIRS):]):
                if not x.startswith("eq "):
                    raise ValueError
                E[(a, b)] = x == "eq 1"
            triples.append((inb, D, E))
        except ValueError:
            triples.append(None)
        i += OPS_PER_TRIPLE
    return cl, ext, triples


# ------------------------------------------------------------------------------- spec oracle
def slack(*mags, eps=FLT_EPS):
    m = max([1.0] + [abs(x) for x in mags if x == x and abs(x) != math.inf])
    return eps * m


def space_eps(sp):
    """the library's own slack: float epsilon (StateSpace::sanityChecks), 0.1 for Reeds-Shepp
    (ReedsSheppStateSpace::sanityChecks: "rarely such a large error will occur")"""
    return 0.1 if contains(sp, lambda s: s[0] == "reedsshepp") else FLT_EPS


def so2_seam_rounding(sp, a, b):
    """two SO(2) values within a few ulp(2π) of each other ACROSS the ±π seam: the exact circular
    distance (< 2e-15) is below the spacing of doubles at 2π where the code computes `2π - d`, so the
    computed distance may round to 0 although equalStates (which looks at |a-b| ≈ 2π) says "different"."""
    i = 0
    for p in prims(sp):
        n = prim_n(p)
        if p[0] == "so2" and 2 * PI - abs(a[i] - b[i]) < 4e-15:
            return True
        i += n
    return False


ANGULAR = ("so2", "torus", "mobius", "klein", "sphere") + IMPL_ONLY


def angle_allow(sp):
    """double-rounding allowance for the circle distance under weights: SO(2) computes `2π - |a-b|` at magnitude 2π, i.e. with
    an ABSOLUTE error of about one ulp(2π) = 8.9e-16 however small the distance, and a compound multiplies that by the
    weights above it (1e-9 rad apart across the seam under an effective weight 1e9: distances 1, 1, 2 ± 4.4e-7).  The
    float-epsilon slack is relative to the distances (with an absolute floor of 1.2e-7), so it does not cover this once
    the weights are large: 4 ulp(2π) x effective weight for every unit with an SO(2) part."""
    return sum(abs(w) * 4 * 8.9e-16 for usp, w, _n in units(sp) if unit_kind(usp) in ANGULAR and math.isfinite(w))


def laws(sp, cl, ext, tr, res, count=None, scale=1.0):
    """all six laws on the implementation's outputs for one triple.  Returns a list of violations
    (law, indices, defect, text).  `scale` multiplies every distance and the extent first (used when a
    unit sub-space is judged by its contribution weight·distance to a compound)."""
    inb, D, E = res
    if scale != 1.0:
        D = {k: v * scale for k, v in D.items()}
        ext = ext * scale if ext is not None else None
    out = []
    if not all(inb):
        return out
    se = space_eps(sp)
    allow = angle_allow(sp) * abs(scale)
    sym_claimed = cl["symdist"] or cl["metric"]      # a metric is symmetric by definition (as sanityChecks reads it)
    has_unbounded = contains(sp, lambda s: s[0] == "time" and s[1] is None)
    for (i, j), d in D.items():
        if not (d >= 0.0):
            out.append(("nonneg", (i, j), -d if d == d else math.inf, "distance %r is negative or NaN" % d))
    for i in range(3):
        if not (D[(i, i)] <= se):
            out.append(("self", (i, i), D[(i, i)], "distance from a state to itself is %r" % D[(i, i)]))
        # equalStates(s, s)
    if not E[(0, 0)]:
        out.append(("self", (0, 0), 0.0, "a state is not equalStates to itself"))
    for (i, j) in [(0, 1), (1, 0), (1, 2), (0, 2)]:
        if not E[(i, j)] and D[(i, j)] == 0.0:        # (a negative or NaN distance is the non-negativity law's business)
            if so2_seam_rounding(sp, tr[i], tr[j]):
                if count:
                    count("oracle:positivity-skipped-so2-seam-rounding")
            else:
                out.append(("positive", (i, j), 0.0, "states are not equalStates but their distance is %r" % D[(i, j)]))
    if sym_claimed:
        for (i, j) in [(0, 1), (1, 2), (0, 2)]:
            df = 0.0 if D[(i, j)] == D[(j, i)] else abs(D[(i, j)] - D[(j, i)])      # +inf == +inf (SpaceTime)
            if not (df <= slack(D[(i, j)], D[(j, i)], eps=se) + allow):
                out.append(("symmetric", (i, j), df, "d(x,y)=%r but d(y,x)=%r" % (D[(i, j)], D[(j, i)])))
    if ext is not None:
        for (i, j), d in D.items():
            if i != j and not (d <= ext + slack(ext, eps=se) + allow):
                out.append(("extent", (i, j), d - ext, "distance %r exceeds getMaximumExtent() = %r" % (d, ext)))
                break
    if cl["metric"]:
        for (x, y, z) in [(0, 1, 2), (0, 2, 1), (1, 0, 2)]:
            lhs, r1, r2 = D[(x, z)], D[(x, y)], D[(y, z)]
            df = lhs - (r1 + r2)
            if not (df <= slack(lhs, r1, r2, eps=se) + 2 * allow):
                out.append(("triangle", (x, y, z), df, "d(x,z)=%r > d(x,y)+d(y,z)=%r+%r" % (lhs, r1, r2)))
                break
    if has_unbounded:
        # an unbounded TimeStateSpace reports getMaximumExtent() = 1 (a placeholder); tag it for attribution
        pass
    return out


# ------------------------------------------------------------------------------- running
def run_bin_retry(ck, binary, script, tries=6):
    """every run of the harness / driver is repeated (with a growing pause) when the PROCESS failed — no output, fewer
    lines than ops, or a non-zero exit.  Reason: the harness links the shared libompl.so of the build cache, which another
    check may be re-linking in place after a commit to /repo; for those seconds the loader fails and a known finding would
    turn into `culprit=compound` or a `crash` report.  A reproducible crash (sanitizer abort, exception) fails every
    time and still comes back as it is.  Only the failure path waits; no verdict depends on timing."""
    import time
    o, rc, err = None, None, ""
    for k in range(tries):
        o, rc, err = ck.run_bin(binary, script)
        if o is not None and rc == 0 and len(o) >= len(script) - 1:
            break
        if k + 1 < tries:
            ck.count("process-retry")
            time.sleep(min(30, 2 * (2 ** k)))
    return o, rc, err


def run_script_pair(ck, hbin, script, with_model=True, retry=True):
    """one script through the harness and (with the harness's recorded answers fed back) the model driver"""
    impl, rc, err = run_bin_retry(ck, hbin, script) if retry else ck.run_bin(hbin, script)
    impl = impl or []
    mscript = list(script)
    if OLD_EXTENT and mscript and mscript[0].split()[0] == "spacedist":
        mscript[0] = "spacedist-oldextent" + mscript[0][len("spacedist"):]
    for i, ln in enumerate(impl):
        if ln.startswith("d ") and " rec " in ln:
            head, _, rec = ln.partition(" rec ")
            impl[i] = head
            if i + 1 < len(mscript) and mscript[i + 1].startswith("dist "):
                mscript[i + 1] = "distr " + mscript[i + 1][5:] + " rec " + rec
    model = None
    if with_model:
        model, rc2, err2 = (run_bin_retry(ck, ck.driver(DRIVER), mscript) if retry else ck.run_bin(ck.driver(DRIVER), mscript))
        if rc2 != 0:
            raise RuntimeError("model driver failed (rc=%s): %s" % (rc2, (err2 or "")[-1000:]))
    return impl, model, rc, err


def run_batch(ck, hbin, blocks):
    """blocks: [(sp, triples)] -> (script, impl lines, model lines|None, rc, err)"""
    script = ["spacedist"]
    for sp, triples in blocks:
        script += space_lines(sp, triples)
    impl, model, rc, err = run_script_pair(ck, hbin, script, with_model=not any(impl_only(sp) for sp, _ in blocks))
    return script, impl, model, rc, err


def cmp_line(a, b):
    """'same' | 'drift' | 'diff' | 'novalue' (the model declines: a default-constructed Dubins path)"""
    if a == b:
        return "same"
    if b == "d none":
        return "novalue"
    pa, pb = a.split(), b.split()
    if len(pa) == 2 and len(pb) == 2 and pa[0] == pb[0] and pa[0] in ("d", "ext"):
        x, y = F(pa[1]), F(pb[1])
        if x != x and y != y:
            return "same"
        if x == y:               # +0 / -0
            return "drift"
        if math.isfinite(x) and math.isfinite(y) and abs(x - y) <= 1e-12 * max(abs(x), abs(y)):
            return "drift"
    return "diff"


def unit_outputs(ck, hbin, sp, tr):
    """the real code's answers for every unit sub-space of `sp` on the corresponding slices of the triple — ONE process for
    all units: [(unit space, effective weight, zero-weight-on-the-path, slice, claims, extent, (inb, D, E))] or None"""
    us = units(sp)
    zs = unit_zero_flags(sp)
    script = ["spacedist"]
    subs = []
    i = 0
    for usp, w, n in us:
        sub = tuple(s[i:i + n] for s in tr)
        i += n
        subs.append(sub)
        script += space_lines(usp, [sub])
    o, rc, err = run_bin_retry(ck, hbin, script)
    if not o:
        return None
    out = []
    pos = 0
    for j, (usp, w, n) in enumerate(us):
        pre = pre_lines(usp)
        blk = o[pos:pos + pre + 2 + OPS_PER_TRIPLE]
        pos += pre + 2 + OPS_PER_TRIPLE
        if len(blk) < pre + 2 + OPS_PER_TRIPLE or blk[:pre] != pre_expected(usp):
            return None
        cl, ext, ts = parse_block(blk[pre:])
        if not ts or ts[0] is None or cl is None:
            return None
        out.append((usp, w, zs[j], subs[j], cl, ext, ts[0]))
    return out


def attribute(ck, hbin, sp, tr, law, idx, uo=None):
    """which unit sub-spaces (leaf spaces with a distance function of their own) violate `law` on the
    corresponding slices of the triple, each judged by its contribution weight·distance to the compound
    (same slack rule).  Returns [(unit kind, tags)]: tags narrow the finding class — SO(3) triangle:
    `within_clamp_bound` (defect ≤ 2·acos(1-1e-9) per unit weight); Klein positivity: `glued_boundary`
    (u-values 0 and π: the two states are the same point of the bottle); SO(3) self-distance:
    `below_clamp_norm` (squared norm ≤ 1-1e-9 although the norm is within 1e-9 of 1); car-like positivity: `within_car_eps`."""
    if uo is None:
        uo = unit_outputs(ck, hbin, sp, tr)
    out = []
    for usp, w, zero, sub, cl, ext, res in (uo or []):
        # every law is evaluated on the unit, whatever the unit itself claims (the compound claimed it)
        cl2 = dict(cl)
        cl2["metric"] = True
        # a zero-weight component contributes 0·distance: judged with scale 0 it can only fail the parts of the laws
        # that do not go through the distance — `equalStates(s, s)` — and POSITIVITY (states that differ in it alone are
        # at distance 0: a pseudo-metric by the user's choice of weight, yet the compound claims isMetricSpace())
        scale = 0.0 if zero else w
        if law == "positive" and not zero:
            # positivity is judged on the unit's OWN distance (is it exactly 0 between states it calls different?): the
            # flattened product of the weights above it may underflow to 0 although none of them is 0 (the as-coded sum
            # is handled by `weight_underflow`), and only the violating pair itself counts
            scale = 1.0
        vs = [v for v in laws(usp, cl2, ext, sub, res, scale=scale) if v[0] == law and (law != "positive" or tuple(v[1]) == tuple(idx))]
        if not vs:
            continue
        if zero and law == "positive":
            out.append(("zeroWeight", {}))
            continue
        tags = {}
        if law == "triangle" and usp[0] == "so3":
            tags["within_clamp_bound"] = bool(vs[0][2] <= scale * (2 * CLAMP_ANGLE + 1e-12))
        if law == "self" and usp[0] == "so3":
            q_ = sub[vs[0][1][0]]
            tags["below_clamp_norm"] = bool(sum(x * x for x in q_) <= 1 - QERR + 1e-15)
        if law == "positive" and unit_kind(usp) == "klein":          # also a Klein bottle with changed weights (a `hist` unit)
            a_, b_ = sub[vs[0][1][0]], sub[vs[0][1][1]]
            tags["glued_boundary"] = bool(abs(abs(a_[0] - b_[0]) - PI) < 1e-12)
        if law == "positive" and usp[0] in IMPL_ONLY:
            tags.update(car_eps_class(usp, sub, law, vs[0][1]))
        if law == "extent" and usp[0] == "hist" and usp[3][0] == "wspecial" and ext is not None:
            # F361: the distance() overrides of Moebius / Klein / Torus ignore (some of) the weights that the inherited
            # getMaximumExtent() applies.  Known only while the distance stays within the extent of the same space with every
            # weight below 1 raised to 1 (what the unweighted branches can reach); beyond that it is something else.
            tags["weights_changed"] = True
            ws = [max(x, 1.0) for x in usp[3][2]]
            k_ = usp[3][1]
            e0, e1 = {"torus": (PI, PI), "mobius": (PI, 2.0 * (k_[1] if k_[0] == "mobius" else 0.0)), "klein": (PI, PI)}.get(k_[0], (0.0, 0.0))
            bound = (ws[0] * e0 + ws[1] * e1) * scale
            tags["within_unweighted_extent"] = bool(vs[0][2] + ext * scale <= bound + slack(bound, eps=space_eps(usp)))
        if law == "nonneg" and usp[0] == "vanaowen":
            # F138: -inf from an infinite vertical radius times a tiny negative altitude difference
            ia, ib = vs[0][1]
            tags["neg_inf_flat"] = bool(vs[0][2] == math.inf and abs(sub[ia][2] - sub[ib][2]) < 1e-8
                                        and abs(sub[ia][3] - sub[ib][3]) < 1e-8)
        out.append((unit_kind(usp), tags))
    return out


def car_eps_class(sp, tr, law, idx):
    """Dubins returns a zero-length path when the states are closer than DUBINS_EPS = 1e-6 (position / rho
    and heading), the Reeds-Shepp formulas lose everything below that scale to cancellation, and the 3D Dubins
    family (Owen, Vana, VanaOwen) is built on the same Dubins sub-paths: a positivity failure in these spaces is
    tagged with whether the pair lies inside that threshold (position/rho, heading, and pitch where present)."""
    if law != "positive" or sp[0] not in IMPL_ONLY:
        return {}
    a, b = tr[idx[0]], tr[idx[1]]
    npos = 2 if sp[0] in CAR2D else 3
    dpos = math.sqrt(sum((a[j] - b[j]) ** 2 for j in range(npos))) / sp[1]
    dth = abs(a[-1] - b[-1])
    dth = min(dth, abs(2 * PI - dth))
    dpitch = abs(a[3] - b[3]) if sp[0] in ("vana", "vanaowen") else 0.0
    return {"within_car_eps": bool(dpos < 1e-6 and dth < 1e-6 and dpitch < 1e-6)}


def minimal_script(sp, tr):
    return ["spacedist"] + space_lines(sp, [tr])


def classify(ck, hbin, sp, tr, v, uo=None, dist=None):
    """one record per culprit unit (the match keys of KNOWN_FINDINGS.jsonl)"""
    law, idx, defect, text = v
    if uo is None:
        uo = unit_outputs(ck, hbin, sp, tr)
    cs = attribute(ck, hbin, sp, tr, law, idx, uo)
    if not cs:
        rec = {"engine": "spacedist", "law": law, "culprit": "compound"}
        if law == "extent" and uo and dist is not None:
            # F360: CompoundStateSpace::getMaximumExtent drops components whose weight is below DBL_EPSILON, distance() does
            # not.  The tag holds iff the tree has a weight in (0, epsilon) AND the distance is within the extent that counts
            # every positively weighted component (the units' own extents, asked from the real code, folded as coded) —
            # an excess beyond that is something else.
            full, _uf = tree_fold(sp, iter([u[5] for u in uo]), mode="extent>0")
            sub_eps = any(0.0 < w < DBL_EPS for w in all_weights(sp))
            rec["dropped_subeps_weight"] = bool(sub_eps and dist <= full + slack(full, eps=space_eps(sp)))
        return "compound", [rec]
    recs = []
    for kind, tags in cs:
        rec = {"engine": "spacedist", "law": law, "culprit": kind}
        rec.update(tags)
        if rec not in recs:
            recs.append(rec)
    return "+".join(sorted(set(k for k, _ in cs))), recs


def weight_underflow(sp, uo, pq):
    """positivity: the as-coded weighted sum of the units' distances (asked from the real code) is exactly 0 although some
    unit with only POSITIVE weights above it has a positive distance: the product weight·distance underflowed (e.g. a
    subnormal weight 5e-324 times 0.3).  Rounding, like the SO(2) seam case — not alarmed, counted."""
    if not uo:
        return False
    val, uf = tree_fold(sp, iter([u[6][1][pq] for u in uo]))
    return bool(val == 0.0 and uf and any(u[6][1][pq] > 0.0 and not u[2] for u in uo))


def report_violation(ck, hbin, sp, tr, v, tag):
    """a violation whose culprit units ALL fall into recorded finding classes is a known finding; anything
    else (another law, another space kind, a defect outside the recorded bound, a compound whose own
    arithmetic is at fault) is reported."""
    law, idx, defect, text = v
    uo = unit_outputs(ck, hbin, sp, tr)
    if law == "positive" and weight_underflow(sp, uo, tuple(idx)):
        ck.count("oracle:positivity-skipped-weight-underflow")
        return False
    script = minimal_script(sp, tr)
    impl, model, rc, err = run_script_pair(ck, hbin, script, with_model=not impl_only(sp), retry=True)
    dist = None
    if law == "extent" and impl and len(impl) >= pre_lines(sp) + 2 + OPS_PER_TRIPLE:
        _cl, _ext, ts1 = parse_block(impl[pre_lines(sp):])
        if ts1 and ts1[0]:
            dist = ts1[0][1][tuple(idx)]         # the distance the implementation reports for the violating pair
    culprit, recs = classify(ck, hbin, sp, tr, v, uo, dist=dist)
    # `as_coded`: every value the implementation printed for this triple is bit-identical to the Lean model of the code
    # as it stands (the function the `_fails` witnesses and the finding text are about).  Every finding line requires it,
    # so a DIFFERENT wrong value — same law, same space, same input class — is not a known finding but a VIOLATION.
    as_coded = model is not None and len(model) == len(impl) and all(cmp_line(a, b) == "same" for a, b in zip(impl, model))
    for r in recs:
        r["as_coded"] = bool(as_coded)
    extra = {"space": " ".join(sp_tokens(sp)), "history": [op_line(op) for op in sp[2]] if sp[0] == "hist" else None,
             "states": [st_tokens(sp, s) for s in tr], "what": text,
             "defect": defect, "generator": tag, "indices": list(idx)}
    if all(ck.known_finding(r) is not None for r in recs):
        for r in recs:
            r2 = dict(r)
            r2.update(extra)
            ck.report(r2, script=script, expected=model, observed=impl, engine="spacedist")
            ck.count("known:%s:%s" % (law, r["culprit"]))
        return False
    rec = {}
    for r in recs:
        rec.update(r)
    rec["culprit"] = culprit
    rec.update(extra)
    ck.report(rec, script=script, expected=model, observed=impl, engine="spacedist")
    back = " [the defect F360, fixed by bb83952a6, is back: getMaximumExtent drops a weight in (0, DBL_EPSILON)]" \
        if rec.get("dropped_subeps_weight") else ""
    ck.log("property failure: law=%s culprit=%s %s in space %s%s" % (law, culprit, text, " ".join(sp_tokens(sp))[:120], back))
    return True


def search_around(ck, hbin, sp, tr, r, n=120):
    """targeted search after a model/implementation disagreement: triples built from the disagreeing
    states (perturbed, permuted, mixed with fresh ones) are put to the oracle."""
    triples = []
    for k in range(n):
        a, b, c = tr
        m = k % 6
        if m == 0:
            t = (a, b, gen_state(r, sp, "uniform"))
        elif m == 1:
            t = (a, gen_state(r, sp, "mixed"), b)
        elif m == 2:
            t = (perturb(r, sp, a, "small"), b, c)
        elif m == 3:
            t = (b, c, a)
        elif m == 4:
            t = (a, perturb(r, sp, b, "ulp"), perturb(r, sp, c, "small"))
        else:
            t = (c, a, gen_state(r, sp, "bound"))
        triples.append(t)
    script, impl, model, rc, err = run_batch(ck, hbin, [(sp, triples)])
    PRE = pre_lines(sp)
    if not impl or impl[:PRE] != pre_expected(sp):
        return None
    cl, ext, ts = parse_block(impl[PRE:])
    if cl is None:
        return None
    for t, res in zip(triples, ts):
        ck.count("search:triples-tried")
        if res is None:
            continue
        vs = laws(sp, cl, ext, t, res)
        for v in vs:
            _c, recs = classify(ck, hbin, sp, t, v)
            for rec in recs:          # after a disagreement nothing is "as coded" any more: every violation counts
                rec["as_coded"] = False
            if not all(ck.known_finding(rec) is not None for rec in recs):
                return t, v
    return None


def judge_batch(ck, hbin, blocks, tag, state, pre=None):
    script, impl, model, rc, err = pre if pre is not None else run_batch(ck, hbin, blocks)
    ck.traces_validated += 1
    ck.count("scripts:" + tag)
    ck.count("ops", len(script) - 1)
    pos = 0
    for sp, triples in blocks:
        PRE = pre_lines(sp)
        n = PRE + 2 + OPS_PER_TRIPLE * len(triples)
        iout = impl[pos:pos + n]
        mout = model[pos:pos + n] if model is not None else None
        sl = script[1 + pos:1 + pos + n]
        pos += n
        kind = "+".join(sorted(set(unit_kind(u[0]) for u in units(sp))))
        ck.count("space:" + sp[0])
        if len(iout) < n or iout[:PRE] != pre_expected(sp):
            if state["bad"] < 4:
                state["bad"] += 1
                ck.report({"engine": "spacedist", "law": "crash", "culprit": kind,
                           "what": "harness stopped, refused a well-formed space / history op, or reports other subspace "
                                   "weights than were set (rc=%s): got %r, expected %r %s"
                                   % (rc, iout[:PRE], pre_expected(sp), (err or "")[-400:])},
                          script=["spacedist"] + sl, observed=iout, expected=mout, engine="spacedist")
            continue
        cl, ext, ts = parse_block(iout[PRE:])
        if cl is None or ext is None:
            state["bad"] += 1
            ck.report({"engine": "spacedist", "law": "protocol", "culprit": kind, "what": "bad claims/extent line"},
                      script=["spacedist"] + sl[:PRE + 2], observed=iout[:PRE + 2], expected=mout[:PRE + 2] if mout else None,
                      engine="spacedist")
            continue
        # ---- spec oracle on the implementation's outputs
        for k, (tr, res) in enumerate(zip(triples, ts)):
            mode = state["modes"].get((id(triples), k), tag)
            if res is None:
                state["bad"] += 1
                ck.report({"engine": "spacedist", "law": "protocol", "culprit": kind, "what": "bad-op on a well-formed line"},
                          script=minimal_script(sp, tr), observed=iout[PRE + 2 + k * OPS_PER_TRIPLE:PRE + 2 + (k + 1) * OPS_PER_TRIPLE],
                          engine="spacedist")
                continue
            inb, D, E = res
            nontrivial = all(inb) and not (E[(0, 1)] and E[(1, 2)])
            ck.case((sp_tokens(sp), [st_tokens(sp, s) for s in tr]), nontrivial)
            ck.count("triples:" + mode)
            if not all(inb):
                ck.count("triples:not-all-in-bounds(skipped by the oracle)")
            for law_name in ("metric", "symdist"):
                if cl[law_name]:
                    ck.count("claimed:" + law_name)
            vs = laws(sp, cl, ext, tr, res, ck.count)
            seen = set()
            for v in vs:
                if v[0] in seen:
                    continue
                seen.add(v[0])
                ck.count("oracle-violation:" + v[0])
                if state["bad"] < 6:
                    if report_violation(ck, hbin, sp, tr, v, mode):
                        state["bad"] += 1
        if tag in ("history", "corpus", "weights") or odd_weights(sp) or (tag == "compound" and state.get("wsum_budget", 0) > 0):
            if tag == "compound" and not odd_weights(sp):
                state["wsum_budget"] -= 1
            weighted_sum_check(ck, hbin, sp, triples, ts, state)
        for w in all_weights(sp):
            ck.count("weight:" + ("zero" if w == 0.0 else "subnormal" if w < MIN_NORMAL else "below-epsilon" if w < DBL_EPS else
                                  "epsilon..1e-6" if w < 1e-6 else "huge" if w > 1e5 else "everyday"))
        if len(state["samples"]) < 6:
            state["samples"].append(1)
            ck.sample({"generator": tag, "space": " ".join(sp_tokens(sp))[:200], "claims": cl, "extent": ext,
                       "first_triple_distances": {"%d%d" % k: v for k, v in ts[0][1].items()} if ts and ts[0] else None})
        # ---- correspondence
        if mout is None:
            ck.count("impl-only-spaces")
            continue
        for li in range(n):
            x = iout[li] if li < len(iout) else "<missing>"
            y = mout[li] if li < len(mout) else "<missing>"
            c = cmp_line(x, y)
            if c == "same":
                continue
            if c == "drift":
                ck.drift_events += 1
                ck.count("drift:" + kind)
                continue
            if c == "novalue":
                ck.count("model:no-value(default-constructed Dubins path):" + kind)
                continue
            ck.disagreements += 1
            ck.count("disagreement:" + kind)
            if state["dis"] >= 3:
                break
            state["dis"] += 1
            k = (li - PRE - 2) // OPS_PER_TRIPLE if li >= PRE + 2 else 0
            tr = triples[k] if triples else None
            found = None
            if tr is not None:
                found = search_around(ck, hbin, sp, tr, ck.rng.fork("search%d" % state["dis"]))
            if found:
                t2, v = found
                report_violation(ck, hbin, sp, t2, v, "search-after-disagreement")
                state["bad"] += 1
            else:
                ms = minimal_script(sp, tr) if tr is not None else ["spacedist"] + sl[:3]
                o, m, _rc, _err = run_script_pair(ck, hbin, ms)
                ck.report({"engine": "spacedist", "what": "model/implementation disagreement", "culprit": kind},
                          script=ms, expected=m, observed=o, found_input=False, engine="spacedist",
                          obligation="correspondence spacedist: %s: implementation printed %r, model %r (op %r)"
                                     % (kind, x, y, sl[li].split()[0]))
                ck.log("correspondence disagreement in %s at op %r: impl %r model %r; targeted search found no law violation"
                       % (kind, sl[li].split()[0], x, y))
            break


def weighted_sum_check(ck, hbin, sp, triples, ts, state):
    """independent of the model: the distance the implementation reports for a compound (any nesting of compounds,
    SE(2)/SE(3), wrappers, constrained spaces, CForest wrappers, SpaceTime when finite) must be the weighted sum of its
    components' distances with the CURRENT weights AT EVERY LEVEL: the unit sub-spaces' own distances (asked from the real
    code) folded as the code folds them (`tree_fold`: `acc = 0.0; acc += w_i * d_i`, IEEE doubles), for EVERY weight however
    small.  The comparison is relative (1e-12; no absolute floor, so a term of 2.5e-16 under a tie-breaker weight counts),
    except where a product underflowed into the subnormals (absolute 1e-300 there)."""
    if impl_only(sp):
        return
    us = units(sp)
    if len(us) < 2 and all(abs(w - 1.0) < 1e-300 for _u, w, _n in us):
        return
    script = ["spacedist"]
    i = 0
    for usp, w, n in us:
        subs = [tuple(s[i:i + n] for s in tr) for tr in triples]
        i += n
        script += space_lines(usp, subs)
    o, rc, err = run_bin_retry(ck, hbin, script)   # one process for all units of this space
    if not o:
        return
    ud = []                                          # ud[unit][triple] = D
    pos = 0
    for j, (usp, w, n) in enumerate(us):
        pre = pre_lines(usp)
        per = pre + 2 + OPS_PER_TRIPLE * len(triples)
        blk = o[pos:pos + per]
        pos += per
        if len(blk) < per or blk[:pre] != pre_expected(usp):
            return
        _cl, _ext, uts = parse_block(blk[pre:])
        if len(uts) < len(triples) or any(res is None for res in uts):
            return
        ud.append([res[1] for res in uts])
    for k, (tr, res) in enumerate(zip(triples, ts)):
        if res is None:
            continue
        ck.count("oracle:weighted-sum-triples")
        for pq in PAIRS:
            d = res[1][pq]
            e, uf = tree_fold(sp, iter([ud[j][k][pq] for j in range(len(us))]))
            if d == math.inf and contains(sp, lambda x: x[0] == "spacetime"):
                continue                             # not reachable within vMax: not the weighted-sum clause's business
            if uf:
                ck.count("oracle:weighted-sum-underflow-pairs")
            ok = (d == e) or (d != d and e != e) or (math.isfinite(d) and math.isfinite(e) and
                                                      abs(d - e) <= 1e-12 * max(abs(d), abs(e)) + (1e-300 if uf else 0.0))
            if not ok:
                ck.count("oracle-violation:weightedsum")
                if state["bad"] < 6:
                    state["bad"] += 1
                    script = minimal_script(sp, tr)
                    impl, model, _rc, _err = run_script_pair(ck, hbin, script)
                    ck.report({"engine": "spacedist", "law": "weightedsum", "culprit": "compound",
                               "space": " ".join(sp_tokens(sp)), "history": [op_line(op) for op in sp[2]] if sp[0] == "hist" else None,
                               "states": [st_tokens(sp, x) for x in tr], "indices": list(pq),
                               "what": "compound distance %r is not the weighted sum of its components' distances %r (current weights)" % (d, e)},
                              script=script, expected=model, observed=impl, engine="spacedist")
                    ck.log("property failure: law=weightedsum distance %r, weighted sum of the component distances %r in space %s"
                           % (d, e, " ".join(script[1:pre_lines(sp) + 1])[:200]))
                return


def refusal_check(ck, hbin):
    """weights outside the legal range must be REFUSED (a negative weight makes distances negative): SpaceTimeStateSpace's
    constructor (`timeWeight < 0 || timeWeight > 1` throws) and setSubspaceWeight (`weight < 0.0` throws; the space stays as
    it is) against the model's `mkSpacetime?` / `setWeightX`; the boundary values 0, 1, 5e-324 must be ACCEPTED."""
    so2 = ["so2"]
    one = B(1.0)
    lines, exp = [], []
    for tw, ok in [(1.5, False), (-0.1, False), (-5e-324, False), (math.nextafter(1.0, 2.0), False), (math.inf, False),
                   (0.0, True), (1.0, True), (5e-324, True), (math.nextafter(1.0, 0.0), True)]:
        lines.append(" ".join(["space", "spacetime", one, B(tw), "u"] + so2))
        exp.append("ok" if ok else "bad-op")
        if ok:
            lines.append("weights 0")
            exp.append("w 2 %s %s" % (B(1.0 - tw), B(tw)))
    lines.append(" ".join(["space"] + sp_tokens(("se2", [0.0, 0.0], [1.0, 1.0]))))
    exp.append("ok")
    for w, ok in [(-1.0, False), (-5e-324, False), (-math.inf, False), (5e-324, True), (0.0, True)]:
        lines.append("setweight 0 1 " + B(w))
        exp.append("ok" if ok else "bad-op")
        lines.append("weights 0")
        exp.append("w 2 %s %s" % (B(1.0), B(w if ok else (0.5 if w != 0.0 and exp.count("ok") < 7 else 0.5))))
    # the weight actually in force after each step (refused ops change nothing)
    cur = 0.5
    k = len(exp) - 10
    for j, (w, ok) in enumerate([(-1.0, False), (-5e-324, False), (-math.inf, False), (5e-324, True), (0.0, True)]):
        if ok:
            cur = w
        exp[k + 2 * j + 1] = "w 2 %s %s" % (B(1.0), B(cur))
    script = ["spacedist"] + lines
    impl, model, rc, err = run_script_pair(ck, hbin, script)
    ck.traces_validated += 1
    ck.count("scripts:refusal")
    ck.count("ops", len(lines))
    for i, (ln, e) in enumerate(zip(lines, exp)):
        x = impl[i] if i < len(impl) else "<missing>"
        y = model[i] if model is not None and i < len(model) else "<missing>"
        ck.case(("refusal", ln), True)
        if x != e:
            ck.report({"engine": "spacedist", "law": "refusal", "culprit": "weights",
                       "what": "op %r answered %r, expected %r: a weight outside the legal range must be refused (and one inside "
                               "accepted, leaving exactly that weight in force)" % (ln[:80], x, e)},
                      script=script[:i + 2], observed=impl[:i + 1], expected=exp[:i + 1], engine="spacedist")
            ck.log("property failure: law=refusal op %r answered %r, expected %r" % (ln[:80], x, e))
            return
        if y != e:
            ck.disagreements += 1
            ck.report({"engine": "spacedist", "what": "model/implementation disagreement", "culprit": "weights"},
                      script=script[:i + 2], expected=model[:i + 1] if model else None, observed=impl[:i + 1], found_input=False,
                      engine="spacedist", obligation="correspondence spacedist: refusal of illegal weights: implementation %r, model %r (op %r)" % (x, y, ln[:60]))
            return


def make_triples(r, sp, n, state):
    triples = []
    for k in range(n):
        mode = TRIPLE_MODES[k % len(TRIPLE_MODES)] if k < len(TRIPLE_MODES) else r.choice(TRIPLE_MODES)
        triples.append(gen_triple(r, sp, mode))
        state["modes"][(id(triples), k)] = mode
    return triples


def corpus():
    d = os.path.join(core.VERIF, "corpus", "C06")
    out = []
    if os.path.isdir(d):
        for f in sorted(os.listdir(d)):
            if f.endswith(".txt"):
                for ln in open(os.path.join(d, f)):
                    ln = ln.strip()
                    if not ln or ln.startswith("#"):
                        continue
                    parts = [p.split() for p in ln.split(";")]
                    sp, _ = parse_space(parts[0])
                    tr = tuple(st_parse(sp, p) for p in parts[1:4])
                    out.append((f, sp, tr))
    return out


def setup(ck):
    ck.build_harness("spacedist", ["spacedist.cpp"], link_ompl=True)


def run(ck):
    ck.rule = ("one case = one (space, triple of states); spaces: every shipped class with several parameterisations, "
               "random nested weighted compounds (depth <= 3; weights 0, everyday, 5e-324 … just below 2^-52 paired with components "
               "whose range makes the weighted term count, either side of 2^-52, 1e6 … 1e100), fixed weight-range compounds and "
               "SpaceTime spaces, histories that change weights (incl. refused negative ones) after construction, "
               "Dubins/Reeds-Shepp (implementation only); triples: uniform, "
               "bound/ulp-inside-bound, coincident, 1-ulp-apart, small moves (SO(3) rotations of 1e-6..1e-4 rad), q vs -q, "
               "in-bounds non-unit quaternions (norm 1 ± <1e-9), "
               "seam-straddling; non-trivial = all three states satisfy the implementation's satisfiesBounds and are not all "
               "equalStates; distinct by space text + state bit patterns")
    ck.trusted += ["harness/spacedist.cpp (links libompl built from the current tree; no source hooks)",
                   "extract/claims.py (runs the harness; output cross-checked against the model's `claims` line on every space)",
                   "Sphere: Lean Float32 + glibc sinf/cosf/sqrtf reproduce the C++ float path (bit-exact on everything explored)"]
    ck.assumptions += ["theorems are over ℝ: IEEE rounding of the Float run is modelled (executed, compared bit for bit) but not verified",
                       "in-bounds for the theorems is the exact domain (box, [-π,π), unit quaternions); the code's satisfiesBounds "
                       "accepts an extra ε = 2^-52 (Rⁿ, time) resp. 1e-9 (SO(3) norm) around it",
                       "compound weights: the laws are proved for all weights > 0 and the extent law for all weights >= 0 (no lower "
                       "cut-off anywhere since bb83952a6; the former `>= epsilon` guard of getMaximumExtent is kept as `maxExtentOld`, "
                       "witness compound_extent_subeps_weight_fails, and selected for the model when the tree under test still has it); "
                       "generated weights span 5e-324 … 1e100 incl. both sides of 2^-52",
                       "Torus / Moebius / Klein / Sphere with weights changed by setSubspaceWeight are modelled at top level and under "
                       "CForest wrappers only (positive everyday weights)",
                       "positivity is not alarmed when the as-coded weighted sum underflows (a positive weight times a positive unit "
                       "distance below the smallest normal double, e.g. 5e-324 × 0.3 = 0; counted in input_distribution)",
                       "under an effective weight W the circle distance's one-ulp(2π) absolute rounding error is scaled to W·8.9e-16: the "
                       "oracle adds 4·W·8.9e-16 per SO(2)-carrying unit to its float-ε slack (matters only for W > 1e7)",
                       "oracle slack: float ε × max(1, magnitudes involved), as StateSpace::sanityChecks; a metric claim is read as "
                       "including symmetry (as sanityChecks does)",
                       "positivity is not alarmed for SO(2) pairs within 4e-15 of each other across the ±π seam (exact distance below "
                       "the double spacing at 2π; counted in input_distribution)"]
    hbin = ck.build_harness("spacedist", ["spacedist.cpp"], link_ompl=True)
    ck.count("variant:getMaximumExtent-guard-" + ("old(>=epsilon)" if OLD_EXTENT else "fixed(>0)"))
    table, changed = claims_gen.generate(ck, hbin)
    ck.extra_cov["claims_table"] = {n: c for n, _s, c in table}
    ck.extra_cov["claims_file_rewritten"] = changed
    ck.lean_build(LEAN_TARGETS)
    ck.audit(roots=["Drv.SpaceDist"])
    if ck.tier == "thorough" and ck.lean_ok:
        ck.leanchecker(["OmplModel.Props.C06"])
    if not ck.lean_ok:
        # the driver may be stale or missing; the oracle on the implementation still runs if a driver exists
        try:
            ck.driver(DRIVER)
        except RuntimeError:
            return 0
    quick = ck.tier == "quick"
    state = {"bad": 0, "dis": 0, "modes": {}, "samples": [], "wsum_budget": 8 if quick else 80}
    jobs = []
    # corpus first
    for name, sp, tr in corpus():
        jobs.append(([(sp, [tr])], "corpus"))
    r = ck.rng.fork("spaces")
    nt_leaf, nt_cmp, n_cmp, nt_car = (48, 30, 90, 30) if quick else (240, 100, 450, 120)
    for i, sp in enumerate(shipped_spaces(r)):
        jobs.append(([(sp, make_triples(ck.rng.fork("leaf%d" % i), sp, nt_leaf, state))], "shipped"))
    for i, sp in enumerate(weight_spaces()):
        jobs.append(([(sp, make_triples(ck.rng.fork("wsp%d" % i), sp, 13 if quick else 60, state))], "weights"))
    batch = []
    for i in range(n_cmp):
        rr = ck.rng.fork("cmp%d" % i)
        sp = rand_compound(rr, rr.choice([1, 2, 2, 3, 3]))
        if nvals(sp) > 60:
            continue
        batch.append((sp, make_triples(rr, sp, nt_cmp, state)))
        if len(batch) == 5:
            jobs.append((batch, "compound"))
            batch = []
    if batch:
        jobs.append((batch, "compound"))
    hs = history_spaces(ck.rng.fork("hist"), 18 if quick else 150)
    for i in range(0, len(hs), 4):
        jobs.append(([(sp, make_triples(ck.rng.fork("h%d" % (i + j)), sp, 12 if quick else 30, state))
                      for j, sp in enumerate(hs[i:i + 4])], "history"))
    for i, sp in enumerate(car_spaces(ck.rng.fork("cars"))):
        jobs.append(([(sp, make_triples(ck.rng.fork("car%d" % i), sp, nt_car, state))], "dubins-reedsshepp"))

    # the paired runs are independent processes: run them concurrently, judge sequentially (deterministic order)
    def work(job):
        blocks, tag = job
        return run_batch(ck, hbin, blocks)
    with ThreadPoolExecutor(max_workers=6) as ex:
        results = list(ex.map(work, jobs))
    for (blocks, tag), res in zip(jobs, results):
        if state["bad"] >= 6:
            break
        judge_batch(ck, hbin, blocks, tag, state, pre=res)
    if state["bad"] < 6:
        refusal_check(ck, hbin)
    return 0


def replay(ck, data):
    hbin = ck.build_harness("spacedist", ["spacedist.cpp"], link_ompl=True)
    rec = data.get("record") or {}
    script = data.get("script")
    if not script:
        # a broken obligation (failed lake build / audit / claims coverage): re-check it
        table, _ = claims_gen.generate(ck, hbin)
        ok = ck.lean_build(LEAN_TARGETS) and ck.audit(roots=["Drv.SpaceDist"])
        print("obligation: %s" % data.get("obligation"))
        print("lake build + audit on the current tree: %s" % ("ok" if ok else "FAILED"))
        return 0 if ok else 1
    impl, rc, err = ck.run_bin(hbin, script)
    model = None
    if "space" in rec:
        sp, _ = parse_space(rec["space"].split())
        if not impl_only(sp):
            ck.lean_build([DRIVER])
            impl, model, rc, err = run_script_pair(ck, hbin, script)
    for i, ln in enumerate(script[1:]):
        short = ln if len(ln) < 60 else ln[:57] + "..."
        x = impl[i] if impl and i < len(impl) else "<missing>"
        print("%-60s impl: %s" % (short, x + ("  (= %r)" % F(x.split()[1]) if x.startswith(("d ", "ext ")) else "")))
        if model is not None and i < len(model) and model[i] != x:
            print("%-60s model: %s" % ("", model[i]))
    bad = False
    PRE = script.index("claims") - 1 if "claims" in script else 1
    if "space" in rec and "states" in rec and impl and all(x == "ok" or x.startswith("w ") for x in impl[:PRE]):
        tr = tuple(st_parse(sp, s) for s in rec["states"])
        cl, ext, ts = parse_block(impl[PRE:])
        if cl and ts and ts[0]:
            for v in laws(sp, cl, ext, tr, ts[0]):
                print("PROPERTY FAILS: law=%s %s (defect %r)" % (v[0], v[3], v[2]))
                bad = True
    if model is not None and any(cmp_line(a, b) == "diff" for a, b in zip(impl or [], model)):
        print("model and implementation disagree")
        bad = True
    if not bad:
        print("no failure on the current tree")
    return 1 if bad else 0


MANIFEST = {
    "engine": "spacedist",
    "category": "proof",
    "design_ref": "DESIGN.md 2.6",
    "text": "Lean 4 theorems over an executable, Num-generic model of distance / getMaximumExtent / equalStates / "
            "satisfiesBounds / isMetricSpace of the shipped state spaces (R^n, SO(2), SO(3), SE(2), SE(3), time, discrete, "
            "torus, Moebius, Klein bottle, sphere, wrapper, nested weighted compounds incl. zero weights, EmptyStateSpace, "
            "SpaceTimeStateSpace, Projected/Atlas/TangentBundle (ambient distance), CForest wrapper): all six metric laws "
            "over the reals for R^n, SO(2), time, discrete, torus, empty and the unclamped SO(3) distance; the sphere's real "
            "haversine formula proved equal to r*angle(u,v) with its metric laws; the laws SpaceTime claims; "
            "compound_metric by structural induction for arbitrarily nested weighted compounds and wrappers; kernel-checked "
            "counterexamples for every law the code breaks while claiming it (SO(3) clamp, SO(3) non-unit in-bounds "
            "quaternions, Moebius, Klein bottle, sphere poles/extent, unbounded time, zero weights); a claims table "
            "regenerated on every run by running the code (31 space instances) with a `decide`d coverage obligation. Tied to "
            "the C++ by bit-exact lock-step runs of the real classes against the compiled model, plus a six-law oracle on the "
            "implementation's own distances over pairs and genuine triples, and a model-independent weighted-sum oracle. "
            "Dubins, Reeds-Shepp, Vana and Owen distances are in the lock-step through C14's Lean models (Owen with the root of "
            "boost's bracketing search recorded; VanaOwen: length recomputed from the recorded path). Histories change bounds, "
            "dimensions and weights (by index and by name) after construction / setup() and compare with the model recomputed "
            "from the current values. Every known finding must be bit-identical to the model of the code as it stands "
            "(`as_coded`), so a different wrong value is a violation. Compound weights are generated over their whole legal range "
            "(5e-324 ... 1e100, both sides of DBL_EPSILON, tiny weights on components with ranges up to 2e300, refused negative ones), "
            "the weighted-sum oracle folds the components' own distances as coded at every level with a relative tolerance, and "
            "the weighted-sum clause is proved in closed form for every weight vector; the extent law is proved for every non-negative "
            "weight vector (the former epsilon guard of getMaximumExtent, F360, is kept as a kernel-checked witness and as a "
            "selectable model variant for older trees). Torus / Moebius / Klein / Sphere spaces whose weights were changed by "
            "setSubspaceWeight are modelled as coded (F361: the overrides ignore weights the inherited extent applies).",
    "note": "Trusted: Lean kernel, the three standard axioms, the model outside the explored inputs, the harness, claims.py. "
            "Theorems are over the reals (rounding executed and compared, not verified). The metric theory of the car-like spaces "
            "is C14's; here they are lock-stepped and put to the oracle. Constrained spaces are exercised over sphere, plane and "
            "torus constraints with R^n, SE(2), SE(3), wrapped and compound ambient spaces.",
    "technique": "Lean 4 proof (real-number metric laws, inner-product-space angles, structural induction over compound "
                 "spaces, counterexample witnesses) + bit-exact differential correspondence + generated claims obligation",
}
