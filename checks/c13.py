"""C13 — grid discretizations track cells, neighbours, borders and components exactly.

Obligations: theorems of lean/OmplModel/Props/C13.lean (kernel-checked, audited).
Correspondence: the real ompl::GridB<int, CmpE, CmpI> (harness/grid.cpp, compiled from the current tree's
src/ompl/datastructures/{Grid,GridN,GridB,BinaryHeap}.h) vs the Lean model (drv_grid) on the same operation
scripts, line by line (cell table, per-cell neighbour lists in the code's order, both heap arrays, counts,
components, probes, tops).
Spec oracle (on the implementation's output only, independent of the model): the abstract set of present
cells is computed from the script; neighbour sets, counts, border flags, event-maintained data, heap
membership, tops-as-minima and the component partition (union-find) are recomputed from the definition.
"""
import collections
import concurrent.futures
import itertools
import json
import os
import re

from lib import core

DRIVER = "drv_grid"
LEAN_TARGETS = ["OmplModel.Props.C13", DRIVER, "drv_discretization", "drv_kpiece", "drv_lbkpiece", "drv_gridn"]
CMPS = ["less", "greater", "div4", "mod16"]
EVS = ["none", "lo", "hi"]
FAR = 1 << 30


# ---------------------------------------------------------------------------------- arithmetic of the functors
def tdiv(a, b):
    q = abs(a) // abs(b)
    return q if (a < 0) == (b < 0) else -q


def tmod(a, b):
    return a - b * tdiv(a, b)


def lt_of(cmp):
    if cmp == "less":
        return lambda a, b: a < b
    if cmp == "greater":
        return lambda a, b: a > b
    if cmp == "div4":
        return lambda a, b: tdiv(a, 4) < tdiv(b, 4)
    return lambda a, b: tmod(a, 16) < tmod(b, 16)


def ev_of(ev):
    if ev == "none":
        return lambda d, cnt: d
    if ev == "lo":
        return lambda d, cnt: tdiv(d, 16) * 16 + min(cnt, 15)
    return lambda d, cnt: min(cnt, 15) * 4096 + tmod(d, 4096)


class Header:
    def __init__(self, line):
        t = line.split()
        assert t[0] == "grid"
        self.dim = int(t[1].split("=")[1])
        lim = t[2].split("=")[1]
        self.limit = 2 * self.dim if lim == "default" else int(lim)
        self.cmpe = t[3].split("=")[1]
        self.cmpi = t[4].split("=")[1]
        self.ev = t[5].split("=")[1]
        self.lo = self.up = None
        if t[6] == "bounds":
            v = list(map(int, t[7:]))
            self.lo, self.up = v[:self.dim], v[self.dim:]

    def boundary_dims(self, x):
        if self.lo is None:
            return 0
        return sum(1 for i in range(self.dim) if x[i] == self.lo[i] or x[i] == self.up[i])


def nb_coords(x):
    """the set of coordinates at distance one in a single dimension (a set: the oracle does not know the
    code's probing order)."""
    out = []
    for i in range(len(x)):
        for d in (-1, 1):
            y = list(x)
            y[i] += d
            out.append(tuple(y))
    return out


# ---------------------------------------------------------------------------------- generators
class Gen:
    def __init__(self, rng, dim=None, limit=None, bounds="rand", cmpe=None, cmpi=None, ev=None, span=None):
        self.rng = rng
        self.dim = dim or rng.choice([1, 1, 2, 2, 2, 3, 3, 4])
        d = self.dim
        if limit is None:
            limit = "default" if rng.chance(1, 4) else rng.range(1, 2 * d + 1)
        self.limit = limit
        self.cmpe = cmpe or rng.choice(CMPS)
        self.cmpi = cmpi or (self.cmpe if rng.chance(1, 2) else rng.choice(CMPS))
        self.ev = ev or rng.choice(EVS)
        self.span = span if span is not None else rng.choice([1, 2, 2, 3])
        if bounds == "rand":
            if rng.chance(2, 5):
                bounds = None
            else:
                lo = [rng.range(-2, 0) for _ in range(d)]
                up = [lo[i] + (0 if rng.chance(1, 5) else rng.range(1, 3)) for i in range(d)]
                bounds = (lo, up)
        self.bounds = bounds
        hdr = "grid dim=%d limit=%s cmpe=%s cmpi=%s ev=%s " % (d, limit, self.cmpe, self.cmpi, self.ev)
        hdr += "nobounds" if bounds is None else "bounds " + " ".join(map(str, bounds[0] + bounds[1]))
        self.lines = [hdr]
        self.present = []     # hint only: coordinates believed present
        self.pend = None      # hint only: coordinate of the created-but-not-added cell
        self.farbase = [rng.choice([FAR - 3, -FAR + 3, FAR - 2, -(FAR - 1)]) for _ in range(d)]

    def data(self):
        r = self.rng
        return r.below(4096) if r.chance(2, 3) else r.choice([0, 1, 15, 16, 17, 64, 4095])

    def coord(self):
        r, d = self.rng, self.dim
        k = r.below(100)
        if k < 4:      # far away, clustered so that far cells can be neighbours of each other
            return tuple(self.farbase[i] + r.range(-1, 1) for i in range(d))
        if k < 30 and self.present:   # next to a present cell
            x = list(r.choice(self.present))
            x[r.below(d)] += r.choice([-1, 1])
            return tuple(x)
        if self.bounds is not None:
            lo, up = self.bounds
            return tuple(r.range(lo[i] - 1, up[i] + 1) if r.chance(1, 4) else r.range(lo[i], up[i]) for i in range(d))
        return tuple(r.range(-self.span, self.span) for _ in range(d))

    def cs(self, x):
        return " ".join(map(str, x))

    def new(self, x=None, d=None):
        x = self.coord() if x is None else tuple(x)
        self.lines.append("new %s %d" % (self.cs(x), self.data() if d is None else d))
        if x not in self.present and self.pend is None:
            self.present.append(x)

    def pick(self):
        if self.present and not self.rng.chance(1, 12):
            return self.rng.choice(self.present)
        return self.coord()

    def rm(self, x=None):
        x = self.pick() if x is None else tuple(x)
        self.lines.append("rm " + self.cs(x))
        if x in self.present and self.pend is None:
            self.present.remove(x)

    def upd(self):
        self.lines.append("upd %s %d" % (self.cs(self.pick()), self.data()))

    def updall(self, k):
        parts = []
        for _ in range(k):
            parts.append("%s %d" % (self.cs(self.pick()), self.data()))
        self.lines.append(("updall %d %s" % (k, " ".join(parts))).strip())

    def has(self):
        self.lines.append("has " + self.cs(self.pick() if self.rng.chance(1, 2) else self.coord()))

    def nb(self):
        self.lines.append("nb " + self.cs(self.pick() if self.rng.chance(1, 2) else self.coord()))

    def tops(self):
        self.lines.append(self.rng.choice(["topi", "tope"]))

    def clear(self):
        self.lines.append("clear")
        if self.pend is None:
            self.present = []

    # ---- split protocol: createCell without add; then add, or remove + destroyCell
    def create(self, x=None, d=None):
        x = self.coord() if x is None else tuple(x)
        self.lines.append("create %s %d" % (self.cs(x), self.data() if d is None else d))
        if self.pend is None and x not in self.present:
            self.pend = x

    def addc(self):
        self.lines.append("addc")
        if self.pend is not None:
            self.present.append(self.pend)
            self.pend = None

    def abandon(self):
        self.lines.append("abandon")
        self.pend = None

    def malformed(self):
        r = self.rng
        k = r.below(10)
        x = self.cs(self.coord())
        self.lines.append(["new " + x, "rm " + x + " 1", "has", "nb " + x + " x", "updall 2 " + x + " 5",
                           "topi 0", "new " + x + " 1.5", "create " + x, "addc 1", "abandon " + x][k])


def gen_random(rng, nops):
    g = Gen(rng)
    split = rng.chance(1, 2)      # half of the random mixes use the split protocol too
    for _ in range(nops):
        r = rng.below(100)
        if split and g.pend is not None and rng.chance(2, 3):
            # inside the window: mostly close it; sometimes work inside it or knock on the closed doors
            k = rng.below(10)
            if k < 4:
                g.addc()
            elif k < 7:
                g.abandon()
            elif k < 8:
                g.upd()
            elif k < 9:
                g.tops()
            else:
                rng.choice([g.new, g.rm, g.clear, g.create])()
        elif split and r < 18:
            g.create()
        elif split and r < 20:
            rng.choice([g.addc, g.abandon])()     # nopending
        elif r < 40:
            g.new()
        elif r < 62:
            g.rm()
        elif r < 70:
            g.upd()
        elif r < 73:
            g.updall(rng.below(4))
        elif r < 79:
            g.has()
        elif r < 85:
            g.nb()
        elif r < 97:
            g.tops()
        elif r < 98:
            g.clear()
        else:
            g.malformed()
    g.lines += ["topi", "tope"]
    return g.lines


def gen_flip(rng):
    """a centre cell and its 2*dim arms, created and removed in random orders: the centre's count crosses the
    interior limit in both directions; the arms' counts cross it when the limit is 1 or 2; with bounds the
    centre sits on a bound in some dimensions."""
    dim = rng.choice([1, 2, 2, 3, 3, 4])
    limit = rng.range(1, 2 * dim)
    centre = [rng.range(-1, 1) for _ in range(dim)]
    bounds = None
    if rng.chance(1, 2):
        lo = [centre[i] - rng.choice([0, 1, 1, 2]) for i in range(dim)]
        up = [centre[i] + rng.choice([0, 1, 1, 2]) for i in range(dim)]
        bounds = (lo, up)
    g = Gen(rng, dim=dim, limit=limit, bounds=bounds)
    arms = nb_coords(centre)
    second = [y for a in arms for y in nb_coords(a) if y != tuple(centre)]
    g.new(centre)
    for rounds in range(rng.range(2, 4)):
        order = list(arms)
        rng.shuffle(order)
        for a in order:
            g.new(a)
            if rng.chance(1, 3):
                g.tops()
            if rng.chance(1, 6):
                g.new(rng.choice(second))
        if rng.chance(1, 3):
            g.updall(rng.below(3))
        rng.shuffle(order)
        for a in order[: rng.range(1, len(order))]:
            g.rm(a)
            if rng.chance(1, 3):
                g.tops()
            if rng.chance(1, 5):
                g.upd()
        if rng.chance(1, 4):
            g.rm(centre)
            g.tops()
            g.new(centre)
    g.lines += ["topi", "tope"]
    return g.lines


def gen_dense(rng):
    """a fully populated box whose faces are the configured bounds (every cell interior at the default limit:
    the external heap is empty), then holes punched and refilled."""
    dim = rng.choice([1, 2, 2, 3])
    side = rng.choice([1, 2, 3]) if dim < 3 else rng.choice([1, 2])
    lo = [rng.range(-1, 0) for _ in range(dim)]
    up = [lo[i] + side - 1 for i in range(dim)]
    g = Gen(rng, dim=dim, limit=rng.choice(["default", "default", 2 * dim - 1 if dim > 1 else 1, 1]), bounds=(lo, up))
    cells = list(itertools.product(*[range(lo[i], up[i] + 1) for i in range(dim)]))
    rng.shuffle(cells)
    for x in cells:
        g.new(x)
        if rng.chance(1, 4):
            g.tops()
    g.lines += ["tope", "topi"]
    for _ in range(rng.range(2, 10)):
        x = rng.choice(cells)
        if rng.chance(1, 2):
            g.rm(x)
        else:
            g.new(x)
        g.tops()
        if rng.chance(1, 5):
            g.upd()
    g.lines += ["topi", "tope"]
    return g.lines


def gen_split(rng):
    """the split protocol around a centre cell: arms are created (createCell: the centre's counter moves at once and the
    centre migrates between the queues when it crosses the interior limit), then either added or given back with
    remove + destroyCell WITHOUT add (the counter and the queue must move back); update / updateAll / tops inside the
    window; refused calls (new, rm, clear, create, rmtop*) inside the window; the same coordinate created again after it
    was given back; arms removed again so that the limit is crossed in both directions by both protocols."""
    dim = rng.choice([1, 2, 2, 3, 3, 4])
    limit = rng.range(1, 2 * dim)
    centre = [rng.range(-1, 1) for _ in range(dim)]
    bounds = None
    if rng.chance(1, 2):
        lo = [centre[i] - rng.choice([0, 1, 1, 2]) for i in range(dim)]
        up = [centre[i] + rng.choice([0, 1, 1, 2]) for i in range(dim)]
        bounds = (lo, up)
    g = Gen(rng, dim=dim, limit=limit, bounds=bounds)
    arms = nb_coords(centre)
    second = [y for a in arms for y in nb_coords(a) if y != tuple(centre)]
    if rng.chance(3, 4):
        g.new(centre)
    else:
        g.create(centre)
        g.addc()
    for rounds in range(rng.range(2, 4)):
        order = list(arms)
        rng.shuffle(order)
        for a in order:
            tries = rng.choice([1, 1, 1, 2, 3])
            for k in range(tries):
                g.create(a)
                for _ in range(rng.below(3)):
                    z = rng.below(8)
                    if z < 2:
                        g.upd()
                    elif z < 3:
                        g.updall(rng.below(3))
                    elif z < 6:
                        g.tops()
                    elif z < 7:
                        g.nb() if rng.chance(1, 2) else g.has()
                    else:
                        rng.choice([g.new, g.rm, g.clear, g.create])()
                        if rng.chance(1, 3):
                            g.lines.append(rng.choice(["rmtopi", "rmtope"]))
                if k + 1 < tries or rng.chance(1, 3):
                    g.abandon()
                else:
                    g.addc()
                if rng.chance(1, 3):
                    g.tops()
            if rng.chance(1, 6):
                g.new(rng.choice(second))
        rng.shuffle(order)
        for a in order[: rng.range(1, len(order))]:
            g.rm(a)
            if rng.chance(1, 3):
                g.tops()
        if rng.chance(1, 4):
            g.rm(centre)
            g.create(centre)
            g.tops()
            if rng.chance(1, 2):
                g.abandon()
                g.new(centre)
            else:
                g.addc()
    g.lines += ["topi", "tope"]
    if rng.chance(1, 5):
        g.create(rng.choice(arms))      # the script ends inside the window
    return g.lines


def gen_bulk_rekey(rng):
    """9..40 cells that all sit in ONE queue (all border: limit 2*dim+1 without bounds; all interior: limit 1 and
    every cell on a degenerate bound), the data of many/all cells rewritten WITHOUT per-cell update (random new
    priorities, reversals, many ties), then `updall`, then a drain: cells removed one at a time (the reported
    top, or a random cell), both tops checked after every removal.  With the event `none` the functor reads the
    caller-written data directly, so the queues are out of order on entry to updateAll()."""
    dim = rng.choice([2, 2, 3, 4])
    interior = rng.chance(1, 2)
    free = dim - 1 if interior else dim
    R = 1
    while (2 * R + 1) ** free < 120:      # room for 40 distinct cells, densely enough packed to have neighbours
        R += 1
    if interior:
        # dimension 0 is degenerate (low = up = 0) and every cell has coord[0] = 0: count >= 1 = limit
        lo = [0] + [-R] * (dim - 1)
        up = [0] + [R] * (dim - 1)
        g = Gen(rng, dim=dim, limit=1, bounds=(lo, up), ev=rng.choice(["none", "none", "none", "lo"]))
    else:
        g = Gen(rng, dim=dim, limit=2 * dim + 1, bounds=None, ev=rng.choice(["none", "none", "none", "hi"]))
    top, rmtop = ("topi", "rmtopi") if interior else ("tope", "rmtope")
    other = "tope" if interior else "topi"
    for rounds in range(rng.range(1, 3)):
        n = rng.range(9, 40) if not rng.chance(1, 4) else rng.range(9, 16)
        cells = set()
        while len(cells) < n:
            x = [0 if (interior and i == 0) else rng.range(-R, R) for i in range(dim)]
            cells.add(tuple(x))
        cells = list(cells)
        style = rng.below(4)
        vals = {}
        for k, x in enumerate(cells):
            vals[x] = (k * 37 % 4096) if style == 0 else rng.below(4096)
            g.new(x, vals[x])
        for rekeys in range(rng.range(1, 2)):
            if len(cells) < 2:
                break
            # new priorities: reversal / fresh random / few distinct values (ties) / random subset only
            sub = list(cells)
            if style == 3:
                rng.shuffle(sub)
                sub = sub[: rng.range(len(sub) // 2, len(sub))]
            parts = []
            for x in sub:
                if style == 0:
                    v = 4095 - vals[x]
                elif style == 2:
                    v = rng.below(4) * 16 + rng.below(3)
                else:
                    v = rng.below(4096)
                vals[x] = v
                parts.append("%s %d" % (g.cs(x), v))
            g.lines.append("updall %d %s" % (len(sub), " ".join(parts)))
            g.lines += [top, other]
            # drain, fully or partly
            left = list(cells)
            stop = 0 if rekeys else (0 if rng.chance(2, 3) else rng.range(0, len(left) // 2))
            mode = rng.below(3)        # 0 best-first, 1 random order, 2 mixed
            while len(left) > stop:
                if mode == 0 or (mode == 2 and rng.chance(1, 2)):
                    g.lines.append(rmtop)
                    left.pop()         # which cell went is unknown to the generator: a later `rm` of it answers `absent`
                else:
                    x = left.pop(rng.below(len(left)))
                    g.lines.append("rm " + g.cs(x))
                    g.lines.append(top)
            cells = left
            style = rng.below(4) if style != 0 else 1
        g.lines.append("clear")
        g.present = []
    g.lines += ["topi", "tope"]
    return g.lines


def gen_exhaustive_batches(length, cfgs, per_batch=40):
    """every op sequence of the given length over a small alphabet, batched (`clear` between sequences)."""
    for hdr, coords in cfgs:
        alpha = []
        for i, x in enumerate(coords):
            xs = " ".join(map(str, x))
            alpha += ["new %s %d" % (xs, (7 * i + 3) % 5 * 16 + i), "rm " + xs]
        alpha += ["upd %s 0" % " ".join(map(str, coords[0])), "topi", "tope",
                  "updall 1 %s 90" % " ".join(map(str, coords[-1]))]
        batch = [hdr]
        n = 0
        if hdr.endswith(" #split"):
            hdr = hdr[:-len(" #split")]
            xs = [" ".join(map(str, x)) for x in coords]
            alpha = ["new %s 35" % xs[0], "rm " + xs[0], "create %s 52" % xs[0], "create %s 19" % xs[1], "new %s 7" % xs[1],
                     "rm " + xs[1], "addc", "abandon", "upd %s 0" % xs[0], "topi"]
        batch = [hdr]
        for seq in itertools.product(alpha, repeat=length):
            batch += list(seq) + ["abandon", "topi", "tope", "clear"]
            n += 1
            if n % per_batch == 0:
                yield batch, per_batch
                batch = [hdr]
        if len(batch) > 1:
            yield batch, n % per_batch


# ---------------------------------------------------------------------------------- spec oracle
def parse_dump(s, dim):
    """-> dict(cells={id:(coord,nbrs,border,data,[nb ids])}, I=[ids], E=[ids], ci, ce, sizes=[..], comps=[[ids]..])"""
    sec = s.split(" | ")
    if len(sec) != 4 or not sec[3].startswith("P="):
        raise ValueError("dump has %d sections" % len(sec))
    pend = None
    if sec[3] != "P=-":
        pi, pxs, pnb, pb, pd = sec[3][2:].split(":")
        if pi == "?":
            raise ValueError("unknown pending cell pointer")
        pend = (int(pi), tuple(map(int, pxs.split(","))), int(pnb), pb == "1", int(pd))
    t = sec[0].split()
    n = int(t[0][2:])
    cells = {}
    order = []
    for tok in t[1:]:
        i, xs, nb, b, d, ns = tok.split(":")
        if i == "?" or "?" in ns:
            raise ValueError("unknown cell pointer in the table")
        cells[int(i)] = (tuple(map(int, xs.split(","))), int(nb), b == "1", int(d), [] if ns == "-" else list(map(int, ns.split(","))))
        order.append(int(i))
    if len(order) != n or len(cells) != n:
        raise ValueError("size() = %d but %d distinct cells listed" % (n, len(cells)))
    kv = dict(p.split("=", 1) for p in sec[1].split())
    ids = lambda v: [] if v == "-" else [int(z) if z != "?" else -1 for z in v.split(",")]
    kc = dict(p.split("=", 1) for p in sec[2].split())
    comps = [] if kc["comps"] == "-" else [list(map(int, c.split(","))) for c in kc["comps"].split(";")]
    return {"n": n, "cells": cells, "I": ids(kv["I"]), "E": ids(kv["E"]), "ci": int(kv["ci"]), "ce": int(kv["ce"]),
            "sizes": ids(kc["sizes"]), "comps": comps, "pending": pend}


def well_formed(t, dim):
    """arity/type check of a protocol line (mirrors the two parsers): None if ill-formed."""
    isint = lambda s: re.fullmatch(r"[+-]?\d+", s) is not None
    op = t[0]
    if op in ("new", "upd", "create"):
        return len(t) == dim + 2 and all(isint(z) for z in t[1:])
    if op in ("rm", "has", "nb"):
        return len(t) == dim + 1 and all(isint(z) for z in t[1:])
    if op == "updall":
        if len(t) < 2 or not t[1].isdigit():
            return False
        return len(t) == 2 + int(t[1]) * (dim + 1) and all(isint(z) for z in t[2:])
    if op in ("topi", "tope", "rmtopi", "rmtope", "clear", "addc", "abandon"):
        return len(t) == 1
    return False


class Spec:
    """the abstract grid: coordinate -> [id, last data written by the user]."""

    def __init__(self, hdr):
        self.h = hdr
        self.cells = {}
        self.next = 0
        self.evf = ev_of(hdr.ev)
        self.pending = None      # (coord, id, data written) of the created-but-not-added cell

    def count(self, x):
        """what the counter of a cell at x must show: present cells one step away + boundary dimensions + the
        created-but-not-yet-added cell if it is one step away (createCell has already counted it)."""
        n = sum(1 for y in nb_coords(x) if y in self.cells) + self.h.boundary_dims(x)
        if self.pending is not None and self.pending[0] in nb_coords(x):
            n += 1
        return n

    def nbids(self, x):
        return sorted(self.cells[y][0] for y in nb_coords(x) if y in self.cells)

    def partition(self):
        parent = {x: x for x in self.cells}

        def find(a):
            while parent[a] != a:
                parent[a] = parent[parent[a]]
                a = parent[a]
            return a
        for x in self.cells:
            for y in nb_coords(x):
                if y in self.cells:
                    parent[find(x)] = find(y)
        cl = {}
        for x in self.cells:
            cl.setdefault(find(x), []).append(self.cells[x][0])
        out = [sorted(v) for v in cl.values()]
        out.sort(key=lambda c: (-len(c), c))
        return out


def oracle(script, out, stats=None):
    """the property, evaluated on the implementation's output lines only.  -> None | (step, what)"""
    hdr = Header(script[0])
    dim = hdr.dim
    ltE, ltI = lt_of(hdr.cmpe), lt_of(hdr.cmpi)
    sp = Spec(hdr)
    prev_border = {}
    for i, line in enumerate(script[1:]):
        if i >= len(out):
            return (i, "implementation stopped at `%s` (crash or sanitizer report)" % line)
        o = out[i]
        t = line.split()
        wf = well_formed(t, dim)
        if not wf:
            if o != "bad-op":
                return (i, "ill-formed line answered %r" % o)
            continue
        if o == "bad-op":
            return (i, "bad-op on a well-formed line")
        res, _, dump = o.partition(" | ")
        op = t[0]
        exp = None
        x = tuple(map(int, t[1:1 + dim])) if op in ("new", "rm", "upd", "has", "nb", "create") else None
        nbh_want = None
        if sp.pending is not None and op in ("new", "rm", "rmtopi", "rmtope", "clear", "create"):
            exp = "busy"        # inside the create..add window
        elif op == "create":
            if x in sp.cells:
                exp = "present"
            else:
                nbh_want = sorted(sp.cells[y][0] for y in nb_coords(x) if y in sp.cells)
                sp.pending = (x, sp.next, int(t[-1]))
                sp.next += 1
                if stats is not None:
                    stats["split:create-next-to-%d-cells" % min(len(nbh_want), 3)] = \
                        stats.get("split:create-next-to-%d-cells" % min(len(nbh_want), 3), 0) + 1
        elif op == "addc":
            if sp.pending is None:
                exp = "nopending"
            else:
                sp.cells[sp.pending[0]] = [sp.pending[1], sp.pending[2]]
                sp.pending = None
                exp = "ok"
        elif op == "abandon":
            if sp.pending is None:
                exp = "nopending"
            else:
                sp.pending = None
                exp = "false"    # GridB::remove: the cell is not in the grid
                if stats is not None:
                    stats["split:abandoned"] = stats.get("split:abandoned", 0) + 1
        elif op == "new":
            if x in sp.cells:
                exp = "present"
            else:
                sp.cells[x] = [sp.next, int(t[-1])]
                exp = "c=%d" % sp.next
                sp.next += 1
        elif op == "rm":
            if x in sp.cells:
                del sp.cells[x]
                exp = "true"
            else:
                exp = "absent"
        elif op == "upd":
            if x in sp.cells:
                sp.cells[x][1] = int(t[-1])
                exp = "ok"
            else:
                exp = "absent"
        elif op == "updall":
            v = list(map(int, t[2:]))
            for k in range(int(t[1])):
                y = tuple(v[k * (dim + 1): k * (dim + 1) + dim])
                if y in sp.cells:
                    sp.cells[y][1] = v[k * (dim + 1) + dim]
            exp = "ok"
        elif op == "has":
            exp = "1 c=%d" % sp.cells[x][0] if x in sp.cells else "0"
        elif op in ("rmtopi", "rmtope"):
            # judged on the abstract state *before* the removal: the removed cell must be a best cell of its class
            cls = {}
            for y, (cid, written) in sp.cells.items():
                cnt = sp.count(y)
                cls[cid] = (y, cnt < hdr.limit, sp.evf(written, cnt))
            inter = [c for c, v in cls.items() if not v[1]]
            bord = [c for c, v in cls.items() if v[1]]
            first, second = (inter, bord) if op == "rmtopi" else (bord, inter)
            lt1, lt2 = (ltI, ltE) if op == "rmtopi" else (ltE, ltI)
            if not cls:
                exp = "none"
            else:
                pool, lt = (first, lt1) if first else (second, lt2)
                if stats is not None:
                    stats["drain-steps"] = stats.get("drain-steps", 0) + 1
                    stats["max-class-size"] = max(stats.get("max-class-size", 0), len(pool))
                m = re.fullmatch(r"c=(\d+)", res)
                if not m or int(m.group(1)) not in pool:
                    return (i, "%s removed %s, not a cell of the %s queue %s" % (op, res, "own" if first else "other", sorted(pool)))
                rid = int(m.group(1))
                for cid in pool:
                    if lt(cls[cid][2], cls[rid][2]):
                        return (i, "%s took cell %d (data %d) as the top although cell %d (data %d) is better"
                                % (op, rid, cls[rid][2], cid, cls[cid][2]))
                del sp.cells[cls[rid][0]]
        elif op == "clear":
            sp.cells = {}
            exp = "ok"
        try:
            D = parse_dump(dump, dim)
        except Exception as e:   # noqa
            return (i, "unreadable state dump: %s" % e)
        if exp is not None and res != exp:
            return (i, "`%s` answered %r, the set of present cells says %r" % (op, res, exp))
        if nbh_want is not None:
            m = re.fullmatch(r"c=(\d+) nbh=(\S+)", res)
            if not m or int(m.group(1)) != sp.pending[1]:
                return (i, "`create` answered %r, expected cell id %d" % (res, sp.pending[1]))
            got_nbh = [] if m.group(2) == "-" else m.group(2).split(",")
            if "?" in got_nbh or sorted(map(int, got_nbh)) != nbh_want:
                return (i, "createCell(%s, &nbh) handed back the neighbours %s, the present cells one step away are %s"
                        % (x, m.group(2), nbh_want))
        # ---- the created-but-not-added cell: absent from the table and from both queues, its own count and flag
        P = D["pending"]
        if (P is None) != (sp.pending is None):
            return (i, "pending cell %s, the history says %s" % (P, sp.pending))
        if P is not None:
            px, pid_, pwritten = sp.pending
            own = sum(1 for y in nb_coords(px) if y in sp.cells) + hdr.boundary_dims(px)
            if P[0] != pid_ or P[1] != px:
                return (i, "pending cell is %d at %s, the history says %d at %s" % (P[0], P[1], pid_, px))
            if P[2] != own:
                return (i, "pending cell %d at %s: neighbors counter %d, definition gives %d (%d present neighbours + %d boundary dimensions)"
                        % (pid_, px, P[2], own, own - hdr.boundary_dims(px), hdr.boundary_dims(px)))
            if P[3] != (own < hdr.limit):
                return (i, "pending cell %d: border=%s with count %d and interior limit %d" % (pid_, P[3], own, hdr.limit))
            if P[4] != pwritten:
                return (i, "pending cell %d: data %d, the user wrote %d (no update event before add)" % (pid_, P[4], pwritten))
            if pid_ in D["I"] or pid_ in D["E"] or pid_ in D["cells"]:
                return (i, "the created-but-not-added cell %d is already in the table or a queue" % pid_)
            if stats is not None:
                stats["split:dumps-inside-the-window"] = stats.get("split:dumps-inside-the-window", 0) + 1
        # ---- cells: lookups find exactly the cells present
        want = {v[0]: x for x, v in sp.cells.items()}
        got = {cid: c[0] for cid, c in D["cells"].items()}
        if want != got:
            return (i, "cell table %s differs from the present cells %s" % (sorted(got.items()), sorted(want.items())))
        byid = D["cells"]
        data = {}
        for y, (cid, written) in sp.cells.items():
            coord, nbrs, border, d, ns = byid[cid]
            cnt = sp.count(y)
            if sorted(ns) != sp.nbids(y) or len(set(ns)) != len(ns):
                return (i, "neighbors(cell %d) = %s, the present cells one step away are %s" % (cid, ns, sp.nbids(y)))
            for m in ns:
                if cid not in byid[m][4]:
                    return (i, "neighbour relation not symmetric: %d lists %d but not conversely" % (cid, m))
            if nbrs != cnt:
                padj = 1 if (sp.pending is not None and sp.pending[0] in nb_coords(y)) else 0
                return (i, "cell %d at %s: neighbors counter %d, definition gives %d (%d present neighbours + %d boundary dimensions%s)"
                        % (cid, y, nbrs, cnt, cnt - hdr.boundary_dims(y) - padj, hdr.boundary_dims(y),
                           " + 1 created-not-yet-added cell" if padj else ""))
            if border != (cnt < hdr.limit):
                return (i, "cell %d: border=%s with count %d and interior limit %d" % (cid, border, cnt, hdr.limit))
            if d != sp.evf(written, cnt):
                return (i, "cell %d: data %d, expected %d (update event on data written %d with count %d)"
                        % (cid, d, sp.evf(written, cnt), written, cnt))
            data[cid] = d
            if stats is not None and cid in prev_border and prev_border[cid] != border:
                stats["flip:to-border" if border else "flip:to-interior"] += 1
                if op in ("create", "abandon"):
                    k = "split:queue-migration-by-%s(%s)" % (op, "to-border" if border else "to-interior")
                    stats[k] = stats.get(k, 0) + 1
        prev_border = {cid: c[2] for cid, c in byid.items()}
        # ---- the two queues
        I, E = D["I"], D["E"]
        if len(set(I)) != len(I) or len(set(E)) != len(E) or set(I) & set(E):
            return (i, "a cell sits in a queue twice or in both queues: I=%s E=%s" % (I, E))
        if set(I) | set(E) != set(byid):
            return (i, "queues hold %s, present cells are %s" % (sorted(set(I) | set(E)), sorted(byid)))
        for cid in E:
            if not byid[cid][2]:
                return (i, "interior cell %d sits in the external queue" % cid)
        for cid in I:
            if byid[cid][2]:
                return (i, "border cell %d sits in the internal queue" % cid)
        if D["ci"] != len(I) or D["ce"] != len(E) or D["ci"] + D["ce"] != D["n"]:
            return (i, "countInternal=%d countExternal=%d size=%d" % (D["ci"], D["ce"], D["n"]))
        for name, arr, lt in (("internal", I, ltI), ("external", E, ltE)):
            if arr:
                for cid in arr:
                    if lt(data[cid], data[arr[0]]):
                        return (i, "%s queue: cell %d (data %d) is at the top although cell %d (data %d) is better"
                                % (name, arr[0], data[arr[0]], cid, data[cid]))
        if op in ("topi", "tope"):
            first, second = (I, E) if op == "topi" else (E, I)
            lt1, lt2 = (ltI, ltE) if op == "topi" else (ltE, ltI)
            if stats is not None and not first and second:
                stats["top-of-empty-side(F3 shape)"] += 1
            if not first and not second:
                if res != "none":
                    return (i, "%s on an empty grid answered %s" % (op, res))
            else:
                pool, lt = (first, lt1) if first else (second, lt2)
                if not res.isdigit() or int(res) not in pool:
                    return (i, "%s answered %s, not a cell of the %s queue %s" % (op, res, "own" if first else "other", pool))
                for cid in pool:
                    if lt(data[cid], data[int(res)]):
                        return (i, "%s answered cell %s (data %d) although cell %d (data %d) is better"
                                % (op, res, data[int(res)], cid, data[cid]))
        if op == "nb":
            r = res.split()
            ids = list(map(int, r[1:])) if all(z.isdigit() for z in r) else None
            wantn = sorted(sp.cells[y][0] for y in nb_coords(x) if y in sp.cells)
            if ids is None or int(r[0]) != len(ids) or sorted(ids) != wantn:
                return (i, "neighbors(%s) answered %r, the present cells one step away are %s" % (x, res, wantn))
        # ---- components
        part = sp.partition()
        if D["comps"] != part:
            return (i, "components %s, the neighbour relation partitions the cells into %s" % (D["comps"], part))
        if D["sizes"] != [len(c) for c in part]:
            return (i, "component sizes reported in order %s, expected non-increasing %s" % (D["sizes"], [len(c) for c in part]))
    return None


# ================================================================================== engine 2: Discretization
DISC_DRIVER = "drv_discretization"
EPS = 2.220446049250313e-16


class MT19937:
    """std::mt19937 seeded by seed(value) -- an independent re-implementation for the oracle (the model side uses
    the Lean RNG model of C20)."""

    def __init__(self, seed):
        mt = [0] * 624
        mt[0] = seed & 0xFFFFFFFF
        for i in range(1, 624):
            mt[i] = (1812433253 * (mt[i - 1] ^ (mt[i - 1] >> 30)) + i) & 0xFFFFFFFF
        self.mt, self.i = mt, 624

    def next(self):
        mt = self.mt
        if self.i >= 624:
            for k in range(624):
                y = (mt[k] & 0x80000000) | (mt[(k + 1) % 624] & 0x7FFFFFFF)
                mt[k] = mt[(k + 397) % 624] ^ (y >> 1) ^ (0x9908B0DF if y & 1 else 0)
            self.i = 0
        y = mt[self.i]
        self.i += 1
        y ^= y >> 11
        y ^= (y << 7) & 0x9D2C5680
        y ^= (y << 15) & 0xEFC60000
        y ^= y >> 18
        return y & 0xFFFFFFFF


def uniform01_after_seed(seed):
    """rng_.setLocalSeed(seed); rng_.uniform01(): generate_canonical<double,53> over a 32-bit engine."""
    g = MT19937(seed)
    a = g.next()
    b = g.next()
    r = (float(a) + float(b) * 4294967296.0) / 18446744073709551616.0
    return r if r < 1.0 else 1.0 - 2.0 ** -53


class DGen:
    def __init__(self, rng, dim=None):
        self.rng = rng
        self.dim = rng.choice([0, 1, 1, 2, 2, 2, 3]) if dim is None else dim
        self.lines = ["disc dim=%d" % self.dim]
        self.span = rng.choice([1, 1, 2, 3])
        self.coord_of = {}     # motion -> coordinate (all motions ever created)
        self.live = []         # hint
        self.next = 0

    def cs(self, x):
        return " ".join(map(str, x))

    def coord(self):
        r = self.rng
        if self.live and r.chance(1, 4):
            x = list(self.coord_of[r.choice(self.live)])
            if self.dim and r.chance(1, 2):
                x[r.below(self.dim)] += r.choice([-1, 1])
            return tuple(x)
        return tuple(r.range(-self.span, self.span) for _ in range(self.dim))

    def add(self, x=None):
        r = self.rng
        x = self.coord() if x is None else tuple(x)
        par = -1 if (self.next == 0 or r.chance(1, 4)) else r.below(self.next)
        dist = r.choice([0.0, 1.0, r.unit() * 10, r.unit() * 1e-3, 1e6 * r.unit()])
        self.lines.append(("add %d %s %s" % (par, self.cs(x), core.f2bits(dist))).replace("  ", " "))
        self.coord_of[self.next] = x
        self.live.append(self.next)
        self.next += 1

    def sel(self):
        self.lines.append("sel %d" % self.rng.below(1 << 31))

    def score(self):
        r = self.rng
        x = self.coord_of[r.choice(self.live)] if self.live and not r.chance(1, 10) else self.coord()
        s = r.choice([r.unit(), r.unit() * 5, 1e-300, 0.0, 1e-17, 3.0, r.unit() * 1e-12])
        self.lines.append(("score %s %s" % (self.cs(x), core.f2bits(s))).replace("  ", " "))

    def rm(self):
        r = self.rng
        if self.live and not r.chance(1, 10):
            m = r.choice(self.live)
        else:
            m = r.below(self.next + 2)
        x = self.coord_of.get(m, self.coord())
        if r.chance(1, 8):
            x = self.coord()
        self.lines.append(("rm %d %s" % (m, self.cs(x))).rstrip())
        if m in self.live and x == self.coord_of.get(m):
            self.live.remove(m)

    def other(self):
        r = self.rng
        k = r.below(10)
        if k < 4:
            self.lines.append("iter")
        elif k < 6:
            self.lines.append("bf " + core.f2bits(r.choice([0.5, 0.9, 1.0, 0.05, r.unit(), 1.5, 0.0, 1e-17])))
        elif k < 8:
            self.lines.append("pd")
        elif k < 9:
            self.lines.append("clear")
            self.live = []
        else:
            self.lines.append(r.choice(["add 0", "sel", "rm 0", "score 1", "bf x", "sel -3"]))


def gen_disc(rng, nops):
    g = DGen(rng)
    for _ in range(nops):
        r = rng.below(100)
        if r < 42 or not g.live:
            g.add()
        elif r < 64:
            g.sel()
        elif r < 72:
            g.score()
        elif r < 92:
            g.rm()
        else:
            g.other()
    g.lines += ["sel 1", "pd"]
    return g.lines


def gen_disc_churn(rng):
    """a KPIECE-like loop: count an iteration, select, add a motion near the selected cell's neighbourhood, re-score
    the cell (good/bad factor), occasionally remove motions until cells empty (BKPIECE-style) -- many border/interior
    migrations with importances that depend on the neighbour count."""
    g = DGen(rng, dim=rng.choice([1, 2, 2, 3]))
    g.span = 1 if g.dim > 1 else 3
    for _ in range(rng.range(3, 8)):
        g.add()
    for _ in range(rng.range(20, 70)):
        g.lines.append("iter")
        g.sel()
        g.add()
        if rng.chance(2, 3):
            g.score()
        if rng.chance(1, 3):
            for _ in range(rng.range(1, 4)):
                g.rm()
        if not g.live:
            g.add()
    g.lines += ["pd", "sel 11"]
    return g.lines


def math_copysign_inf(x):
    return float("inf") if x > 0 else float("-inf")


def gen_cdisc(rng, nops):
    """the Discretization copy inside control::KPIECE1: addMotion with motion->steps as coverage weight (0 for start
    motions), selectMotion, score + grid.update, iteration counter, unchecked border fraction, clear."""
    g = DGen(rng, dim=rng.choice([1, 2, 2, 3, 4]))
    g.lines = ["disc dim=%d variant=control" % g.dim]
    for _ in range(nops):
        r = rng.below(100)
        if r < 50 or not g.live:
            x = g.coord()
            par = -1 if (g.next == 0 or rng.chance(1, 4)) else rng.below(g.next)
            steps = 0 if par < 0 and rng.chance(2, 3) else rng.choice([1, 1, 2, 5, 10, 0])
            dist = rng.choice([0.0, 1.0, rng.unit() * 10, rng.unit() * 1e-3])
            g.lines.append(("addw %d %d %s %s" % (par, steps, g.cs(x), core.f2bits(dist))).replace("  ", " "))
            g.coord_of[g.next] = x
            g.live.append(g.next)
            g.next += 1
        elif r < 75:
            g.sel()
        elif r < 85:
            g.score()
        elif r < 92:
            g.lines.append("iter")
        elif r < 97:
            g.lines.append("bf " + core.f2bits(rng.choice([0.5, 0.8, 1.0, 0.0, rng.unit(), 1.5])))
        elif r < 99:
            g.lines.append("clear")
            g.live = []
        else:
            g.lines.append(rng.choice(["addw 0", "sel", "score 1", "add -1 0 0"]))
    g.lines += ["sel 1"]
    return g.lines


def parse_ddump(s):
    sec = s.split(" | ")
    if len(sec) != 3:
        raise ValueError("dump has %d sections" % len(sec))
    kv = dict(p.split("=", 1) for p in sec[0].split())
    t = sec[1].split()
    n = int(t[0][2:])
    cells = {}
    for tok in t[1:]:
        f = tok.split(":")
        if len(f) != 10 or f[0] == "?":
            raise ValueError("bad cell row %r" % tok)
        cid, xs, nb, b, ms, cov, sel, sc, it, imp = f
        cells[int(cid)] = {"x": tuple(map(int, xs.split(","))) if xs != "-" else (), "nbrs": int(nb), "border": b == "1",
                           "motions": [] if ms == "-" else list(map(int, ms.split(","))), "cov": core.bits2f(cov),
                           "sel": int(sel), "score": core.bits2f(sc), "iter": int(it), "imp": core.bits2f(imp)}
    if len(cells) != n:
        raise ValueError("size() = %d but %d cells listed" % (n, len(cells)))
    kq = dict(p.split("=", 1) for p in sec[2].split())
    ids = lambda v: [] if v == "-" else [int(z) if z != "?" else -1 for z in v.split(",")]
    return {"size": int(kv["size"]), "iter": int(kv["iter"]), "bf": core.bits2f(kv["bf"]), "tbl": int(kv["tbl"]),
            "cells": cells, "I": ids(kq["I"]), "E": ids(kq["E"])}


def disc_well_formed(t, dim):
    isint = lambda z: re.fullmatch(r"[+-]?\d+", z) is not None
    isnat = lambda z: z.isdigit()
    op = t[0]
    if op == "add":
        return len(t) == dim + 3 and isint(t[1]) and all(isint(z) for z in t[2:2 + dim]) and isnat(t[-1])
    if op == "addw":
        return len(t) == dim + 4 and isint(t[1]) and isnat(t[2]) and all(isint(z) for z in t[3:3 + dim]) and isnat(t[-1])
    if op == "sel":
        return len(t) == 2 and isnat(t[1])
    if op == "score":
        return len(t) == dim + 2 and all(isint(z) for z in t[1:1 + dim]) and isnat(t[-1])
    if op == "rm":
        return len(t) == dim + 2 and isnat(t[1]) and all(isint(z) for z in t[2:])
    if op == "bf":
        return len(t) == 2 and isnat(t[1])
    if op in ("iter", "clear", "pd"):
        return len(t) == 1
    return False


def disc_oracle(script, out, stats=None):
    """motion/cell bookkeeping of the property, evaluated on the implementation's output only."""
    dim = int(script[0].split()[1].split("=")[1])
    control = script[0].endswith("variant=control")
    limit = 2 * dim
    live = {}          # motion -> coordinate, in insertion order (dicts keep it)
    parent = {}
    nxt = 0
    iteration = 1
    bf = 0.8 if control else 0.9
    nan_seen = False
    meta = {}          # coordinate -> dict(cov, sel, iter) expected for the cell currently at that coordinate
    prev = None
    for i, line in enumerate(script[1:]):
        if i >= len(out):
            return (i, "implementation stopped at `%s` (crash or sanitizer report)" % line)
        o = out[i]
        t = line.split()
        if not disc_well_formed(t, dim) or (t[0] in ("add", "addw") and not (-1 <= int(t[1]) < nxt)) or \
                (t[0] == "addw") != (control and t[0] in ("add", "addw")) or (control and t[0] in ("rm", "pd")):
            if o != "bad-op":
                return (i, "ill-formed line answered %r" % o)
            continue
        if o == "bad-op":
            return (i, "bad-op on a well-formed line")
        res, _, dump = o.partition(" | ")
        try:
            D = parse_ddump(dump)
        except Exception as e:   # noqa
            return (i, "unreadable state dump: %s" % e)
        op = t[0]
        exp = None
        touched = None     # coordinate of the cell whose importance must be fresh after this op
        bumped = False
        selx = None
        if op in ("add", "addw"):
            off_ = 3 if op == "addw" else 2
            wgt = float(int(t[2])) if op == "addw" else 1.0       # control::KPIECE1: coverage counts motion->steps
            x = tuple(map(int, t[off_:off_ + dim]))
            created = 0 if x in live.values() else 1
            live[nxt] = x
            parent[nxt] = int(t[1])
            exp = "m=%d created=%d" % (nxt, created)
            if created:
                meta[x] = {"cov": wgt, "sel": 1, "iter": iteration}
                if control:   # the initial score, as coded: (1 + log(iteration)) / (DISTANCE_TO_GOAL_OFFSET + dist)
                    import math
                    meta[x]["score0"] = (1.0 + math.log(float(iteration))) / (1e-3 + core.bits2f(t[-1]))
            else:
                meta[x]["cov"] += wgt
            nxt += 1
            touched = x
        elif op == "rm":
            m = int(t[1])
            x = tuple(map(int, t[2:]))
            if m not in live:
                exp = "dead"
            elif live[m] == x:
                del live[m]
                exp = "1"
                if x not in live.values():
                    meta.pop(x, None)
            else:
                exp = "0"
        elif op == "score":
            x = tuple(map(int, t[1:1 + dim]))
            exp = "ok" if x in live.values() else "absent"
            if exp == "ok":
                touched = x
        elif op == "iter":
            iteration += 1
            exp = "ok"
        elif op == "bf" and control:
            bf = core.bits2f(t[1])      # control::KPIECE1::setBorderFraction has no range check
            exp = "ok"
        elif op == "bf":
            b = core.bits2f(t[1])
            if b < EPS or b > 1.0 or b != b:
                exp = "err" if b == b else None
            else:
                exp = "ok"
                bf = b
        elif op == "clear":
            live, meta, iteration = {}, {}, 1
            exp = "ok"
        elif op == "pd":
            ms = list(live)
            verts = set(ms) | {parent[m] for m in ms if parent[m] >= 0}
            exp = "v=%d e=%d r=%d" % (len(verts), sum(1 for m in ms if parent[m] >= 0), sum(1 for m in ms if parent[m] < 0))
        elif op == "sel":
            if not live:
                exp = "none"
            else:
                mo = re.fullmatch(r"m=(\d+) x=(\S+)", res)
                if not mo:
                    return (i, "selectMotion answered %r although %d motions are stored" % (res, len(live)))
                m = int(mo.group(1))
                x = tuple(map(int, mo.group(2).split(","))) if mo.group(2) != "-" else ()
                if m not in live:
                    return (i, "selectMotion returned motion %d, which was %s" % (m, "removed" if m < nxt else "never added"))
                if live[m] != x:
                    return (i, "selectMotion returned motion %d with cell %s, its coordinate is %s" % (m, x, live[m]))
                meta[x]["sel"] += 1
                selx = x
                # which queue was asked, and was the answer a best cell of it?  (state before the call = prev)
                if prev is not None:
                    pc = prev["cells"]
                    ce, ci = len(prev["E"]), len(prev["I"])
                    frac = 0.0 if ce == 0 else float(ce) / float(ce + ci)
                    u = uniform01_after_seed(int(t[1]))
                    want_ext = u < max(bf, frac)
                    first, second = (prev["E"], prev["I"]) if want_ext else (prev["I"], prev["E"])
                    pool = first if first else second
                    if stats is not None:
                        stats["sel:external" if want_ext else "sel:internal"] += 1
                        if not first:
                            stats["sel:top-of-empty-side(F3 shape)"] += 1
                    sid = [c for c, v in pc.items() if v["x"] == x]
                    if not sid or sid[0] not in pool:
                        return (i, "selectMotion (uniform01=%.6f, borderFraction=%g, fracExternal=%g) must take the top of the %s "
                                   "queue %s, it returned a motion of cell %s" % (u, bf, frac, "external" if (pool is prev["E"]) else "internal",
                                                                                   pool, sid))
                    for c in pool:
                        if not nan_seen and pc[c]["imp"] > pc[sid[0]]["imp"]:    # (see `nan_seen` below: heaps after a NaN key)
                            return (i, "selectMotion took cell %d (importance %g) although cell %d of the same queue has importance %g"
                                    % (sid[0], pc[sid[0]]["imp"], c, pc[c]["imp"]))
                    bumped = pc[sid[0]]["score"] < EPS
                    if bumped and stats is not None:
                        stats["sel:score-repair(updateAll)"] += 1
        if exp is not None and res != exp:
            return (i, "`%s` answered %r, the motion bookkeeping says %r" % (line, res, exp))
        # ---- every motion added and not removed sits in exactly one cell, the cell of its coordinate; no empty cell
        want = {}
        for m, x in live.items():
            want.setdefault(x, []).append(m)
        got = {}
        for cid, c in D["cells"].items():
            if c["x"] in got:
                return (i, "two cells at coordinate %s" % (c["x"],))
            got[c["x"]] = c["motions"]
        if got != want:
            empt = [x for x, ms in got.items() if not ms]
            if empt:
                return (i, "an empty cell stays in the grid at %s" % (empt[0],))
            return (i, "cells hold %s, the motions added and not removed are %s" % (sorted(got.items()), sorted(want.items())))
        if D["size"] != len(live) or D["iter"] != iteration or D["bf"] != bf or D["tbl"] != len(got):
            return (i, "size_=%d iteration_=%d borderFraction=%g, expected %d %d %g" % (D["size"], D["iter"], D["bf"], len(live), iteration, bf))
        # ---- grid invariants of C13 and the CellData counters
        for cid, c in D["cells"].items():
            x = c["x"]
            cnt = sum(1 for y in nb_coords(x) if y in got)
            if c["nbrs"] != cnt or c["border"] != (cnt < limit):
                return (i, "cell %d at %s: neighbors=%d border=%s, definition gives %d and %s" % (cid, x, c["nbrs"], c["border"], cnt, cnt < limit))
            mt = meta[x]
            if c["cov"] != mt["cov"] or c["sel"] != mt["sel"] or c["iter"] != mt["iter"]:
                return (i, "cell %d at %s: coverage=%g selections=%d iteration=%d, expected %g %d %d"
                        % (cid, x, c["cov"], c["sel"], c["iter"], mt["cov"], mt["sel"], mt["iter"]))
            if control and "score0" in mt and op == "addw" and x == touched and len(c["motions"]) == 1 and c["score"] != mt["score0"]:
                return (i, "cell %d: initial score %r, expected (1+log(iteration))/(1e-3+dist) = %r" % (cid, c["score"], mt["score0"]))
            # importance = computeImportance at the last event; only `selections` may have moved on since
            ok = False
            if x == touched:
                sels = [c["sel"]]
            elif bumped:       # updateAll() ran inside selectMotion, before `++selections` of the selected cell
                sels = [c["sel"] - 1] if x == selx else [c["sel"]]
            else:
                sels = range(c["sel"], 0, -1)
            for s_ in sels:
                den = (float(cnt + 1) * c["cov"]) * float(s_)
                if den != 0.0:
                    val = c["score"] / den
                else:      # coverage 0 (a start motion of control::KPIECE1 has steps 0): IEEE division by zero
                    val = float("nan") if (c["score"] == 0.0 or c["score"] != c["score"]) else math_copysign_inf(c["score"])
                if val == c["imp"] or (val != val and c["imp"] != c["imp"]):
                    ok = True
                    break
            if not ok:
                return (i, "cell %d at %s: importance %r is not score/((neighbors+1)*coverage*selections) = %r/((%d+1)*%g*s) for %s"
                        % (cid, x, c["imp"], c["score"], cnt, c["cov"],
                           "s = %d (the cell was just updated)" % c["sel"] if len(list(sels)) == 1 else "any s <= %d" % c["sel"]))
        I, E = D["I"], D["E"]
        if sorted(I + E) != sorted(D["cells"]) or len(set(I + E)) != len(I + E):
            return (i, "queues hold %s / %s, cells are %s" % (I, E, sorted(D["cells"])))
        for cid in E:
            if not D["cells"][cid]["border"]:
                return (i, "interior cell %d sits in the external queue" % cid)
        for cid in I:
            if D["cells"][cid]["border"]:
                return (i, "border cell %d sits in the internal queue" % cid)
        # a NaN importance (score 0 over coverage 0: only the control variant can have coverage 0, by a start motion with
        # steps = 0) makes OrderCellsByImportance no strict weak order: from the first dump that shows one until the next
        # `clear` the heaps may be out of order and "the top is the best" is not demanded (the lock-step still compares
        # every heap layout bit for bit).  Nothing else is switched off.
        if t[0] == "clear":
            nan_seen = False
        if any(c["imp"] != c["imp"] for c in D["cells"].values()):
            nan_seen = True
            if stats is not None:
                stats["disc:dumps-with-nan-importance"] += 1
        for name, arr in (("internal", I), ("external", E)):
            for cid in arr:
                if not nan_seen and D["cells"][cid]["imp"] > D["cells"][arr[0]]["imp"]:
                    return (i, "%s queue: cell %d (importance %g) is at the top although cell %d (importance %g) is better"
                            % (name, arr[0], D["cells"][arr[0]]["imp"], cid, D["cells"][cid]["imp"]))
        if dim >= 1 and D["cells"] and not E:
            return (i, "no border cell although the grid has no bounds (external queue empty)")
        prev = D
    return None


def build_disc(ck):
    return ck.build_harness("discretization", ["discretization.cpp"], link_ompl=True, extra=HARNESS_EXTRA)


def build_ckpiece(ck):
    return ck.build_harness("ckpiece", ["ckpiece.cpp"], link_ompl=True, extra=HARNESS_EXTRA)


def canon_nan(line):
    """Lean's Float.toBits canonicalises NaNs (0x7ff8000000000000); x86 produces the negative default NaN for 0.0/0.0.
    NaN payloads and signs are not compared: every NaN bit pattern is rewritten to the canonical one on both sides."""
    def f(m):
        v = int(m.group(0))
        if v < (1 << 64) and (v & 0x7FF0000000000000) == 0x7FF0000000000000 and (v & 0x000FFFFFFFFFFFFF):
            return "9221120237041090560"
        return m.group(0)
    return re.sub(r"\d{19,20}", f, line)


def run_disc(ck, hbin, script):
    impl, rc, err, model = ck.run_pair(hbin, DISC_DRIVER, script)
    return [canon_nan(l) for l in (impl or [])], rc, err or "", [canon_nan(l) for l in model]


def judge_disc(ck, hbin, script, tag, pre=None):
    impl, rc, err, model = pre if pre is not None else run_disc(ck, hbin, script)
    ck.traces_validated += 1
    stats = collections.Counter()
    fail = disc_oracle(script, impl, stats)
    nsel = sum(1 for l in script[1:] if l.startswith("sel "))
    nrm = sum(1 for l, o in zip(script[1:], impl) if l.startswith("rm ") and o.startswith("1 "))
    ck.case(("disc",) + tuple(script), nsel >= 3 and nrm >= 2)
    ck.count("disc:scripts:" + tag)
    ck.count("disc:ops", len(script) - 1)
    ck.count("disc:dim:%s" % script[0].split()[1].split("=")[1])
    for k, v in stats.items():
        ck.count("disc:" + k, v)
    for ln, o in zip(script[1:], impl):
        ck.count("disc:op:" + ln.split()[0])
        if o == "bad-op":
            ck.count("disc:adversarial:malformed-line")
    ck.sample({"generator": "disc:" + tag, "script": script[:8] + (["…(%d more lines)" % (len(script) - 8)] if len(script) > 8 else [])}, limit=9)
    if rc != 0 and fail is None:
        fail = (len(impl), "harness exited with code %s: %s" % (rc, crash_site(err)))
    d = ck.first_diff(impl, model)
    if fail is None and d is not None:
        # targeted search: continue from the disagreeing prefix with selections and removals of what was selected
        r = ck.rng.fork("dsearch%d" % ck.traces_validated)
        budget = ck.__dict__.setdefault("_c13_dsearch", [6 if ck.tier == "quick" else 30])
        if budget[0] > 0:
            budget[0] -= 1
            for attempt in range(24):
                g = DGen(r, dim=int(script[0].split()[1].split("=")[1]))
                cont = []
                for _ in range(r.range(5, 40)):
                    z = r.below(10)
                    cont.append("sel %d" % r.below(1 << 31) if z < 5 else ("iter" if z < 6 else "add -1 %s %s" % (g.cs(g.coord()), core.f2bits(r.unit()))))
                s2 = script[:d + 2] + [c.replace("  ", " ") for c in cont]
                impl2, rc2, err2, model2 = run_disc(ck, hbin, s2)
                ck.count("disc:search:continuations-tried")
                f2 = disc_oracle(s2, impl2)
                if f2 is not None or rc2 != 0:
                    script, impl, rc, err, model = s2, impl2, rc2, err2, model2
                    fail = f2 or (len(impl2), "harness exited with code %s: %s" % (rc2, crash_site(err2)))
                    break
    if fail is not None:
        sig = ("disc", re.sub(r"-?\d+(\.\d+)?(e-?\d+)?", "N", fail[1])[:60], crash_site(err) if rc != 0 else None)
        seen = ck.__dict__.setdefault("_c13_sigs", set())
        if sig in seen:
            ck.count("failing-scripts:same-kind-as-reported")
            return None
        seen.add(sig)

        def still(lines):
            s_ = [script[0]] + lines
            o, r_, e_, _m = run_disc(ck, hbin, s_)
            return disc_oracle(s_, o) is not None or r_ != 0
        small = [script[0]] + core.ddmin(script[1:], still)
        o, r_, e_, m = run_disc(ck, hbin, small)
        f = disc_oracle(small, o)
        what = f[1] if f else fail[1]
        ck.report({"engine": "discretization", "what": re.sub(r"\d+", "N", what)[:160], "crash": crash_site(e_) if r_ != 0 else None},
                  script=small, expected=m, observed=o + ([("stderr: " + crash_site(e_))] if r_ != 0 else []), engine="discretization")
        ck.log("property failure (Discretization): %s (script of %d ops after shrinking)" % (what, len(small) - 1))
        return False
    if d is not None:
        ck.disagreements += 1
        dop = "disc:" + (script[d + 1].split()[0] if d + 1 < len(script) else "?")
        seen = ck.__dict__.setdefault("_c13_dis", set())
        if dop in seen:
            ck.count("disagreeing-scripts:same-op-as-reported")
            return None
        seen.add(dop)

        def still(lines):
            s_ = [script[0]] + lines
            o, r_, e_, m = run_disc(ck, hbin, s_)
            return ck.first_diff(o, m) is not None
        small = [script[0]] + core.ddmin(script[1:], still)
        o, r_, e_, m = run_disc(ck, hbin, small)
        ck.report({"engine": "discretization", "what": "model/implementation disagreement"}, script=small, expected=m, observed=o,
                  found_input=False, engine="discretization",
                  obligation="correspondence discretization: Discretization.h vs OmplModel.Model.Discretization (first differing line %s)"
                             % ck.first_diff(o, m))
        ck.log("Discretization: correspondence disagreement at line %d; no property failure found by the continuation search" % d)
        return False
    return True


# ================================================================================== engine 3: KPIECE1
KP_DRIVER = "drv_kpiece"
STATUS_NAME = {"Exact solution": "EXACT_SOLUTION", "Approximate solution": "APPROXIMATE_SOLUTION", "Timeout": "TIMEOUT",
               "Invalid start": "INVALID_START"}


def gen_kpiece(rng):
    """one planning problem on an R^n box environment + planner parameters + the three seeds + an iteration budget."""
    n = rng.choice([2, 2, 3])
    lo = [rng.choice([0.0, -1.0, 0.0]) for _ in range(n)]
    hi = [lo[i] + rng.choice([1.0, 2.0, 1.0]) for i in range(n)]
    boxes = []
    for _ in range(rng.choice([0, 1, 2, 3, 4])):
        c = [rng.uniform(lo[i], hi[i]) for i in range(n)]
        h = [rng.uniform(0.05, 0.3) * (hi[i] - lo[i]) for i in range(n)]
        boxes.append([c[i] - h[i] for i in range(n)] + [c[i] + h[i] for i in range(n)])
    pt = lambda: [rng.uniform(lo[i], hi[i]) for i in range(n)]
    starts = [pt() for _ in range(rng.choice([1, 1, 2, 3, 4]))]
    if rng.chance(1, 6):
        starts[rng.below(len(starts))][0] = hi[0] + 0.5       # out of bounds
    if boxes and rng.chance(1, 4):
        b = rng.choice(boxes)
        starts.append([(b[i] + b[n + i]) / 2 for i in range(n)])   # inside an obstacle
    if rng.chance(1, 25):
        starts = [[hi[0] + 1.0] + [lo[i] for i in range(1, n)]]     # no valid start at all
    prob = {"n": n, "lo": lo, "hi": hi, "boxes": boxes, "starts": starts, "goal": pt(),
            "res": rng.choice([0.01, 0.02, 0.05, 0.1]), "thr": rng.choice([0.05, 0.1, 0.2, 0.02, 0.01, 0.005]),
            "range": rng.choice([0.0, 0.1, 0.3, 0.6, 2.0]), "goalbias": rng.choice([0.05, 0.2, 0.5, 0.0, 1.0]),
            "bf": rng.choice([0.9, 0.5, 1.0, 0.1]), "fsf": rng.choice([0.5, 1.0, 0.1, 0.9]),
            "mvf": rng.choice([0.2, 0.05, 0.5, 0.9, 1.0]), "seeds": [rng.below(1 << 30) + 1 for _ in range(3)],
            "iters": rng.choice([0, 3, 10, 25, 60, 120, 200])}
    return prob


def kpiece_script(p):
    b = core.f2bits
    n = p["n"]
    L = ["kpiece", "dim %d" % n, "bounds " + " ".join(map(b, p["lo"] + p["hi"])),
         ("boxes %d " % len(p["boxes"]) + " ".join(b(v) for bx in p["boxes"] for v in bx)).strip(), "res " + b(p["res"])]
    for s_ in p["starts"]:
        L.append("start " + " ".join(map(b, s_)))
    L += ["goal " + " ".join(map(b, p["goal"])), "thr " + b(p["thr"]), "range " + b(p["range"]), "goalbias " + b(p["goalbias"]),
          "bf " + b(p["bf"]), "fsf " + b(p["fsf"]), "mvf " + b(p["mvf"]), "seeds %d %d %d" % tuple(p["seeds"]),
          "iters %d" % p["iters"], "go"]
    return L


def kp_parse(out):
    """harness output -> dict(cfg, starts, sts, recs, final, pd)"""
    R = {"starts": [], "sts": [], "recs": [], "final": None, "cfg": None, "pd": None}
    for ln in out:
        if ln.startswith("cfg "):
            R["cfg"] = dict(t.split("=") for t in ln.split()[1:])
        elif ln.startswith("start "):
            R["starts"].append(dict(t.split("=") for t in ln.split()[1:]))
        elif ln.startswith("st "):
            R["sts"].append(ln)
        elif ln.startswith("rec "):
            R["recs"].append(dict(t.split("=") for t in ln.split()[1:]))
        elif ln.startswith("final "):
            m = re.fullmatch(r"final status=(.*?) nsol=(\d+) approx=(\d) dif=(\S+) broke=(\d) evals=(\d+) path=(\S+)", ln)
            if m:
                R["final"] = {"status": m.group(1), "nsol": int(m.group(2)), "approx": int(m.group(3)), "dif": m.group(4),
                              "broke": int(m.group(5)), "evals": int(m.group(6)), "path": m.group(7)}
        elif ln.startswith("pd "):
            R["pd"] = ln
    return R


def kp_model_script(p, R):
    b = core.f2bits
    L = ["kpiece pdim=%s bf=%s gb=%s fsf=%s mvf=%s thr=%s seedp=%d seedd=%d"
         % (R["cfg"]["pdim"], b(p["bf"]), b(p["goalbias"]), b(p["fsf"]), b(p["mvf"]), b(p["thr"]), p["seeds"][0], p["seeds"][1])]
    for st in R["starts"]:
        L.append("start %s %s %s" % (st["state"], st["ok"], st["coord"]))
    L.append("begin")
    for r in R["recs"]:
        L.append("it x=%s exs=%s cm=%s frac=%s xs=%s dist=%s coord=%s" % (r["x"], r["exs"], r["cm"], r["frac"], r["xs"], r["dist"], r["coord"]))
    L.append("fin")
    return L


def kp_lines(R):
    """the implementation's run in the shape of the model driver's output lines"""
    f = R["final"]
    sts = R["sts"]
    if f is None or not sts:
        return None
    final_dump = sts[-1]
    name = STATUS_NAME.get(f["status"], f["status"])
    fin = "final status=%s added=%d approx=%d dif=%s path=%s | %s" % (
        name, f["nsol"], f["approx"], (f["dif"] if f["approx"] else (core.f2bits(0.0) if f["nsol"] else "-")) if f["nsol"] else "-",
        f["path"], final_dump)
    if f["evals"] == 0:
        return ["invalid-start " + final_dump, fin]
    per = sts[:-1]            # one per ptc evaluation
    lines = [per[0]]
    for j, r in enumerate(R["recs"]):
        after = per[j + 1] if j + 1 < len(per) else final_dump
        lines.append("it sel=%s tag=%s keep=%s | %s" % (r["ex"], r["tag"], r["keep"], after))
    lines.append(fin)
    return lines


def kp_state(sbits):
    return [core.bits2f(z) for z in sbits.split(",")]


def kp_tree(st_line):
    sec = st_line[3:].split(" | ")
    t = sec[3].split()
    nodes = []
    for tok in t[2:]:
        par, sb = tok.split(":")
        nodes.append((int(par), sb))
    return sec, nodes


def kpiece_oracle(p, R, stats=None):
    """tree / discretization / report properties recomputed from the environment and the implementation's output only."""
    n = p["n"]
    lo, hi = p["lo"], p["hi"]
    ext = 0.0
    for i in range(n):
        d_ = hi[i] - lo[i]
        ext += d_ * d_
    seg = (ext ** 0.5) * p["res"]
    import math

    def valid(v):
        for bx in p["boxes"]:
            if all(bx[i] <= v[i] <= bx[n + i] for i in range(n)):
                return False
        return True

    def inb(v):
        return all(lo[i] <= v[i] <= hi[i] for i in range(n))

    def dist(a, b_):
        acc = 0.0
        for i in range(n):
            df = a[i] - b_[i]
            acc += df * df
        return math.sqrt(acc)

    def interp(a, b_, t):
        return [a[i] + (b_[i] - a[i]) * t for i in range(n)]

    def check_motion(a, b_):
        """DiscreteMotionValidator::checkMotion(a, b, lastValid) recomputed: (result, lastValid.second, state left in b)"""
        nd = int(math.ceil(dist(a, b_) / seg))
        for j in range(1, nd):
            if not valid(interp(a, b_, float(j) / float(nd))):
                fr = float(j - 1) / float(nd)
                return False, fr, interp(a, b_, fr)
        if not valid(b_):
            if nd == 0:
                return False, float("-inf"), None
            fr = float(nd - 1) / float(nd)
            return False, fr, interp(a, b_, fr)
        return True, 0.0, b_

    pdim = int(R["cfg"]["pdim"])
    cs = [(hi[i] - lo[i]) / 20.0 for i in range(pdim)]

    def coord(v):
        return tuple(int(math.floor(v[i] / cs[i])) for i in range(pdim))

    f = R["final"]
    if f is None:
        return (0, "the planner run did not finish (crash or sanitizer report)")
    # ---- starts
    okstarts = []
    for k, st in enumerate(R["starts"]):
        v = kp_state(st["state"])
        ok = inb(v) and valid(v)
        if ok != (st["ok"] == "1"):
            return (0, "start %d: satisfiesBounds && isValid answered %s, recomputed %s" % (k, st["ok"], ok))
        if ok:
            okstarts.append(st["state"])
    if not okstarts:
        if STATUS_NAME.get(f["status"]) != "INVALID_START" or f["nsol"] != 0:
            return (0, "no valid start, yet status %s with %d solutions" % (f["status"], f["nsol"]))
        return None
    if f["evals"] == 0:
        return (0, "valid starts exist but the loop never evaluated the termination condition (status %s)" % f["status"])
    sts = R["sts"]
    per = sts[:-1]
    seq = [per[0]] + [(per[j + 1] if j + 1 < len(per) else sts[-1]) for j in range(len(R["recs"]))]
    if len(R["recs"]) != (f["evals"] - 1 if not f["broke"] else f["evals"]):
        return (0, "%d iteration records for %d evaluations (broke=%d)" % (len(R["recs"]), f["evals"], f["broke"]))
    prev_nodes = None
    prev_cells = None
    for j, line in enumerate(seq):
        sec, nodes = kp_tree(line)
        try:
            D = parse_ddump(" | ".join(sec[:3]))
        except Exception as e:   # noqa
            return (j, "unreadable state dump: %s" % e)
        if j == 0:
            if [nd[1] for nd in nodes] != okstarts or any(nd[0] != -1 for nd in nodes):
                return (0, "the tree starts with %s, the valid start states are %s" % (nodes, okstarts))
        else:
            r = R["recs"][j - 1]
            ex = int(r["ex"])
            if not (0 <= ex < len(prev_nodes)):
                return (j, "iteration %d expanded from motion %d, the tree has %d motions" % (j, ex, len(prev_nodes)))
            a = kp_state(prev_nodes[ex][1])
            x = kp_state(r["x"])
            if stats is not None:
                stats["kp:iterations"] += 1
                stats["kp:tag:" + r["tag"]] += 1
            cm, fr, xs = check_motion(a, x)
            keep = cm or fr > p["mvf"]
            if stats is not None:
                stats["kp:motion:" + ("valid" if cm else ("partial-kept" if keep else "rejected"))] += 1
            if keep:
                want = prev_nodes + [(ex, ",".join(core.f2bits(z) for z in xs))]
                if nodes != want:
                    got = nodes[len(prev_nodes):]
                    return (j, "iteration %d: motion from %d towards the sample is %s (valid fraction %r, minValidPathFraction %r): the "
                               "tree must grow by (%d, %s), it grew by %s"
                            % (j, ex, "fully valid" if cm else "valid up to lastValid", fr, p["mvf"], ex, [repr(z) for z in xs],
                               [(g_[0], [repr(z) for z in kp_state(g_[1])]) for g_ in got]))
            elif nodes != prev_nodes:
                got = nodes[len(prev_nodes):]
                return (j, "iteration %d: motion from %d is invalid with valid fraction %r <= minValidPathFraction %r, yet the tree grew by %s"
                        % (j, ex, fr, p["mvf"], [(g_[0], [repr(z) for z in kp_state(g_[1])]) for g_ in got]))
        # ---- discretization: every motion in exactly the cell of its coordinate, no empty cell, grid invariants
        want_cells = {}
        for mid, nd in enumerate(nodes):
            want_cells.setdefault(coord(kp_state(nd[1])), []).append(mid)
        got_cells = {}
        for cid, c in D["cells"].items():
            if c["x"] in got_cells:
                return (j, "two cells at coordinate %s" % (c["x"],))
            got_cells[c["x"]] = c["motions"]
        if got_cells != want_cells:
            return (j, "after iteration %d the cells hold %s, the motions by projection coordinate are %s" % (j, sorted(got_cells.items()), sorted(want_cells.items())))
        if D["size"] != len(nodes):
            return (j, "size_=%d, %d motions in the tree" % (D["size"], len(nodes)))
        ecell = None
        if j > 0:
            ecell = coord(kp_state(prev_nodes[int(R["recs"][j - 1]["ex"])][1]))
        last_broke = (j == len(seq) - 1 and f["broke"] == 1)
        for cid, c in D["cells"].items():
            cnt = sum(1 for y in nb_coords(c["x"]) if y in got_cells)
            if c["nbrs"] != cnt or c["border"] != (cnt < 2 * pdim):
                return (j, "cell %d at %s: neighbors=%d border=%s, definition gives %d and %s" % (cid, c["x"], c["nbrs"], c["border"], cnt, cnt < 2 * pdim))
            if c["cov"] != float(len(c["motions"])):
                return (j, "cell %d: coverage %g with %d motions" % (cid, c["cov"], len(c["motions"])))
            fresh = (c["x"] == ecell and not last_broke)
            sels = [c["sel"]] if fresh else range(c["sel"], 0, -1)
            okimp = False
            for s_ in sels:
                den = (float(cnt + 1) * c["cov"]) * float(s_)
                if den != 0.0 and c["score"] / den == c["imp"]:
                    okimp = True
                    break
            if not okimp:
                return (j, "cell %d at %s: importance %r is not score/((neighbors+1)*coverage*selections) = %r/((%d+1)*%g*s) for %s"
                        % (cid, c["x"], c["imp"], c["score"], cnt, c["cov"],
                           "s = %d (updateCell(ecell) ends the iteration)" % c["sel"] if fresh else "any s <= %d" % c["sel"]))
            if fresh and prev_cells is not None:
                old = [v for v in prev_cells.values() if v["x"] == c["x"]]
                r = R["recs"][j - 1]
                if old and old[0]["score"] >= EPS and r["keep"] == "0":
                    if c["score"] != old[0]["score"] * p["fsf"]:
                        return (j, "failed expansion from cell %d: score %r, expected %r * %r" % (cid, c["score"], old[0]["score"], p["fsf"]))
        I, E = D["I"], D["E"]
        if sorted(I + E) != sorted(D["cells"]) or any(not D["cells"][c]["border"] for c in E) or any(D["cells"][c]["border"] for c in I):
            return (j, "queues I=%s E=%s do not split the cells by border flag" % (I, E))
        for name, arr in (("internal", I), ("external", E)):
            for cid in arr:
                if D["cells"][cid]["imp"] > D["cells"][arr[0]]["imp"]:
                    return (j, "%s queue: cell %d is at the top although cell %d has a larger importance" % (name, arr[0], cid))
        if not E:
            return (j, "selectMotion would meet an empty external queue: no border cell")
        prev_nodes, prev_cells = nodes, D["cells"]
    # ---- the report
    nodes = prev_nodes
    g = p["goal"]
    gd = [dist(kp_state(nd[1]), g) for nd in nodes]
    added = [i for i, nd in enumerate(nodes) if nd[0] >= 0]
    name = STATUS_NAME.get(f["status"], f["status"])
    if not added:
        if name != "TIMEOUT" or f["nsol"] != 0:
            return (len(seq), "no motion was added, yet status %s with %d solutions" % (f["status"], f["nsol"]))
        return None
    solved = [i for i in added if gd[i] < p["thr"]]
    if solved:
        tgt, wname, wapprox = solved[0], "EXACT_SOLUTION", 0
        if solved[0] != len(nodes) - 1:
            return (len(seq), "motion %d satisfies the goal but the loop went on" % solved[0])
    else:
        best = min(gd[i] for i in added)
        tgt, wname, wapprox = [i for i in added if gd[i] == best][0], "APPROXIMATE_SOLUTION", 1
    chain = []
    i = tgt
    while i >= 0:
        chain.append(nodes[i][1])
        i = nodes[i][0]
    wpath = ";".join(reversed(chain))
    if name != wname or f["nsol"] != 1 or f["approx"] != wapprox or f["path"] != wpath:
        return (len(seq), "report: status %s approx=%d path of %d states; expected %s approx=%d and the tree path to motion %d (%d states)"
                % (f["status"], f["approx"], len(f["path"].split(";")), wname, wapprox, tgt, len(chain)))
    if wapprox and core.bits2f(f["dif"]) != gd[tgt]:
        return (len(seq), "reported difference %r, the goal distance of the last path state is %r" % (core.bits2f(f["dif"]), gd[tgt]))
    if stats is not None:
        stats["kp:status:" + wname] += 1
    return None


def build_kpiece(ck):
    return ck.build_harness("kpiece", ["kpiece.cpp"], link_ompl=True, extra=HARNESS_EXTRA)


def run_kpiece(ck, hbin, p):
    out, rc, err = ck.run_bin(hbin, kpiece_script(p))
    out = out or []
    R = kp_parse(out)
    model = None
    if R["cfg"] is not None and R["final"] is not None:
        model, rc2, err2 = ck.run_bin(ck.driver(KP_DRIVER), kp_model_script(p, R))
        if rc2 != 0:
            raise RuntimeError("model driver drv_kpiece failed (rc=%s): %s" % (rc2, (err2 or "")[-800:]))
    return out, rc, err or "", R, model


def kp_compare(R, model):
    """-> None | (line index, impl line, model line)"""
    impl = kp_lines(R)
    if impl is None or model is None:
        return (0, "<no run>", "<no run>")
    m = list(model[len(R["starts"]):])      # drop the `ok` answers of the start lines
    if m:
        mm = re.match(r"final status=(\S+) same=(\d) unused=(\d+) (.*)$", m[-1])
        if mm:
            if mm.group(2) != "1":
                return (len(m) - 1, "<replay>", "whole-run solve differs from the stepwise replay: " + m[-1][:200])
            m[-1] = "final status=%s %s" % (mm.group(1), mm.group(4))
    for i in range(max(len(impl), len(m))):
        a = impl[i] if i < len(impl) else "<missing>"
        b_ = m[i] if i < len(m) else "<missing>"
        if a != b_:
            return (i, a, b_)
    return None


def judge_kpiece(ck, hbin, p, tag, pre=None):
    out, rc, err, R, model = pre if pre is not None else run_kpiece(ck, hbin, p)
    ck.traces_validated += 1
    stats = collections.Counter()
    fail = None
    if rc != 0 or R["final"] is None:
        fail = (0, "harness exited with code %s: %s" % (rc, crash_site(err)))
    else:
        fail = kpiece_oracle(p, R, stats)
    niter = len(R["recs"])
    ck.case(("kpiece", json.dumps(p, sort_keys=True)), stats["kp:motion:partial-kept"] >= 1 and stats["kp:motion:rejected"] >= 1)
    ck.count("kp:problems:" + tag)
    ck.count("kp:dim:%d" % p["n"])
    for k, v in stats.items():
        ck.count(k, v)
    ck.sample({"generator": "kpiece:" + tag, "problem": {k: p[k] for k in ("n", "iters", "mvf", "fsf", "goalbias", "bf", "seeds")},
               "iterations": niter}, limit=12)
    d = kp_compare(R, model) if fail is None else None
    if fail is not None:
        sig = ("kpiece", re.sub(r"-?\d+(\.\d+)?(e-?\d+)?", "N", fail[1])[:50])
        seen = ck.__dict__.setdefault("_c13_sigs", set())
        if sig in seen:
            ck.count("failing-scripts:same-kind-as-reported")
            return None
        seen.add(sig)
        # shrink: fewer iterations, fewer boxes, fewer starts
        def fails(q):
            o2, rc2, e2, R2, _m = run_kpiece(ck, hbin, q)
            return rc2 != 0 or R2["final"] is None or kpiece_oracle(q, R2) is not None
        q = dict(p)
        lo_, hi_ = 0, q["iters"]
        while lo_ < hi_:
            mid = (lo_ + hi_) // 2
            q2 = dict(q, iters=mid)
            if fails(q2):
                hi_ = mid
            else:
                lo_ = mid + 1
        q["iters"] = lo_
        for key in ("boxes", "starts"):
            items = list(q[key])
            k_ = 0
            while k_ < len(items) and len(items) > (1 if key == "starts" else 0):
                cand = items[:k_] + items[k_ + 1:]
                if fails(dict(q, **{key: cand})):
                    items = cand
                else:
                    k_ += 1
            q[key] = items
        o2, rc2, e2, R2, m2 = run_kpiece(ck, hbin, q)
        f2 = kpiece_oracle(q, R2) if (rc2 == 0 and R2["final"] is not None) else (0, "harness exited with code %s: %s" % (rc2, crash_site(e2)))
        what = (f2 or fail)[1]
        ck.report({"engine": "kpiece", "what": re.sub(r"\d+", "N", what)[:160]}, script=["#kpiece-problem " + json.dumps(q)] + kpiece_script(q),
                  expected=m2, observed=o2, engine="kpiece")
        ck.log("property failure (KPIECE1): %s (%d iterations after shrinking)" % (what[:300], q["iters"]))
        return False
    if d is not None:
        ck.disagreements += 1
        seen = ck.__dict__.setdefault("_c13_dis", set())
        if "kpiece" in seen:
            ck.count("disagreeing-scripts:same-op-as-reported")
            return None
        seen.add("kpiece")
        ck.report({"engine": "kpiece", "what": "model/implementation disagreement"},
                  script=["#kpiece-problem " + json.dumps(p)] + kpiece_script(p), expected=[d[2]], observed=[d[1]],
                  found_input=False, engine="kpiece",
                  obligation="correspondence kpiece: KPIECE1.cpp vs OmplModel.Model.KPIECE1 (first differing line %d)" % d[0])
        ck.log("KPIECE1: correspondence disagreement at line %d; the oracle holds on this run" % d[0])
        return False
    return True


# ================================================================================== engine 4: LBKPIECE1
LB_DRIVER = "drv_lbkpiece"
STATUS_NAME["Invalid goal"] = "INVALID_GOAL"


def gen_lbkpiece(rng):
    n = rng.choice([2, 2, 3])
    lo = [rng.choice([0.0, -1.0, 0.0]) for _ in range(n)]
    hi = [lo[i] + rng.choice([1.0, 2.0, 1.0]) for i in range(n)]
    boxes = []
    for _ in range(rng.choice([0, 1, 1, 2, 3])):
        c = [rng.uniform(lo[i], hi[i]) for i in range(n)]
        h = [rng.uniform(0.04, 0.22) * (hi[i] - lo[i]) for i in range(n)]
        boxes.append([c[i] - h[i] for i in range(n)] + [c[i] + h[i] for i in range(n)])
    pt = lambda: [rng.uniform(lo[i], hi[i]) for i in range(n)]
    starts = [pt() for _ in range(rng.choice([1, 1, 2, 3]))]
    goals = [pt() for _ in range(rng.choice([1, 1, 2, 3]))]
    if rng.chance(1, 6):
        starts[rng.below(len(starts))][0] = hi[0] + 0.5
    if boxes and rng.chance(1, 4):
        b = rng.choice(boxes)
        (starts if rng.chance(1, 2) else goals).insert(0, [(b[i] + b[n + i]) / 2 for i in range(n)])   # inside an obstacle
    if rng.chance(1, 30):
        starts = [[hi[0] + 1.0] + [lo[i] for i in range(1, n)]]
    if boxes and rng.chance(1, 25):
        b = boxes[0]
        goals = [[(b[i] + b[n + i]) / 2 for i in range(n)]]      # no valid goal at all
    return {"n": n, "lo": lo, "hi": hi, "boxes": boxes, "starts": starts, "goals": goals,
            "res": rng.choice([0.01, 0.02, 0.05]), "range": rng.choice([0.0, 0.2, 0.4, 0.8]),
            "bf": rng.choice([0.9, 0.5, 1.0, 0.2]), "mvf": rng.choice([0.5, 0.2, 0.05, 0.9, 1.0]),
            "seeds": [rng.below(1 << 30) + 1 for _ in range(4)], "iters": rng.choice([0, 2, 8, 30, 80, 200, 400])}


def lbkpiece_script(p):
    b = core.f2bits
    n = p["n"]
    L = ["lbkpiece", "dim %d" % n, "bounds " + " ".join(map(b, p["lo"] + p["hi"])),
         ("boxes %d " % len(p["boxes"]) + " ".join(b(v) for bx in p["boxes"] for v in bx)).strip(), "res " + b(p["res"])]
    for s_ in p["starts"]:
        L.append("start " + " ".join(map(b, s_)))
    for s_ in p["goals"]:
        L.append("goal " + " ".join(map(b, s_)))
    L += ["range " + b(p["range"]), "bf " + b(p["bf"]), "mvf " + b(p["mvf"]), "seeds %d %d %d %d" % tuple(p["seeds"]),
          "iters %d" % p["iters"], "go"]
    return L


def lb_parse(out):
    """-> dict(cfg, starts, goals, segs=[(events, st_line)], final, tail_events)"""
    R = {"cfg": None, "starts": [], "goals": [], "segs": [], "final": None, "last_events": [], "final_st": None}
    ev = []
    for ln in out:
        if ln.startswith("cfg "):
            R["cfg"] = dict(t.split("=") for t in ln.split()[1:])
        elif ln.startswith("goalstate "):
            R["goals"].append(dict(t.split("=") for t in ln.split()[1:]))
        elif ln.startswith("start "):
            R["starts"].append(dict(t.split("=") for t in ln.split()[1:]))
        elif ln.startswith("ev "):
            t = ln.split()
            ev.append((t[1], dict(z.split("=") for z in t[2:])))
        elif ln.startswith("st "):
            if R["final"] is None:
                R["segs"].append((ev, ln))
                ev = []
            else:
                R["final_st"] = ln
        elif ln.startswith("final "):
            m = re.fullmatch(r"final status=(.*?) nsol=(\d+) approx=(\d) heads=(\d+) path=(\S+)", ln)
            if m:
                R["final"] = {"status": m.group(1), "nsol": int(m.group(2)), "approx": int(m.group(3)), "heads": int(m.group(4)),
                              "path": m.group(5)}
            R["last_events"] = ev
            ev = []
    return R


def lb_iterations(R):
    """[(events, state line after the iteration)] -- the first segment's events are the start motions"""
    its = []
    segs = R["segs"]
    for k in range(1, len(segs)):
        its.append(segs[k])
    if R["last_events"] and segs:
        its.append((R["last_events"], R["final_st"]))
    return its


def lb_model_script(p, R):
    b = core.f2bits
    L = ["lbkpiece pdim=%s bf=%s mvf=%s seeds=%d,%d,%d" % (R["cfg"]["pdim"], b(p["bf"]), b(p["mvf"]), p["seeds"][0], p["seeds"][1], p["seeds"][2])]
    for st in R["starts"]:
        L.append("start %s %s" % (st["state"], st["ok"]))
    for g in R["goals"]:
        L.append("goal %s %s" % (g["state"], g["ok"]))

    def emit(events):
        near = None
        for k, e in events:
            if k == "proj":
                L.append("proj %s %s" % (e["s"], e["c"]))
            elif k == "cm":
                L.append("cm %s %s %s %s %s" % (e["a"], e["b"], e["r"], e["frac"], e["lv"]))
            elif k == "near":
                near = e["x"]
        return near
    first = R["segs"][0][0] if R["segs"] else R["last_events"]
    emit(first)
    L.append("begin")
    for events, _st in lb_iterations(R):
        # the oracle answers of an iteration are sent ahead of its `it` line
        near = emit(events)
        L.append("it %s" % (near if near is not None else "0"))
    L.append("fin")
    return L


def lb_lines(R):
    f = R["final"]
    if f is None or R["final_st"] is None:
        return None
    name = STATUS_NAME.get(f["status"], f["status"])
    fin = "final status=%s path=%s | %s" % (name, f["path"], R["final_st"])
    if not R["segs"]:
        pre = {"INVALID_START": "invalid-start ", "INVALID_GOAL": "invalid-goal "}.get(name, "")
        return [pre + R["final_st"], fin]
    return [R["segs"][0][1]] + [st for _ev, st in lb_iterations(R)] + [fin]


def lb_parse_state(st_line):
    """-> dict(goals, S=disc dict, G=disc dict, motions={id: None|dict}, freed=[ids])"""
    sec = st_line[3:].split(" || ")
    out = {"goals": int(sec[0].split("=")[1])}
    for key, body in (("S", sec[1][2:]), ("G", sec[2][2:])):
        parts = body.split(" | ")
        kv = dict(t.split("=", 1) for t in parts[0].split())
        t = parts[1].split()
        cells = {}
        for tok in t[1:]:
            f = tok.split(":")
            xy, nb, bd, ms, cov, sel, sc, it, imp = f
            cells[tuple(map(int, xy.split(".")))] = {"nbrs": int(nb), "border": bd == "1",
                                                     "motions": [] if ms == "-" else list(map(int, ms.split(","))),
                                                     "cov": core.bits2f(cov), "sel": int(sel), "score": core.bits2f(sc),
                                                     "iter": int(it), "imp": core.bits2f(imp)}
        kq = dict(t_.split("=", 1) for t_ in parts[2].split())
        ck_ = lambda v: [] if v == "-" else [tuple(map(int, z.split("."))) for z in v.split(",")]
        out[key] = {"size": int(kv["size"]), "iter": int(kv["iter"]), "tbl": int(kv["tbl"]), "cells": cells, "I": ck_(kq["I"]), "E": ck_(kq["E"])}
    t = sec[3].split()
    motions = {}
    for tok in t[2:]:
        f = tok.split(":")
        if f[1] == "x":
            motions[int(f[0])] = None
        else:
            motions[int(f[0])] = {"tree": f[1], "parent": f[2], "valid": f[3] == "1", "state": f[4],
                                  "children": [] if f[5] == "-" else f[5].split(",")}
    fr = sec[4].split("=")[1]
    out["motions"] = motions
    out["freed"] = [] if fr == "-" else list(map(int, fr.split(",")))
    return out


def lbkpiece_oracle(p, R, stats=None):
    import math
    n = p["n"]
    lo, hi = p["lo"], p["hi"]
    ext = 0.0
    for i in range(n):
        d_ = hi[i] - lo[i]
        ext += d_ * d_
    seg = math.sqrt(ext) * p["res"]

    def valid(v):
        for bx in p["boxes"]:
            if all(bx[i] <= v[i] <= bx[n + i] for i in range(n)):
                return False
        return True

    def inb(v):
        return all(lo[i] <= v[i] <= hi[i] for i in range(n))

    def dist(a, b_):
        acc = 0.0
        for i in range(n):
            df = a[i] - b_[i]
            acc += df * df
        return math.sqrt(acc)

    def interp(a, b_, t):
        return [a[i] + (b_[i] - a[i]) * t for i in range(n)]

    def check_motion(a, b_):
        nd = int(math.ceil(dist(a, b_) / seg))
        for j in range(1, nd):
            if not valid(interp(a, b_, float(j) / float(nd))):
                fr = float(j - 1) / float(nd)
                return False, fr, interp(a, b_, fr)
        if not valid(b_):
            if nd == 0:
                return False, None, None
            fr = float(nd - 1) / float(nd)
            return False, fr, interp(a, b_, fr)
        return True, 0.0, b_

    cs = [(hi[i] - lo[i]) / 20.0 for i in range(2)]
    coord = lambda v: tuple(int(math.floor(v[i] / cs[i])) for i in range(2))
    sb = lambda v: ",".join(core.f2bits(z) for z in v)
    f = R["final"]
    if f is None or R["final_st"] is None:
        return (0, "the planner run did not finish (crash or sanitizer report)")
    name = STATUS_NAME.get(f["status"], f["status"])
    okstarts, okgoals = [], []
    for k, st in enumerate(R["starts"]):
        v = kp_state(st["state"])
        if (inb(v) and valid(v)) != (st["ok"] == "1"):
            return (0, "start %d: input filter answered %s" % (k, st["ok"]))
        if st["ok"] == "1":
            okstarts.append(st["state"])
    for k, g in enumerate(R["goals"]):
        v = kp_state(g["state"])
        if (inb(v) and valid(v)) != (g["ok"] == "1"):
            return (0, "goal state %d: input filter answered %s" % (k, g["ok"]))
        if g["ok"] == "1":
            okgoals.append(g["state"])
    if not okstarts:
        return None if (name == "INVALID_START" and f["nsol"] == 0) else (0, "no valid start, yet status %s" % f["status"])
    lines = [R["segs"][0]] + lb_iterations(R) if R["segs"] else []
    if not lines:
        return (0, "valid starts but no state dump")
    okcm = set()       # (a, b) answered valid during the run
    readd = set()      # (a, lastValid state) of a failed motion whose valid fraction exceeds minValidPathFraction
    prev = None
    for j, (events, st_line) in enumerate(lines):
        for k, e in events:
            if k == "cm":
                a, b_ = kp_state(e["a"]), kp_state(e["b"])
                r, fr, lv = check_motion(a, b_)
                if r != (e["r"] == "1") or (not r and fr is not None and (core.bits2f(e["frac"]) != fr or e["lv"] != sb(lv))):
                    return (j, "checkMotion(%s, %s) answered r=%s frac=%r, recomputed r=%s frac=%r" % (a, b_, e["r"], core.bits2f(e["frac"]), r, fr))
                if r:
                    okcm.add((e["a"], e["b"]))
                elif core.bits2f(e["frac"]) > p["mvf"]:
                    readd.add((e["a"], e["lv"]))
                if stats is not None:
                    stats["lb:checkMotion:" + ("valid" if r else "invalid")] += 1
            elif k == "proj":
                if coord(kp_state(e["s"])) != tuple(map(int, e["c"].split(","))):
                    return (j, "projection coordinate of %s answered %s" % (e["s"], e["c"]))
        try:
            Dm = lb_parse_state(st_line)
        except Exception as e_:   # noqa
            return (j, "unreadable state dump: %s" % e_)
        ms = Dm["motions"]
        alive = {i: m for i, m in ms.items() if m is not None}
        if stats is not None and j > 0:
            stats["lb:iterations"] += 1
            if prev is not None:
                gone = [i for i, m in prev["motions"].items() if m is not None and ms.get(i) is None]
                if gone:
                    stats["lb:iterations-with-removal"] += 1
                    stats["lb:motions-removed"] += len(gone)
        # ---- tree structure, valid flags, removal of whole subtrees
        for i, m in alive.items():
            if "?" in m["children"] or m["parent"] == "?":
                return (j, "motion %d points to a freed motion (parent %s, children %s)" % (i, m["parent"], m["children"]))
            par = int(m["parent"])
            if par < 0:
                roots = okstarts if m["tree"] == "S" else okgoals
                if not m["valid"] or m["state"] not in roots:
                    return (j, "motion %d has no parent but is not a root of the %s tree (valid=%s): its parent was removed without it"
                            % (i, m["tree"], m["valid"]))
            else:
                pm = alive.get(par)
                if pm is None or pm["tree"] != m["tree"] or par >= i:
                    return (j, "motion %d: parent %d is %s" % (i, par, "freed" if pm is None else "in the other tree"))
                if m["valid"] and (pm["state"], m["state"]) not in okcm and (pm["state"], m["state"]) not in readd:
                    return (j, "motion %d is flagged valid but checkMotion(parent %d, it) was never answered valid (nor is it a re-added last valid state)" % (i, par))
            kids = sorted(k_ for k_, c in alive.items() if c["parent"] == str(i))
            if list(map(int, m["children"])) != kids:
                return (j, "motion %d: children %s, the alive motions whose parent it is are %s" % (i, m["children"], kids))
        dead = sorted(i for i, m in ms.items() if m is None)
        if sorted(Dm["freed"]) != dead or len(set(Dm["freed"])) != len(Dm["freed"]):
            return (j, "freed motions %s (each must be freed once), motions no longer stored %s" % (Dm["freed"], dead))
        # ---- both discretizations
        for key in ("S", "G"):
            Dd = Dm[key]
            want = {}
            for i, m in sorted(alive.items()):
                if m["tree"] == key:
                    want.setdefault(coord(kp_state(m["state"])), []).append(i)
            got = {x: c["motions"] for x, c in Dd["cells"].items()}
            if got != want:
                empt = [x for x, v in got.items() if not v]
                return (j, "%s discretization: %s" % (key, ("an empty cell stays in the grid at %s" % (empt[0],)) if empt else
                                                     "cells hold %s, the stored motions by coordinate are %s" % (sorted(got.items()), sorted(want.items()))))
            if Dd["size"] != sum(len(v) for v in want.values()):
                return (j, "%s discretization: size_=%d with %d motions stored" % (key, Dd["size"], sum(len(v) for v in want.values())))
            for x, c in Dd["cells"].items():
                cnt = sum(1 for y in nb_coords(x) if y in got)
                if c["nbrs"] != cnt or c["border"] != (cnt < 4):
                    return (j, "%s cell %s: neighbors=%d border=%s, definition gives %d" % (key, x, c["nbrs"], c["border"], cnt))
                if c["cov"] < len(c["motions"]):
                    return (j, "%s cell %s: coverage %g with %d motions" % (key, x, c["cov"], len(c["motions"])))
                if not any(((float(cnt + 1) * c["cov"]) * float(s_)) != 0.0 and c["score"] / ((float(cnt + 1) * c["cov"]) * float(s_)) == c["imp"]
                           for s_ in range(c["sel"], 0, -1)):
                    return (j, "%s cell %s: importance %r does not follow from score %r, %d neighbours, coverage %g and <= %d selections"
                            % (key, x, c["imp"], c["score"], cnt, c["cov"], c["sel"]))
            I, E = Dd["I"], Dd["E"]
            if sorted(I + E) != sorted(Dd["cells"]) or any(not Dd["cells"][c]["border"] for c in E) or any(Dd["cells"][c]["border"] for c in I):
                return (j, "%s discretization: queues do not split the cells by border flag" % key)
            for arr in (I, E):
                for c in arr:
                    if Dd["cells"][c]["imp"] > Dd["cells"][arr[0]]["imp"]:
                        return (j, "%s discretization: cell %s tops a queue although %s has a larger importance" % (key, arr[0], c))
            if Dd["cells"] and not E:
                return (j, "%s discretization: no border cell" % key)
        prev = Dm
    # ---- the report
    if f["nsol"] > 0:
        if name != "EXACT_SOLUTION" or f["approx"]:
            return (len(lines), "a solution was added but the status is %s (approximate=%d)" % (f["status"], f["approx"]))
        path = f["path"].split(";")
        if path[0] not in okstarts or path[-1] not in okgoals:
            return (len(lines), "the reported path does not lead from a valid start to a valid goal state")
        for a, b_ in zip(path, path[1:]):
            if not ((a, b_) in okcm or (b_, a) in okcm or (a, b_) in readd or (b_, a) in readd):
                r1 = check_motion(kp_state(a), kp_state(b_))[0]
                return (len(lines), "reported path: the motion %s -> %s was never answered valid by checkMotion during the run (lazy validation "
                                    "skipped it; recomputed now: %s)" % ([repr(z) for z in kp_state(a)], [repr(z) for z in kp_state(b_)],
                                                                        "valid" if r1 else "INVALID"))
        if stats is not None:
            stats["lb:status:EXACT_SOLUTION"] += 1
            stats["lb:path-states"] += len(path)
    else:
        if name == "EXACT_SOLUTION":
            return (len(lines), "status Exact solution without a solution path")
        if name == "INVALID_GOAL" and okgoals and len(R["goals"]) > 0 and R["goals"][0]["ok"] == "1":
            return (len(lines), "INVALID_GOAL although the first goal state is valid")
        if stats is not None:
            stats["lb:status:" + name] += 1
    return None


def build_lbkpiece(ck):
    return ck.build_harness("lbkpiece", ["lbkpiece.cpp"], link_ompl=True, extra=HARNESS_EXTRA)


def run_lbkpiece(ck, hbin, p):
    out, rc, err = ck.run_bin(hbin, lbkpiece_script(p))
    out = out or []
    R = lb_parse(out)
    model = None
    if R["cfg"] is not None and R["final"] is not None and R["final_st"] is not None:
        model, rc2, err2 = ck.run_bin(ck.driver(LB_DRIVER), lb_model_script(p, R))
        if rc2 != 0:
            raise RuntimeError("model driver drv_lbkpiece failed (rc=%s): %s" % (rc2, (err2 or "")[-800:]))
    return out, rc, err or "", R, model


def lb_compare(R, model):
    impl = lb_lines(R)
    if impl is None or model is None:
        return (0, "<no run>", "<no run>")
    m = [ln for ln in model if ln != "ok"]
    if m:
        mm = re.match(r"final status=(\S+) same=(\d) (.*)$", m[-1])
        if mm:
            if mm.group(2) != "1":
                return (len(m) - 1, "<replay>", "whole-run solve differs from the stepwise replay")
            m[-1] = "final status=%s %s" % (mm.group(1), mm.group(3))
    for i in range(max(len(impl), len(m))):
        a = impl[i] if i < len(impl) else "<missing>"
        b_ = m[i] if i < len(m) else "<missing>"
        if a != b_:
            return (i, a, b_)
    return None


def judge_lbkpiece(ck, hbin, p, tag, pre=None):
    out, rc, err, R, model = pre if pre is not None else run_lbkpiece(ck, hbin, p)
    ck.traces_validated += 1
    stats = collections.Counter()
    if rc != 0 or R["final"] is None:
        fail = (0, "harness exited with code %s: %s" % (rc, crash_site(err)))
    else:
        fail = lbkpiece_oracle(p, R, stats)
    ck.case(("lbkpiece", json.dumps(p, sort_keys=True)), stats["lb:iterations-with-removal"] >= 1)
    ck.count("lb:problems:" + tag)
    for k, v in stats.items():
        ck.count(k, v)
    ck.sample({"generator": "lbkpiece:" + tag, "problem": {k: p[k] for k in ("n", "iters", "mvf", "bf", "seeds")}}, limit=15)
    d = lb_compare(R, model) if fail is None else None
    if fail is not None:
        sig = ("lbkpiece", re.sub(r"-?\d+(\.\d+)?(e-?\d+)?", "N", fail[1])[:50])
        seen = ck.__dict__.setdefault("_c13_sigs", set())
        if sig in seen:
            ck.count("failing-scripts:same-kind-as-reported")
            return None
        seen.add(sig)

        def fails(q):
            o2, rc2, e2, R2, _m = run_lbkpiece(ck, hbin, q)
            return rc2 != 0 or R2["final"] is None or lbkpiece_oracle(q, R2) is not None
        q = dict(p)
        lo_, hi_ = 0, q["iters"]
        while lo_ < hi_:
            mid = (lo_ + hi_) // 2
            if fails(dict(q, iters=mid)):
                hi_ = mid
            else:
                lo_ = mid + 1
        q["iters"] = lo_
        o2, rc2, e2, R2, m2 = run_lbkpiece(ck, hbin, q)
        f2 = lbkpiece_oracle(q, R2) if (rc2 == 0 and R2["final"] is not None) else (0, "harness exited with code %s: %s" % (rc2, crash_site(e2)))
        what = (f2 or fail)[1]
        ck.report({"engine": "lbkpiece", "what": re.sub(r"\d+", "N", what)[:160]}, script=["#lbkpiece-problem " + json.dumps(q)] + lbkpiece_script(q),
                  expected=None, observed=[l[:2000] for l in o2[-6:]], engine="lbkpiece")
        ck.log("property failure (LBKPIECE1): %s (%d iterations after shrinking)" % (what[:400], q["iters"]))
        return False
    if d is not None:
        ck.disagreements += 1
        seen = ck.__dict__.setdefault("_c13_dis", set())
        if "lbkpiece" in seen:
            ck.count("disagreeing-scripts:same-op-as-reported")
            return None
        seen.add("lbkpiece")
        ck.report({"engine": "lbkpiece", "what": "model/implementation disagreement"},
                  script=["#lbkpiece-problem " + json.dumps(p)] + lbkpiece_script(p), expected=[d[2][:3000]], observed=[d[1][:3000]],
                  found_input=False, engine="lbkpiece",
                  obligation="correspondence lbkpiece: LBKPIECE1.cpp vs OmplModel.Model.LBKPIECE1 (first differing line %d)" % d[0])
        ck.log("LBKPIECE1: correspondence disagreement at line %d; the oracle holds on this run" % d[0])
        return False
    return True


# ================================================================================== engine 5: plain GridN (split protocol)
GN_DRIVER = "drv_gridn"


def gen_gridn(rng, nops):
    """plain GridN with the split protocol: createCell, then add -- or remove + destroyCell WITHOUT add (a tentative cell
    given back) --, and removals of present cells; emphasis on abandoned cells next to present ones, repeated."""
    dim = rng.choice([1, 1, 2, 2, 2, 3, 4, 5])
    limit = "default" if rng.chance(1, 3) else rng.range(1, 2 * dim + 1)
    if rng.chance(1, 2):
        bounds = None
        hdr_b = "nobounds"
    else:
        lo = [rng.range(-2, 0) for _ in range(dim)]
        up = [lo[i] + (0 if rng.chance(1, 6) else rng.range(1, 3)) for i in range(dim)]
        bounds = (lo, up)
        hdr_b = "bounds " + " ".join(map(str, lo + up))
    lines = ["gridn dim=%d limit=%s %s" % (dim, limit, hdr_b)]
    present = []
    cs = lambda x: " ".join(map(str, x))
    setters = rng.chance(1, 2)

    def coord():
        if present and rng.chance(3, 5):
            x = list(rng.choice(present))
            x[rng.below(dim)] += rng.choice([-1, 1])
            return tuple(x)
        if bounds is not None:
            return tuple(rng.range(bounds[0][i] - 1, bounds[1][i] + 1) for i in range(dim))
        return tuple(rng.range(-2, 2) for _ in range(dim))
    for _ in range(nops):
        r = rng.below(100)
        if r < 55:
            x = coord()
            lines.append("create %s %d" % (cs(x), rng.below(100)))
            z = rng.below(100)
            if z < 55:
                lines.append("add")
                if x not in present:
                    present.append(x)
            elif z < 95:
                lines.append("abandon")
                if rng.chance(1, 3):        # abandon the same coordinate again: the inflation would accumulate
                    lines += ["create %s 1" % cs(x), "abandon"]
            # else: leave it pending; the next ops answer `busy`
        elif r < 80 and present:
            x = rng.choice(present)
            lines.append("rm " + cs(x))
            present.remove(x)
        elif r < 84:
            lines.append(rng.choice(["add", "abandon"]))
        elif r < 88:
            lines.append("rm " + cs(coord()))
        elif r < 92:
            lines.append(rng.choice(["has ", "nb "]) + cs(coord()))
        elif r < 95:
            lines.append("obs")
        elif r < 97 and setters:
            # the setters after first use (lens a/e): limit lowered/raised, bounds moved, dimension changed once empty
            z = rng.below(10)
            if z < 5:
                lines.append("setlimit %d" % rng.range(1, 2 * dim + 1))
            elif z < 8:
                lo = [rng.range(-2, 0) for _ in range(dim)]
                up = [lo[i] + (0 if rng.chance(1, 6) else rng.range(1, 3)) for i in range(dim)]
                bounds = (lo, up)
                lines.append("setbounds " + cs(lo + up))
            else:
                # the same dimension again (a planner's repeated setup()): `busy` with cells, a no-op without
                lines.append("setdim %d" % dim + ("" if bounds is None else " " + cs(list(bounds[0]) + list(bounds[1]))))
                if rng.chance(1, 2):
                    nd = rng.range(1, 5)
                    ln = "setdim %d" % nd
                    if bounds is not None:
                        lo = [rng.range(-2, 0) for _ in range(nd)]
                        up = [lo[i] + rng.range(0, 3) for i in range(nd)]
                        bounds = (lo, up)
                        ln += " " + cs(lo + up)
                    lines += ["abandon", "clear", ln]
                    present = []
                    dim = nd
        elif r < 98:
            lines.append("clear")
            present = []
        else:
            lines.append(rng.choice(["create 1", "add 3", "rm", "abandon now", "obs 1", "has"]))
    lines += ["abandon", "add", "obs"]
    if rng.chance(1, 3):
        # observer sandwich: every observer (getContent/getCoordinates/getCells/components/status, has, neighbors) is asked
        # before and after EVERY operation, so an observer that remembers an earlier answer goes stale visibly
        # (seeded C13-s7: components() memoised, GridN::remove bypassing the invalidation)
        watched = [lines[0], "obs"]
        for ln in lines[1:]:
            if ln != "obs":
                watched += [ln, "obs"]
                t = ln.split()
                if t[0] in ("create", "rm") and len(t) > dim:
                    watched += ["has " + " ".join(t[1:1 + dim]), "nb " + " ".join(t[1:1 + dim])]
        lines = watched
    return lines


def gridn_oracle(script, out, stats=None):
    """brute-force neighbour count on the implementation's dump: the property itself."""
    t = script[0].split()
    dim = int(t[1].split("=")[1])
    lim = t[2].split("=")[1]
    limit = 2 * dim if lim == "default" else int(lim)
    lo = up = None
    if t[3] == "bounds":
        v = list(map(int, t[4:]))
        lo, up = v[:dim], v[dim:]
    bd = lambda x: 0 if lo is None else sum(1 for i in range(dim) if x[i] == lo[i] or x[i] == up[i])
    overridden = lim != "default"
    late = False     # a setter was called while cells existed: counts/flags of the existing cells are not recomputed
    bdc = {}         # id -> boundary sides counted when the cell was created
    flag = {}        # id -> (count, border) the cell must show
    present = {}     # coord -> id
    pending = None   # (id, coord)
    nxt = 0
    isint = lambda z: re.fullmatch(r"[+-]?\d+", z) is not None
    for i, line in enumerate(script[1:]):
        if i >= len(out):
            return (i, "implementation stopped at `%s` (crash or sanitizer report)" % line)
        o = out[i]
        tk = line.split()
        op = tk[0]
        wf = (op == "create" and len(tk) == dim + 2 and all(isint(z) for z in tk[1:])) or (op in ("add", "abandon", "obs", "clear") and len(tk) == 1) or \
             (op in ("rm", "has", "nb") and len(tk) == dim + 1 and all(isint(z) for z in tk[1:])) or \
             (op == "setlimit" and len(tk) == 2 and tk[1].isdigit() and 1 <= int(tk[1]) <= 1000000) or \
             (op == "setbounds" and len(tk) == 2 * dim + 1 and all(isint(z) for z in tk[1:])) or \
             (op == "setdim" and len(tk) >= 2 and tk[1].isdigit() and 1 <= int(tk[1]) <= 8 and all(isint(z) for z in tk[2:]) and
              len(tk) - 2 == (2 * int(tk[1]) if lo is not None else 0))
        if not wf:
            if o != "bad-op":
                return (i, "ill-formed line answered %r" % o)
            continue
        if o == "bad-op":
            return (i, "bad-op on a well-formed line")
        res, _, dump = o.partition(" | ")
        exp = None
        if op == "create":
            x = tuple(map(int, tk[1:1 + dim]))
            if pending is not None:
                exp = "busy"
            elif x in present:
                exp = "present"
            else:
                pending = (nxt, x)
                bdc[nxt] = bd(x)
                exp = "c=%d" % nxt
                nxt += 1
        elif op == "add":
            if pending is None:
                exp = "nopending"
            else:
                present[pending[1]] = pending[0]
                pending = None
                exp = "ok"
        elif op == "abandon":
            if pending is None:
                exp = "nopending"
            else:
                pending = None
                exp = "0"
                if stats is not None:
                    stats["gn:abandoned"] += 1
        elif op == "rm":
            x = tuple(map(int, tk[1:]))
            if pending is not None:
                exp = "busy"
            elif x in present:
                del present[x]
                exp = "1"
            else:
                exp = "absent"
        elif op == "has":
            x = tuple(map(int, tk[1:]))
            exp = "1 c=%d" % present[x] if x in present else "0"
        elif op == "nb":
            x = tuple(map(int, tk[1:]))
            wantn = sorted(present[y] for y in nb_coords(x) if y in present)
            r_ = res.split()
            if not all(z.isdigit() for z in r_) or int(r_[0]) != len(r_) - 1 or sorted(map(int, r_[1:])) != wantn:
                return (i, "neighbors(%s) answered %r, the present cells one step away are %s" % (x, res, wantn))
            exp = res
        elif op == "clear":
            if pending is not None:
                exp = "busy"
            else:
                present = {}
                exp = "ok"
        elif op in ("setlimit", "setbounds", "setdim"):
            if pending is not None or (op == "setdim" and present):
                exp = "busy"
            else:
                exp = "ok"
                late = late or bool(present)
                v = list(map(int, tk[1:]))
                if op == "setlimit":
                    limit, overridden = v[0], True
                elif op == "setbounds":
                    lo, up = v[:dim], v[dim:]
                else:
                    dim = v[0]
                    if lo is not None:
                        lo, up = v[1:1 + dim], v[1 + dim:]
                    if not overridden:
                        limit = 2 * dim
        elif op == "obs":
            kv = dict(z.split("=", 1) for z in res.split())
            ids = sorted(present.values())
            lst = lambda v: [] if v == "-" else list(map(int, v.split(",")))
            if lst(kv["cells"]) != ids:
                return (i, "getCoordinates/getCells list cells %s, present are %s" % (kv["cells"], ids))
            if len(lst(kv["content"])) != len(ids):
                return (i, "getContent returned %d values for %d cells" % (len(lst(kv["content"])), len(ids)))
            sp_ = Spec.__new__(Spec)
            sp_.cells = {x: [cid, 0] for x, cid in present.items()}
            part = sp_.partition()
            got = [] if kv["comps"] == "-" else [list(map(int, c.split(","))) for c in kv["comps"].split(";")]
            if got != part or lst(kv["sizes"]) != [len(c) for c in part]:
                return (i, "components %s (sizes %s), the neighbour relation partitions the cells into %s" % (got, kv["sizes"], part))
            if kv["status"] != "%d/%d" % (len(ids), len(part)):
                return (i, "status() reports %s, expected %d cells in %d components" % (kv["status"], len(ids), len(part)))
            exp = res
        if res != exp:
            return (i, "`%s` answered %r, expected %r" % (line, res, exp))
        sec = dump.split(" | ")
        cells = {}
        for tok in sec[0].split()[1:]:
            cid, xs, nb, b, d = tok.split(":")
            cells[tuple(map(int, xs.split(",")))] = (int(cid), int(nb), b == "1")
        if {x: c[0] for x, c in cells.items()} != present:
            return (i, "cells %s, expected the present cells %s" % (sorted(cells), sorted(present)))
        pd = sec[1].split("=", 1)[1]
        if (pd == "-") != (pending is None):
            return (i, "pending cell %r, expected %r" % (pd, pending))
        pcoord = pending[1] if pending is not None else None
        # the count is the number of present neighbours + the boundary sides counted at creation (+ an adjacent created
        # cell); the flag is re-evaluated only when the count moves: up -> it can only turn interior, down -> only border.
        # As long as no setter ran with cells present this is the closed form `border <=> count < limit`, checked as such.
        nflag = {}

        def expect(cid, x, want):
            old = flag.get(cid)
            if old is None:
                b_ = want < limit
            elif want > old[0]:
                b_ = old[1] and want < limit
            elif want < old[0]:
                b_ = old[1] or want < limit
            else:
                b_ = old[1]
            if not late and b_ != (want < limit):
                raise AssertionError("oracle: flag state machine left the closed form without a late setter")
            nflag[cid] = (want, b_)
            return b_
        for x, (cid, nb, b) in cells.items():
            real = sum(1 for y in nb_coords(x) if y in present)
            want = real + bdc[cid] + (1 if (pcoord is not None and pcoord in nb_coords(x)) else 0)
            wb = expect(cid, x, want)
            if nb != want or b != wb:
                return (i, "cell %d at %s reports neighbors=%d border=%d, but it has %d present neighbours, %d boundary sides%s: "
                           "expected neighbors=%d border=%d (interior limit %d)"
                        % (cid, x, nb, b, real, bdc[cid], " and 1 adjacent created-not-yet-added cell" if want != real + bdc[cid] else "",
                           want, wb, limit))
        if pending is not None:
            f = pd.split(":")
            real = sum(1 for y in nb_coords(pcoord) if y in present)
            want = real + bdc[pending[0]]
            wb = expect(pending[0], pcoord, want)
            if int(f[2]) != want or (f[3] == "1") != wb:
                return (i, "created cell at %s reports neighbors=%s border=%s, expected %d / %d" % (pcoord, f[2], f[3], want, wb))
        flag = nflag
        if stats is not None and late:
            stats["gn:ops-after-late-setter"] += 1
    return None


def judge_gridn(ck, hbin, script, tag, pre=None):
    impl, rc, err, model = pre if pre is not None else ck.run_pair(hbin, GN_DRIVER, script)
    impl = impl or []
    ck.traces_validated += 1
    stats = collections.Counter()
    fail = gridn_oracle(script, impl, stats)
    ck.case(("gridn",) + tuple(script), stats["gn:abandoned"] >= 2)
    ck.count("gn:scripts:" + tag)
    if script.count("obs") * 4 > len(script):
        ck.count("gn:scripts-with-observers-around-every-op")
    ck.count("gn:ops", len(script) - 1)
    for k, v in stats.items():
        ck.count(k, v)
    ck.sample({"generator": "gridn:" + tag, "script": script[:8]}, limit=18)
    if rc != 0 and fail is None:
        fail = (len(impl), "harness exited with code %s: %s" % (rc, crash_site(err or "")))
    d = ck.first_diff(impl, model)
    if fail is not None:
        sig = ("gridn", re.sub(r"-?\d+", "N", fail[1])[:60])
        seen = ck.__dict__.setdefault("_c13_sigs", set())
        if sig in seen:
            ck.count("failing-scripts:same-kind-as-reported")
            return None
        seen.add(sig)

        def still(lines):
            s_ = [script[0]] + lines
            o, r_, e_, _m = ck.run_pair(hbin, GN_DRIVER, s_)
            return gridn_oracle(s_, o or []) is not None or r_ != 0
        small = [script[0]] + core.ddmin(script[1:], still)
        o, r_, e_, m = ck.run_pair(hbin, GN_DRIVER, small)
        f = gridn_oracle(small, o or [])
        what = f[1] if f else fail[1]
        ck.report({"engine": "gridn", "what": re.sub(r"\d+", "N", what)[:160]}, script=small, expected=m, observed=o, engine="gridn")
        ck.log("property failure (GridN): %s (script of %d ops after shrinking)" % (what, len(small) - 1))
        return False
    if d is not None:
        ck.disagreements += 1
        seen = ck.__dict__.setdefault("_c13_dis", set())
        if "gridn" in seen:
            return None
        seen.add("gridn")
        ck.report({"engine": "gridn", "what": "model/implementation disagreement"}, script=script, expected=model, observed=impl,
                  found_input=False, engine="gridn",
                  obligation="correspondence gridn: GridN.h vs OmplModel.Model.GridN (first differing line %s)" % d)
        return False
    return True


def build_gridn(ck):
    return ck.build_harness("gridn", ["gridn.cpp"], extra=HARNESS_EXTRA)


# ---------------------------------------------------------------------------------- the check
HARNESS_EXTRA = ["-isystem", "/usr/include/eigen3"]


def build(ck):
    return ck.build_harness("grid", ["grid.cpp"], extra=HARNESS_EXTRA)


def run_script(ck, hbin, script):
    impl, rc, err, model = ck.run_pair(hbin, DRIVER, script)
    return impl or [], rc, err or "", model


def crash_site(err):
    m = re.search(r"(\S+\.h:\d+):\d+: runtime error: ([^\n]*)", err)
    if m:
        return "%s %s" % (os.path.basename(m.group(1)), m.group(2))
    m = re.search(r"ERROR: AddressSanitizer: ([^\n]*)", err)
    if m:
        s = "AddressSanitizer: " + m.group(1)[:80]
        f = re.search(r"#\d+ \S+ in (\S+) (\S+/src/ompl/\S+)", err)
        return s + (" in " + f.group(1) if f else "")
    return "exit"


def judge(ck, hbin, script, tag, pre=None, nseq=1):
    """True if everything is fine for this script.  `pre` = precomputed run_script result."""
    impl, rc, err, model = pre if pre is not None else run_script(ck, hbin, script)
    ck.traces_validated += 1
    stats = {"flip:to-border": 0, "flip:to-interior": 0, "top-of-empty-side(F3 shape)": 0}
    fail = oracle(script, impl, stats)
    flips = stats["flip:to-border"] + stats["flip:to-interior"]
    mcs = stats.pop("max-class-size", 0)
    ck.case(tuple(script), (stats["flip:to-border"] > 0 and stats["flip:to-interior"] > 0) or mcs >= 9)
    ck.count("scripts:" + tag, nseq)
    ck.count("ops", len(script) - 1)
    if mcs >= 9:
        ck.count("drain-from-a-queue-of>=9-cells")
    for k, v in stats.items():
        ck.count(k, v)
    hdr = Header(script[0])
    ck.count("dim:%d" % hdr.dim)
    ck.count("bounds:" + ("none" if hdr.lo is None else ("degenerate" if any(a == b for a, b in zip(hdr.lo, hdr.up)) else "box")))
    ck.count("ev:" + hdr.ev)
    for ln, o in zip(script[1:], impl):
        op = ln.split()[0]
        ck.count("op:" + op)
        r = o.partition(" | ")[0]
        if op in ("new", "rm", "upd", "create", "addc", "abandon", "clear", "rmtopi", "rmtope") and \
                r in ("present", "absent", "busy", "nopending"):
            ck.count("op:%s->%s" % (op, r))
        if o == "bad-op":
            ck.count("adversarial:malformed-line")
        if op in ("new", "rm", "has", "nb") and any(abs(int(z)) > 1 << 29 for z in ln.split()[1:1 + hdr.dim] if re.fullmatch(r"-?\d+", z)):
            ck.count("adversarial:far-coordinate")
    ck.sample({"generator": tag, "flips": flips,
               "script": script[:10] + (["…(%d more lines)" % (len(script) - 10)] if len(script) > 10 else [])})
    if rc != 0 and fail is None:
        fail = (len(impl), "harness exited with code %s: %s" % (rc, crash_site(err)))
    d = ck.first_diff(impl, model)
    if fail is None and d is not None:
        # targeted search: model and code disagree at line d although the oracle is satisfied (typically a heap
        # laid out differently).  Aim: the first state at or after d whose queue *array* is not heap-ordered under the
        # functor (a child better than its parent -- not a property failure by itself).  From that state, keep the
        # offending pair, remove random subsets of the other cells and drain by repeated removal of the reported
        # top; the oracle checks after every removal that both tops are best cells of their class.  Without such a
        # state: plain drains (best-first, random order, mixed) from the disagreeing state.
        ltE, ltI = lt_of(hdr.cmpe), lt_of(hdr.cmpi)
        aim = None
        for q in range(d, min(len(impl), len(script) - 1)):
            try:
                D = parse_dump(impl[q].partition(" | ")[2], hdr.dim)
            except Exception:   # noqa
                continue
            for qn, arr, lt in (("e", D["E"], ltE), ("i", D["I"], ltI)):
                for j in range(1, len(arr)):
                    if arr[j] in D["cells"] and arr[(j - 1) // 2] in D["cells"] and \
                            lt(D["cells"][arr[j]][3], D["cells"][arr[(j - 1) // 2]][3]):
                        aim = (q, qn, arr, {arr[j], arr[(j - 1) // 2]}, D)
                        break
                if aim:
                    break
            if aim:
                break
        budget = ck.__dict__.setdefault("_c13_search_budget", {"aimed": 10 if ck.tier == "quick" else 60,
                                                                "plain": 4 if ck.tier == "quick" else 30})
        kind = "aimed" if aim else "plain"
        r = ck.rng.fork("search%d" % ck.traces_validated)
        conts = []
        if budget[kind] <= 0:
            ck.count("search:skipped-budget-exhausted")
        elif aim:
            budget[kind] -= 1
            ck.count("search:aimed-at-a-disordered-queue-array")
            q, qn, arr, keep, D = aim
            others = [c for c in arr if c not in keep]
            for attempt in range(48):
                sub = [c for c in others if r.chance(attempt % 4, 4)] if attempt else []
                r.shuffle(sub)
                cont = ["abandon"] + ["rm " + " ".join(map(str, D["cells"][c][0])) for c in sub]
                cont += ["rmtop" + qn] * (len(arr) - len(sub) + 1) + ["topi", "tope"]
                conts.append(script[:q + 2] + cont)
        else:
            budget[kind] -= 1
            pres = []
            try:
                pres = [c[0] for c in parse_dump(impl[d].partition(" | ")[2], hdr.dim)["cells"].values()]
            except Exception:   # noqa
                pass
            for attempt in range(16):
                cont = ["abandon"]      # leave the create..add window, if the disagreeing state is inside one
                cs = list(pres)
                r.shuffle(cs)
                mode = attempt % 4       # 0 best-first, 1 random order, 2 mixed, 3 mixed + updates
                for k in range(len(cs) + 2):
                    z = r.below(100)
                    if mode == 0 or (mode >= 2 and z < 50):
                        cont.append(r.choice(["rmtope", "rmtopi"]) if mode else ("rmtope" if attempt % 8 < 4 else "rmtopi"))
                    elif cs:
                        xs = " ".join(map(str, cs.pop()))
                        if mode == 3 and z >= 90:
                            cont.append("upd %s %d" % (xs, r.below(4096)))
                        else:
                            cont += ["rm " + xs, r.choice(["topi", "tope"])]
                conts.append(script[:d + 2] + cont + ["topi", "tope"])
        for s2 in conts:
            impl2, rc2, err2, model2 = run_script(ck, hbin, s2)
            ck.count("search:continuations-tried")
            f2 = oracle(s2, impl2)
            if f2 is not None or rc2 != 0:
                script, impl, rc, err, model = s2, impl2, rc2, err2, model2
                fail = f2 or (len(impl2), "harness exited with code %s: %s" % (rc2, crash_site(err2)))
                ck.count("search:continuation-found-failure(%s)" % kind)
                break
    if fail is not None:
        # one replay per kind of failure: a second script failing in the same way (same message up to numbers,
        # same crash site) is counted, not shrunk and reported again
        sig = (re.sub(r"\d+", "N", fail[1])[:80], crash_site(err) if rc != 0 else None)
        seen = ck.__dict__.setdefault("_c13_sigs", set())
        if sig in seen:
            ck.count("failing-scripts:same-kind-as-reported")
            return None
        seen.add(sig)

        def still(lines):
            s = [script[0]] + lines
            o, r_, e_, _m = run_script(ck, hbin, s)
            return oracle(s, o) is not None or r_ != 0
        small = [script[0]] + core.ddmin(script[1:], still)
        o, r_, e_, m = run_script(ck, hbin, small)
        f = oracle(small, o)
        what = f[1] if f else fail[1]
        lastop = small[min(len(o), len(small) - 2) + 1].split()[0] if r_ != 0 and len(small) > 1 else (small[f[0] + 1].split()[0] if f else "?")
        rec = {"engine": "grid", "what": re.sub(r"\d+", "N", what)[:160], "op": lastop,
               "crash": crash_site(e_) if r_ != 0 else None}
        ck.report(rec, script=small, expected=m, observed=o + ([("stderr: " + crash_site(e_))] if r_ != 0 else []), engine="grid")
        ck.log("property failure: %s (script of %d ops after shrinking)" % (what, len(small) - 1))
        return False
    if d is not None:
        ck.disagreements += 1
        # one broken-correspondence report per differing operation kind; the others are counted
        dop = script[d + 1].split()[0] if d + 1 < len(script) else "?"
        seen = ck.__dict__.setdefault("_c13_dis", set())
        if dop in seen:
            ck.count("disagreeing-scripts:same-op-as-reported")
            return None
        seen.add(dop)

        def still(lines):
            s = [script[0]] + lines
            o, r_, e_, m = run_script(ck, hbin, s)
            return ck.first_diff(o, m) is not None
        small = [script[0]] + core.ddmin(script[1:], still)
        o, r_, e_, m = run_script(ck, hbin, small)
        ck.report({"engine": "grid", "what": "model/implementation disagreement"}, script=small, expected=m, observed=o,
                  found_input=False, engine="grid",
                  obligation="correspondence grid: Grid.h/GridN.h/GridB.h vs OmplModel.Model.Grid (first differing line %s)"
                             % ck.first_diff(o, m))
        ck.log("correspondence disagreement at line %d; no property failure found by the continuation search" % d)
        return False
    return True


def corpus():
    d = os.path.join(core.VERIF, "corpus", "C13")
    out = []
    if os.path.isdir(d):
        for f in sorted(os.listdir(d)):
            if f.endswith(".txt"):
                out.append((f, [l.rstrip("\n") for l in open(os.path.join(d, f)) if l.strip() and not l.startswith("#")]))
    return out


def setup(ck):
    build(ck)
    build_disc(ck)
    build_kpiece(ck)
    build_lbkpiece(ck)
    build_gridn(ck)
    build_ckpiece(ck)


EXH_CFGS = [
    ("grid dim=1 limit=default cmpe=less cmpi=less ev=none nobounds", [(0,), (1,), (2,)]),
    ("grid dim=1 limit=1 cmpe=greater cmpi=mod16 ev=lo bounds 0 2", [(0,), (1,), (2,)]),
    ("grid dim=2 limit=2 cmpe=less cmpi=greater ev=hi bounds 0 0 1 1", [(0, 0), (0, 1), (1, 0), (1, 1)]),
    ("grid dim=1 limit=1 cmpe=less cmpi=greater ev=lo nobounds #split", [(0,), (1,)]),
    ("grid dim=2 limit=3 cmpe=greater cmpi=less ev=hi bounds 0 0 1 1 #split", [(0, 0), (0, 1)]),
]


def run(ck):
    ck.rule = ("scripts of grid operations following the user protocol of KPIECE's Discretization (corpus; random mixes over "
               "dimensions 1-4, all four functors, three update events, bounds none/box/degenerate, limits 1..2*dim+1; "
               "centre-and-arms flip sequences; dense bounded boxes; exhaustive short sequences in the thorough tier). "
               "bulk-rekey: 9..40 cells in one queue, data rewritten without update, updateAll, then a drain by top/random removals. "
               "split-protocol (round 10): createCell WITHOUT add around a centre cell, then add or remove + destroyCell of the "
               "never-added cell, update/updateAll/tops inside the window, refused calls inside the window, scripts ending inside it; "
               "half of the random mixes and two exhaustive alphabets use it too. "
               "A script is non-trivial if some cell flips border->interior and some cell flips interior->border in it, or if it "
               "removes the reported top from a queue of >= 9 cells; "
               "distinct by script text")
    ck.trusted += ["harness/grid.cpp opens `private`/`protected` of GridB.h/BinaryHeap.h for its own translation unit to read "
                   "internal_, external_ and vector_; all operations go through the public API",
                   "model abstractions: association list for hash_, heap keys are copies of the cell data, stable sort of components",
                   "the C11 heap model (OmplModel.Model.Heap) is reused for the two queues"]
    ck.assumptions += ["user protocol: createCell only for an absent coordinate and followed by add or by remove + destroyCell of that "
                       "cell, one created-but-not-added cell at a time, no createCell/remove of another cell/clear inside that window; "
                       "remove only for a present cell; "
                       "bounds and limit set on an empty grid; cell data changes only in the update event or right before update()/updateAll()",
                       "coordinates within +-2^30 (coord+-1 cannot overflow int); interior limit >= 1",
                       "the ordering functors are strict weak orders; the update event is a function of (data, neighbors)",
                       "topInternal()/topExternal() on an empty grid are outside the contract and not called"]
    ck.rule += ("; engine 2 (Discretization): scripts of addMotion / selectMotion (reseeded rng_) / score+updateCell / "
                "removeMotion / countIteration / setBorderFraction / clear / getPlannerData over dimensions 0-3 (random mixes and "
                "KPIECE-like churn); non-trivial if it selects >= 3 times and removes >= 2 stored motions")
    ck.trusted += ["harness/discretization.cpp opens `private`/`protected` of Discretization.h/GridB.h/BinaryHeap.h for its own translation "
                   "unit (grid_, heaps, size_, iteration_, rng_); rng_ is reseeded with setLocalSeed(seed) before each selectMotion",
                   "the model side replays the two draws of selectMotion with the RNG model of C20 (OmplModel.Model.Rng); the oracle "
                   "recomputes uniform01 with its own mt19937",
                   "Discretization model: cell->data as a table by coordinate; the importance field is the grid cell's data (IEEE bits)"]
    ck.assumptions += ["Discretization: a Motion* is added once; coordinates have `dim` entries; selectMotion is not called on an empty "
                       "discretization; the score is changed only right before updateCell(); importances are not NaN (the functor is "
                       "then a strict weak order)"]
    ck.rule += ("; engine 3 (KPIECE1): planning problems on R^2 / R^3 box environments (valid, out-of-bounds and in-obstacle starts, "
                "goal bias 0..1, border fraction, failed-expansion factor, minValidPathFraction 0.05..1, 0-200 iterations); non-trivial "
                "if the run both keeps a partially valid motion (lastValid) and rejects a motion")
    ck.trusted += ["harness/kpiece.cpp: recording wrappers around the space's default sampler, the GoalState and DiscreteMotionValidator; "
                   "opened `private` of KPIECE1.h (disc_, rng_); the planner's rng_ and disc_.rng_ are reseeded before solve(); in R^3 an "
                   "orthogonal projection on the first two components (extent/20 cells) replaces the random default projection",
                   "KPIECE1 model side: the recorded oracle answers are replayed; both random streams are recomputed with the RNG model of C20; "
                   "the oracle recomputes DiscreteMotionValidator's three-argument answer, the projection coordinates and goal distances itself"]
    ck.assumptions += ["KPIECE1: GoalSampleableRegion goal (GoalState); iteration-count termination condition (one evaluation per loop turn)"]
    ck.rule += ("; engine 4 (LBKPIECE1): planning problems on R^2 / R^3 box environments with 1-3 starts and 1-3 goal states (some "
                "invalid), minValidPathFraction 0.05..1, 0-400 iterations; non-trivial if some iteration removes motions (a lazily "
                "validated edge failed and its subtree left the discretization)")
    ck.trusted += ["harness/lbkpiece.cpp: RealVectorStateSpace subclass logging allocState/freeState (motion identity, free events), "
                   "ProjectionEvaluator subclass (components 0,1, extent/20 cells) whose project() is the creation event of a motion, "
                   "recording sampler / GoalStates / DiscreteMotionValidator wrappers; opened `private` of LBKPIECE1.h; dStart_.rng_, "
                   "dGoal_.rng_ and rng_ reseeded before solve(); termination condition counts loop-head evaluations"]
    ck.assumptions += ["LBKPIECE1: the termination condition does not fire inside pis_.nextGoal(ptc) while goal samples remain"]
    ck.rule += ("; engine 5 (plain GridN, split protocol): createCell, then add -- or remove + destroyCell WITHOUT add (a tentative "
                "cell given back, also repeatedly at the same coordinate) --, removals of present cells, dimensions 1-3, bounds, limits; "
                "non-trivial if at least two created cells are abandoned")
    ck.assumptions += ["GridN split protocol: one created-but-not-added cell at a time; createCell for an absent coordinate; remove of a "
                       "cell of the grid only while no cell is pending"]
    ck.lean_build(LEAN_TARGETS)
    ck.audit(roots=["Drv.Grid", "Drv.Discretization", "Drv.KPIECE1", "Drv.LBKPIECE1", "Drv.GridN"])
    if ck.tier == "thorough" and ck.lean_ok:
        ck.leanchecker(["OmplModel.Props.C13"])
    hbin = build(ck)
    dbin = build_disc(ck)
    quick = ck.tier == "quick"
    allcorpus = corpus()
    jobs = [(name, script, "corpus", 1) for name, script in allcorpus if script[0].startswith("grid ")]
    djobs = [(name, script, "corpus") for name, script in allcorpus if script[0].startswith("disc") and not script[0].endswith("variant=control")]
    ndisc, nchurn = (140, 60) if quick else (1500, 600)
    for i in range(ndisc):
        r = ck.rng.fork("disc%d" % i)
        djobs.append(("disc%d" % i, gen_disc(r, r.choice([15, 40, 100, 200])), "random"))
    for i in range(nchurn):
        djobs.append(("churn%d" % i, gen_disc_churn(ck.rng.fork("churn%d" % i)), "kpiece-like-churn"))
    nrand, nflip, ndense, nbulk = (220, 90, 60, 160) if quick else (2500, 900, 500, 2500)
    for i in range(nbulk):
        jobs.append(("bulk%d" % i, gen_bulk_rekey(ck.rng.fork("bulk%d" % i)), "bulk-rekey", 1))
    for i in range(nrand):
        r = ck.rng.fork("rand%d" % i)
        jobs.append(("rand%d" % i, gen_random(r, r.choice([12, 40, 120, 300])), "random", 1))
    for i in range(nflip):
        jobs.append(("flip%d" % i, gen_flip(ck.rng.fork("flip%d" % i)), "flip", 1))
    for i in range(ndense):
        jobs.append(("dense%d" % i, gen_dense(ck.rng.fork("dense%d" % i)), "dense", 1))
    for i in range(110 if quick else 1200):
        jobs.append(("split%d" % i, gen_split(ck.rng.fork("split%d" % i)), "split-protocol", 1))
    nexh = 0
    for L in ((1, 2) if quick else (1, 2, 3, 4)):
        for batch, k in gen_exhaustive_batches(L, EXH_CFGS if (quick or L < 4) else EXH_CFGS[:2] + EXH_CFGS[3:]):
            jobs.append(("exh%d" % L, batch, "exhaustive-len%d" % L, k))
            nexh += k
    ck.extra_cov["exhaustive_sequences"] = nexh
    bad = 0
    with concurrent.futures.ThreadPoolExecutor(max_workers=min(16, (os.cpu_count() or 4))) as ex:
        chunk = 64
        for a in range(0, len(jobs), chunk):
            if bad >= 3:
                break
            part = jobs[a:a + chunk]
            pres = list(ex.map(lambda j: run_script(ck, hbin, j[1]), part))
            for (name, script, tag, k), pre in zip(part, pres):
                if bad >= 3:
                    break
                if judge(ck, hbin, script, tag, pre, k) is False:
                    bad += 1
        # ---- engine 5: plain GridN with the split protocol (createCell / add / remove-without-add / remove)
        gbin = build_gridn(ck)
        gjobs = [(name, script, "corpus") for name, script in allcorpus if script[0].startswith("gridn")]
        for i in range(120 if quick else 1500):
            r = ck.rng.fork("gridn%d" % i)
            gjobs.append(("gridn%d" % i, gen_gridn(r, r.choice([6, 20, 60])), "random"))
        bad = 0
        for a in range(0, len(gjobs), chunk):
            if bad >= 3:
                break
            part = gjobs[a:a + chunk]
            pres = list(ex.map(lambda j: ck.run_pair(gbin, GN_DRIVER, j[1]), part))
            for (name, script, tag), pre in zip(part, pres):
                if bad >= 3:
                    break
                if judge_gridn(ck, gbin, script, tag, pre) is False:
                    bad += 1
        # ---- engine 2: the real Discretization<Motion> against its model
        bad = 0
        for a in range(0, len(djobs), chunk):
            if bad >= 3:
                break
            part = djobs[a:a + chunk]
            pres = list(ex.map(lambda j: run_disc(ck, dbin, j[1]), part))
            for (name, script, tag), pre in zip(part, pres):
                if bad >= 3:
                    break
                if judge_disc(ck, dbin, script, tag, pre) is False:
                    bad += 1
        # ---- engine 2b: the copy of the Discretization code inside control::KPIECE1 (anchored KPIECE1.h)
        cbin = build_ckpiece(ck)
        cjobs = [(name, script, "corpus") for name, script in allcorpus if script[0].startswith("disc") and script[0].endswith("variant=control")]
        for i in range(70 if quick else 700):
            r = ck.rng.fork("cdisc%d" % i)
            cjobs.append(("cdisc%d" % i, gen_cdisc(r, r.choice([15, 40, 100])), "control-kpiece"))
        bad = 0
        for a in range(0, len(cjobs), chunk):
            if bad >= 3:
                break
            part = cjobs[a:a + chunk]
            pres = list(ex.map(lambda j: run_disc(ck, cbin, j[1]), part))
            for (name, script, tag), pre in zip(part, pres):
                if bad >= 3:
                    break
                if judge_disc(ck, cbin, script, tag, pre) is False:
                    bad += 1
        # ---- engine 3: the real KPIECE1 against its model
        kbin = build_kpiece(ck)
        kjobs = []
        cdir = os.path.join(core.VERIF, "corpus", "C13")
        for fn in sorted(os.listdir(cdir)) if os.path.isdir(cdir) else []:
            if fn.startswith("kpiece-") and fn.endswith(".json"):
                kjobs.append((json.load(open(os.path.join(cdir, fn))), "corpus"))
        for i in range(110 if quick else 1100):
            kjobs.append((gen_kpiece(ck.rng.fork("kpiece%d" % i)), "random"))
        bad = 0
        for a in range(0, len(kjobs), chunk):
            if bad >= 3:
                break
            part = kjobs[a:a + chunk]
            pres = list(ex.map(lambda j: run_kpiece(ck, kbin, j[0]), part))
            for (p_, tag), pre in zip(part, pres):
                if bad >= 3:
                    break
                if judge_kpiece(ck, kbin, p_, tag, pre) is False:
                    bad += 1
        # ---- engine 4: the real LBKPIECE1 against its model
        lbin = build_lbkpiece(ck)
        ljobs = []
        for fn in sorted(os.listdir(cdir)) if os.path.isdir(cdir) else []:
            if fn.startswith("lbkpiece-") and fn.endswith(".json"):
                ljobs.append((json.load(open(os.path.join(cdir, fn))), "corpus"))
        for i in range(70 if quick else 700):
            ljobs.append((gen_lbkpiece(ck.rng.fork("lbkpiece%d" % i)), "random"))
        bad = 0
        for a in range(0, len(ljobs), chunk):
            if bad >= 3:
                break
            part = ljobs[a:a + chunk]
            pres = list(ex.map(lambda j: run_lbkpiece(ck, lbin, j[0]), part))
            for (p_, tag), pre in zip(part, pres):
                if bad >= 3:
                    break
                if judge_lbkpiece(ck, lbin, p_, tag, pre) is False:
                    bad += 1
    return 0


def replay(ck, data):
    if data["script"][0].startswith("#lbkpiece-problem "):
        p = json.loads(data["script"][0][len("#lbkpiece-problem "):])
        hbin = build_lbkpiece(ck)
        ck.lean_build([LB_DRIVER])
        out, rc, err, R, model = run_lbkpiece(ck, hbin, p)
        for ln in out[-8:]:
            print(ln[:400])
        if rc != 0 or R["final"] is None:
            print("harness exit code %s: %s" % (rc, crash_site(err)))
            return 1
        fail = lbkpiece_oracle(p, R)
        if fail:
            print("PROPERTY FAILS at iteration %d: %s" % fail)
            return 1
        d = lb_compare(R, model)
        if d is not None:
            print("model and implementation disagree at line %d\n impl:  %s\n model: %s" % (d[0], d[1][:600], d[2][:600]))
            return 1
        print("no failure on the current tree")
        return 0
    if data["script"][0].startswith("#kpiece-problem "):
        p = json.loads(data["script"][0][len("#kpiece-problem "):])
        hbin = build_kpiece(ck)
        ck.lean_build([KP_DRIVER])
        out, rc, err, R, model = run_kpiece(ck, hbin, p)
        for ln in out:
            print(ln[:300])
        if rc != 0 or R["final"] is None:
            print("harness exit code %s: %s" % (rc, crash_site(err)))
            return 1
        fail = kpiece_oracle(p, R)
        if fail:
            print("PROPERTY FAILS at iteration %d: %s" % fail)
            return 1
        d = kp_compare(R, model)
        if d is not None:
            print("model and implementation disagree at line %d\n impl:  %s\n model: %s" % (d[0], d[1][:400], d[2][:400]))
            return 1
        print("no failure on the current tree")
        return 0
    if data["script"][0].startswith("gridn"):
        hbin = build_gridn(ck)
        ck.lean_build([GN_DRIVER])
        script = data["script"]
        impl, rc, err, model = ck.run_pair(hbin, GN_DRIVER, script)
        impl = impl or []
        fail = gridn_oracle(script, impl)
        d = ck.first_diff(impl, model)
        for i, ln in enumerate(script[1:]):
            print("%-22s impl:  %s" % (ln, impl[i] if i < len(impl) else "<missing>"))
            if i < len(model) and (i >= len(impl) or impl[i] != model[i]):
                print("%-22s model: %s" % ("", model[i]))
        if fail:
            print("PROPERTY FAILS at op %d: %s" % fail)
            return 1
        if rc != 0 or d is not None:
            print("model and implementation disagree at line %s" % d)
            return 1
        print("no failure on the current tree")
        return 0
    if data["script"][0].startswith("disc"):
        # the control variant is served by the harness around the real control::KPIECE1
        hbin = build_ckpiece(ck) if data["script"][0].endswith("variant=control") else build_disc(ck)
        ck.lean_build([DISC_DRIVER])
        script = data["script"]
        impl, rc, err, model = run_disc(ck, hbin, script)
        fail = disc_oracle(script, impl)
        d = ck.first_diff(impl, model)
        for i, ln in enumerate(script[1:]):
            print("%-28s impl:  %s" % (ln, impl[i] if i < len(impl) else "<missing>"))
            if i < len(model) and (i >= len(impl) or impl[i] != model[i]):
                print("%-28s model: %s" % ("", model[i]))
        if rc != 0:
            print("harness exit code %s: %s" % (rc, crash_site(err)))
        if fail:
            print("PROPERTY FAILS at op %d: %s" % fail)
            return 1
        if rc != 0 or d is not None:
            print("model and implementation disagree at line %s" % d)
            return 1
        print("no failure on the current tree")
        return 0
    hbin = build(ck)
    ck.lean_build([DRIVER])
    script = data["script"]
    impl, rc, err, model = run_script(ck, hbin, script)
    fail = oracle(script, impl)
    d = ck.first_diff(impl, model)
    for i, ln in enumerate(script[1:]):
        print("%-28s impl:  %s" % (ln, impl[i] if i < len(impl) else "<missing>"))
        if i < len(model) and (i >= len(impl) or impl[i] != model[i]):
            print("%-28s model: %s" % ("", model[i]))
    if rc != 0:
        print("harness exit code %s: %s" % (rc, crash_site(err)))
        print("\n".join(err.splitlines()[:8]))
    if fail:
        print("PROPERTY FAILS at op %d: %s" % fail)
        return 1
    if rc != 0:
        return 1
    if d is not None:
        print("model and implementation disagree at line %d (no property failure in this script)" % d)
        return 1
    print("no failure on the current tree")
    return 0


MANIFEST = {
    "engine": "grid",
    "category": "proof",
    "design_ref": "DESIGN.md 2.13",
    "text": "Lean 4 theorems over an executable model of Grid/GridN/GridB (lookups find exactly the present cells; neighbours are "
            "exactly the present cells one step away in one dimension, each once, symmetric; components() is the partition by the "
            "reflexive-transitive closure, sorted by size; count = present neighbours + boundary dimensions and border <-> count < "
            "limit, every cell in exactly one of the two queues, external iff border, counts sum to size - for every protocol "
            "history by induction over the operation list, every dimension, bounds, limit, functor and update event), tied to the "
            "headers by line-by-line differential runs of the real GridB<int,..> against the compiled model, plus an oracle that "
            "recomputes everything from the abstract set of present cells on the implementation's own outputs. Round 2: the main user "
            "of GridB, Discretization<Motion> (KPIECE), is modelled on top of the grid model; theorems for every history of its "
            "operations (it obeys the grid protocol; every stored motion sits in exactly the cell of its coordinate; no empty cell "
            "stays; the GridB invariants and tops-are-best hold throughout; selectMotion returns a stored motion and reaches the top "
            "of an empty queue only through the repaired topInternal fallback); the real template is driven in lock-step "
            "(bit-exact doubles, heap layouts) with a bookkeeping oracle. Round 3: geometric::KPIECE1::solve modelled on top of it "
            "(tree invariant with the lastValid edge justification, real solutions only, KPIECE1 obeys the Discretization protocol, "
            "selectMotion never meets an empty discretization, for every script and interruption point); the real planner runs in "
            "lock-step on R^2/R^3 box environments (full tree, cell table, path, status) with an oracle that recomputes the validator. "
            "Rounds 4-5: geometric::LBKPIECE1::solve (lazy bidirectional; the user of Discretization::removeMotion) modelled on the same "
            "discretization model; proved for every script: the valid flag is sound, isPathValid is complete for the chain it accepts, "
            "the reported path is real (every edge answered valid by checkMotion or a re-added lastValid state; valid start to valid goal "
            "sample), and the Discretization invariants hold for BOTH trees across removeMotion of whole subtrees and re-adds; that "
            "every reachable arena is a forest in its children lists and removeMotion removes exactly the motion and its descendants, each "
            "freed once and none twice (lbkpiece_forest, lbkpiece_remove_subtree, lbkpiece_remove_call_site). "
            "Plain GridN with the split protocol its API documents (createCell updates the neighbours at once; remove on a never-added "
            "cell undoes it) is modelled separately (GridB overrides these functions): gridN_counts_exact for every history incl. "
            "create->remove->destroy without add, lock-step of the real GridN<int>, brute-force neighbour-count oracle; the same engine "
            "drives the Grid base observers (has/getCell/neighbors/getContent/getCoordinates/getCells/components/status/clear), dimensions "
            "1-5 and the setters AFTER first use (setInteriorCellNeighborLimit, setBounds, setDimension on the emptied grid) as coded. "
            "control::KPIECE1's own copy of the discretization (coverage by motion->steps, 1e-3 score offset, border fraction without "
            "range check) is an instance of the same model (add generalised by weight/offset; all Discretization theorems cover it) and "
            "the real control::KPIECE1 members are driven in lock-step with the bookkeeping oracle. "
            "Round 10: GridB with the SPLIT protocol of the property text (createCell ... add, or remove + destroyCell of the never-added "
            "cell; update/updateAll inside the window) is inside the model, built from the same loop bodies as the fused step "
            "(newCell = addCellB o createCell by rfl; gridB_split_refines); for every split history: the hash table holds exactly the "
            "coordinates of the abstract history (gridB_split_cells_exact), counters = present neighbours + boundary dimensions + the "
            "pending cell if adjacent, border iff below the limit, each grid cell in exactly one queue and the pending cell in none "
            "(gridB_split_inv), remove of a never-added cell answers false and restores every counter and flag "
            "(gridB_split_abandon_false, gridB_split_create_abandon_restores), tops are best cells inside the window too "
            "(gridB_split_tops_best), and every cell's data is the update event's output for its current counter and flag "
            "(gridB_keys_fresh, any event); components() as coded partitions every reachable split state "
            "(gridB_split_components); and for every Discretization history each cell's queue key is computeImportance of its "
            "current score, coverage and neighbour counter with a selection count at most the current one (disc_importance_fresh).",
    "note": "Trusted: Lean kernel, the three standard axioms, the hand-written model outside the scripts the correspondence explored, "
            "the harness, the reused C11 heap model. Histories follow the user protocol of KPIECE's Discretization; tops-are-minima "
            "is checked by the oracle and the correspondence (the heap-order theorems belong to C11).",
    "technique": "Lean 4 proof (invariants by induction over protocol steps, BFS correctness) + differential correspondence + spec oracle",
}
