"""C10 — nearest-neighbour structures answer exactly like exhaustive search.

Obligations: theorems of lean/OmplModel/Props/C10.lean (kernel-checked, audited).
Correspondence:
  * Linear / SqrtApprox: the real templates (harness/nn.cpp, compiled from /repo/src) vs the Lean
    model (drv_nn) in lock-step on the same operation histories, line by line (size, list order,
    nearest element, k-nearest / radius distance lists).
  * both GNAT variants: *state injection*.  The harness dumps the real (protected) tree after every
    operation; the Lean driver re-reads each dump, evaluates `Node.inv` (the hypothesis `GnatInv` of
    nearestK_exact / nearestR_exact) on it, lists its live elements with the model's `list`, and runs the
    **model's** nearestK / nearestR / nearest code on the dumped tree; the answers must equal what
    the real code returned on that same tree.  Every add / addv / rm / clear is also re-executed by the
    **model's** operation (Model/NNGnatOps.lean) from the previous dump with the k-centers draws the real
    operation made; the model's resulting dump must equal the real one token for token.
Generator classes: random mixes; remove-then-clear-then-refill (run with the ASan quarantine off so that freed
leaf buffers are reused, see REUSE_ENV).  A model/implementation disagreement aims a targeted search
(disagreement_probes) for an observable failure before it is reported as `no-failing-input-found`.
The harness reuses ONE result vector for all nearestK / nearestR calls (pre-filled with the previous answer or with
sentinels), and scripts visit the early-out states (k = 0, empty structure) right after full answers.
Callers: the real tools::SelfConfig::getDefaultNearestNeighbors (harness/nn_default.cpp, libompl) on spaces x planners
vs the model defaultNN (default_selection); every kind=gnat history is also run through kind=gnatnts with the same
seed and the two real variants must agree on results, size and list (variants_agree).
Spec oracle (Python, on the implementation's output only, independent of the model): abstract
multiset, size and list after *every* operation, brute-force distance lists for every query, answers
are sub-multisets of the current contents, sorted; an independent GnatInv checker on every dump.
Element identities among equal distances are never compared (ties are broken by addresses).
Round 10: GreedyKCenters::kcenters called directly (`kc`, judge_kc: contract oracle + the model with its matrix,
Model/NNKCenters.lean); boundary parameters (gen_boundary_params); parameters outside ParamsOK (degree / minDegree = 0,
finding F400) are judged by the oracle alone.
"""
import collections
import concurrent.futures
import os
import struct
import zlib

from lib import core

DRIVER = "drv_nn"
LEAN_TARGETS = ["OmplModel.Props.C10", DRIVER]
ENGINE = "nn"
UTIL = ["RandomNumbers.cpp", "Console.cpp", "ProlateHyperspheroid.cpp", "GeometricEquations.cpp"]
TABLE6 = [[0, 1, 3, 4, 3, 2], [1, 0, 2, 3, 2, 3], [3, 2, 0, 1, 4, 5],
          [4, 3, 1, 0, 3, 4], [3, 2, 4, 3, 0, 1], [2, 3, 5, 4, 1, 0]]
METRICS = {
    "abs1": (1, lambda a, b: abs(a[0] - b[0])),
    "l1": (2, lambda a, b: abs(a[0] - b[0]) + abs(a[1] - b[1])),
    "linf": (2, lambda a, b: max(abs(a[0] - b[0]), abs(a[1] - b[1]))),
    "table6": (1, lambda a, b: TABLE6[a[0]][b[0]]),
    "abs3": (1, lambda a, b: (abs(a[0] - b[0]) + 2) // 3),       # ceil(|a-b|/3): a metric with many exact ties
}
SWITCH = {"abs1": "abs3", "abs3": "abs1", "l1": "linf", "linf": "l1"}     # what `setdist` may switch to
KINDS = ["linear", "sqrt", "gnat", "gnatnts"]
HUGE = 10 ** 9
SENTINEL = (987654321, 987654321)     # what harness/nn.cpp pre-fills the reused result vector with


def build(ck):
    srcs = ["nn.cpp"] + [os.path.join(core.REPO, "src", "ompl", "util", "src", f) for f in UTIL]
    return ck.build_harness("nn", srcs, extra=["-I/usr/include/eigen3", "-lpthread"])


# ---------------------------------------------------------------------------------- generators
def header(kind, metric, prm=None):
    h = "nn kind=%s metric=%s" % (kind, metric)
    if kind.startswith("gnat"):
        h += " deg=%d min=%d max=%d leaf=%d cache=%d rebal=%d seed=%d" % (
            prm["deg"], prm["min"], prm["max"], prm["leaf"], prm["cache"], prm["rebal"], prm["seed"])
    return h


def parse_header(h):
    kv = dict(t.split("=") for t in h.split()[1:])
    return kv


def realloc_prone(kv):
    """parameterisations in which a leaf can outgrow its reserved capacity (leaf+1) without being
    split, i.e. some node degree can reach leaf+1 (finding F16)."""
    if not kv["kind"].startswith("gnat"):
        return False
    deg, mx, leaf, cache = int(kv["deg"]), int(kv["max"]), int(kv["leaf"]), int(kv["cache"])
    return max(deg, mx) >= leaf + 1 and cache >= 2


def gen_boundary_params(rng):
    """the smallest parameters the constructor accepts without leaving defined behaviour (degree, minDegree >= 1):
    degree 1 (chain trees: every split has one child), minDegree 1, maxDegree below degree, leaf size 0 (split as soon
    as a leaf holds more than `degree_` elements; with rebalancing rebuildSize_ = 0, so every overflow rebuilds),
    removal cache 0 / 1 (every removal rebuilds)."""
    return {"deg": rng.choice([1, 1, 2, 3]), "min": rng.choice([1, 1, 2]), "max": rng.choice([1, 2, 3]),
            "leaf": rng.choice([0, 0, 1, 2]), "cache": rng.choice([0, 1, 2, 5]), "rebal": rng.below(2), "seed": rng.below(1000)}


def old_ctor():
    """does the tree under test have the GNAT constructor of before /repo 77efe5ce5 (repair of F400: degrees clamped to
    >= 1)?  Decided from its source; the model then runs `Gnat.initOld` (header `ctor=old`)."""
    try:
        src = open(os.path.join(core.REPO, "src", "ompl", "datastructures", "NearestNeighborsGNAT.h")).read()
    except OSError:
        return False
    return "degree_(std::max(degree, 1u))" not in src


def with_ctor(script):
    """append `ctor=old` to the header of a GNAT script when the tree under test has the old constructor."""
    if script and script[0].split()[1:2] and "kind=gnat" in script[0] and "ctor=" not in script[0] and old_ctor():
        return [script[0] + " ctor=old"] + script[1:]
    return script


def degenerate(kv):
    """degree or minDegree 0 under the OLD constructor (outside ParamsOK, finding F400): the model says nothing there, the
    oracle alone judges.  With the repaired constructor every argument vector is inside the model (lock-step)."""
    return kv["kind"].startswith("gnat") and kv.get("ctor") == "old" and min(int(kv["deg"]), int(kv["min"])) == 0


def gen_degenerate(rng, kind, metric, dname):
    """constructor arguments with degree = 0 or minDegree = 0 (accepted silently): adds, then queries (F400)."""
    prm = {"deg": rng.choice([0, 2, 3]), "min": 0, "max": rng.range(2, 4), "leaf": rng.range(1, 3), "cache": rng.below(3),
           "rebal": 0, "seed": rng.below(1000)}
    d = Dist(rng, metric, dname)
    lines = [header(kind, metric, prm)]
    pts = [d.point() for _ in range(rng.range(8, 30))]
    lines += ["add " + ps(p) for p in pts]
    q = d.point()
    lines += ["nk %s %d" % (ps(q), len(pts) + 1), "nr %s %d" % (ps(q), HUGE), "list"]
    return lines


def gen_params(rng, safe):
    deg = rng.range(2, 6)
    mn = rng.range(2, 6)
    mx = rng.range(2, 8)
    leaf = rng.range(1, 8)
    if safe:
        leaf = max(leaf, max(deg, mx))          # a leaf is always split before it can outgrow its buffer
    return {"deg": deg, "min": mn, "max": mx, "leaf": leaf, "cache": rng.range(0, 5), "rebal": rng.below(2),
            "seed": rng.below(1000)}


class Dist:
    """point distributions: uniform, heavy duplicates, lattice ties, tight far-apart clusters."""

    def __init__(self, rng, metric, name):
        self.rng, self.metric, self.name = rng, metric, name
        self.dim = METRICS[metric][0]
        self.span = rng.choice([12, 100, 1000])
        self.vals = [rng.below(50) for _ in range(3)]
        self.centres = [tuple(rng.below(5) * 100000 for _ in range(2)) for _ in range(rng.range(2, 4))]

    def coord(self, axis, c=None):
        r = self.rng
        if self.name == "uniform":
            return r.below(self.span)
        if self.name == "dups":
            return r.choice(self.vals)
        if self.name == "lattice":
            return 2 * r.below(5)
        return c[axis] + r.below(3)        # clusters

    def point(self):
        if self.metric == "table6":
            return (self.rng.below(6),)
        c = self.rng.choice(self.centres)
        return tuple(self.coord(a, c) for a in range(self.dim))


def ps(p):
    return " ".join(map(str, p))


def gen_script(rng, kind, metric, prm, dname, nops, maxn=60):
    d = Dist(rng, metric, dname)
    mfun = METRICS[metric][1]
    cur = metric
    lines = [header(kind, metric, prm)]
    held = []                      # the generator's own idea of the contents (a hint only)

    def empty_probe():
        """queries on an empty structure / with k = 0: the (reused) result vector must come back empty"""
        q0 = d.point()
        return rng.choice([["nk %s 3" % ps(q0), "nr %s %d" % (ps(q0), HUGE)], ["nr %s %d" % (ps(q0), HUGE), "nk %s 1" % ps(q0)],
                           ["nk %s 0" % ps(q0), "nk %s 2" % ps(q0)], ["nk %s 2" % ps(q0)]])
    if rng.chance(1, 2):
        lines += empty_probe()     # before the first add (the vector holds the sentinels)
    for _ in range(nops):
        r = rng.below(100)
        if len(held) >= maxn and r < 43:
            r = 43 + rng.below(20)
        if r < 35:
            p = d.point()
            lines.append("add " + ps(p))
            held.append(p)
        elif r < 43:
            k = rng.below(9)
            pts = [d.point() for _ in range(k)]
            lines.append(("addv %d " % k + " ".join(ps(p) for p in pts)).strip())
            held += pts
        elif r < 63:
            if held and not rng.chance(1, 6):
                p = rng.choice(held)
                held.remove(p)
            else:
                p = d.point()
                if p in held:
                    held.remove(p)
            lines.append("rm " + ps(p))
        elif r < 65:
            if held and rng.chance(1, 2):          # a non-empty answer first, so that the vector is full
                lines.append("nk %s %d" % (ps(d.point()), len(held) + 1))
            lines.append("clear")
            held = []
            lines += empty_probe()
        else:
            q = rng.choice(held) if held and rng.chance(1, 3) else d.point()
            if r < 73:
                lines.append("nst " + ps(q))
            elif r < 85:
                n = len(held)
                k = rng.choice([0, 1, 2, n, n + 1, n + 2, rng.below(n + 3), rng.below(n + 3)])
                if k == 0 and n:                   # k = 0 right after a non-empty answer
                    lines.append("nk %s %d" % (ps(q), n))
                lines.append("nk %s %d" % (ps(q), k))
            elif r < 95:
                c = rng.below(6)
                if c == 0:
                    rad = rng.choice([0, 0, -1])             # radius 0 and a negative radius (empty answer)
                elif c == 1:
                    rad = HUGE
                elif c <= 3 and held:
                    rad = mfun(q, rng.choice(held))          # exact tie distance
                else:
                    rad = rng.below(d.span if dname == "uniform" else 12)
                lines.append("nr %s %d" % (ps(q), rad))
            elif r < 97:
                lines.append("list" if not (kind.startswith("gnat") and rng.chance(1, 3)) else rng.choice(["integrity", "print"]))
            elif r < 98:
                lines.append("sorted")
            elif r < 99 and cur in SWITCH:
                cur = SWITCH[cur]                  # setDistanceFunction AFTER elements were added
                mfun = METRICS[cur][1]
                lines.append("setdist " + cur)
            else:
                lines.append("size")
    # closing sweep: every k and the three kinds of radius on the final contents
    n = len(held)
    q = d.point()
    for k in range(0, min(n, 12) + 3):
        lines.append("nk %s %d" % (ps(q), k))
    lines.append("nk %s %d" % (ps(q), n + 2))
    lines.append("nr %s 0" % ps(q))
    lines.append("nr %s %d" % (ps(q), HUGE))
    if held:
        lines.append("nr %s %d" % (ps(q), mfun(q, rng.choice(held))))
        lines.append("nst " + ps(held[0]))
    lines.append("list")
    return lines


def isqrt_checks(n):
    import math
    return 1 + int(math.floor(math.sqrt(float(n))))


def distinct_points(rng, metric, n):
    dim = METRICS[metric][0]
    xs = list(range(0, 12 * n, 12))
    pts = [(x + rng.below(10),) if dim == 1 else (x + rng.below(10), rng.below(60)) for x in xs]
    # shuffle
    for i in range(len(pts) - 1, 0, -1):
        j = rng.below(i + 1)
        pts[i], pts[j] = pts[j], pts[i]
    return pts


def shrink_lines(rng, pts, q, keep, order, qp):
    """q nearest() calls on the full structure, then removes down to `keep` elements with no query in between, then
    the FIRST nearest() after the shrink (and a second one), size, list, k-nearest, radius."""
    lines = ["nst " + ps(qp)] * q
    if order == "back":            # remove in reverse insertion order: the freed tail slots keep the removed values
        victims = list(reversed(pts[keep:]))
        rest = pts[:keep]
    elif order == "front":
        victims = pts[:len(pts) - keep]
        rest = pts[len(pts) - keep:]
    else:
        idx = list(range(len(pts)))
        for i in range(len(idx) - 1, 0, -1):
            j = rng.below(i + 1)
            idx[i], idx[j] = idx[j], idx[i]
        victims = [pts[i] for i in idx[keep:]]
        rest = [pts[i] for i in sorted(idx[:keep])]
    lines += ["rm " + ps(v) for v in victims]
    lines += ["nst " + ps(qp), "nst " + ps(qp), "size", "list", "nk %s %d" % (ps(qp), keep + 1), "nr %s %d" % (ps(qp), HUGE)]
    return lines, rest


def gen_shrink(rng, kind, metric, prm):
    """generator class *shrink-after-queries* (stale rotating state across a shrink): grow to n distinct elements,
    q nearest() calls (q up to checks_ = 1 + floor(sqrt(n)) for SqrtApprox, so offset_ = q mod checks_; the GNAT's
    offset_ advances once per visited internal node), bulk shrink by remove() to n' <= offset_ elements with no
    nearest()/clear() in between, then the first nearest() after the shrink.  Optionally grown and shrunk again."""
    lines = [header(kind, metric, prm)]
    held = []
    for _round in range(rng.range(1, 2)):
        n = rng.choice([100, 100, 64, 50, 30, 17, 10]) if not kind.startswith("gnat") else rng.choice([12, 20, 30])
        pts = [p for p in distinct_points(rng, metric, n + len(held)) if p not in held][:n]
        lines += (["addv %d %s" % (len(pts), " ".join(ps(p) for p in pts))] if rng.chance(1, 3) else ["add " + ps(p) for p in pts])
        allp = held + pts
        checks = isqrt_checks(len(allp))
        q = rng.range(1, checks)
        off = q % checks
        keep = rng.range(1, max(1, min(off, 4)))
        qp = rng.choice(allp)
        ls, held = shrink_lines(rng, allp, q, keep, rng.choice(["back", "back", "random", "front"]), qp)
        lines += ls
    return lines


def gen_bulk_on_leaf_root(rng, kind, metric):
    """generator class *bulk add onto a leaf root holding removed elements*: a small tree whose root is still a leaf
    (n0 <= leaf size elements), one or two removals of NON-pivot elements with the removal cache not full (they stay
    physically in the leaf, marked in removed_), then ONE add(vector) large enough to overflow and split the root, then
    size / list / k-nearest / radius and a query at every removed value.  (add(vector) on an existing tree must go through
    add(), which rebuilds when a leaf with marked elements must be split.)  Default-like and small leaf sizes."""
    deg, mn, mx = rng.range(2, 6), rng.range(2, 6), rng.range(2, 8)
    leaf = rng.choice([50, 50, 12, 8, 6, 4])
    leaf = max(leaf, deg, mx)
    prm = {"deg": deg, "min": mn, "max": mx, "leaf": leaf, "cache": rng.choice([2, 3, 5, 500]), "rebal": rng.below(2), "seed": rng.below(1000)}
    lines = [header(kind, metric, prm)]
    n0 = rng.range(3, leaf)
    k = leaf + 1 - n0 + rng.range(1, 6)
    pts = distinct_points(rng, metric, n0 + k)
    first, bulk = pts[:n0], pts[n0:]
    lines += (["addv %d %s" % (n0, " ".join(ps(p) for p in first))] if rng.chance(1, 2) else ["add " + ps(p) for p in first])
    nv = 1 if prm["cache"] == 2 or rng.chance(1, 2) else 2
    pool = list(first[1:])
    victims = []
    for _ in range(min(nv, len(pool))):
        v = rng.choice(pool)
        pool.remove(v)
        victims.append(v)
    lines += ["rm " + ps(v) for v in victims]
    q = rng.choice(pts)
    lines.append("addv %d %s" % (len(bulk), " ".join(ps(p) for p in bulk)))
    lines += ["size", "list", "nk %s %d" % (ps(q), len(pts) + 2), "nr %s %d" % (ps(q), HUGE)]
    lines += ["nk %s 1" % ps(v) for v in victims] + ["nr %s 0" % ps(v) for v in victims]
    lines.append("nst " + ps(victims[0] if victims else q))
    return lines


def gen_refill(rng, kind, metric, dname):
    """generator class *remove-then-clear-then-refill*: fill, remove a few elements with the removal cache
    not full, clear(), add the same values again in the same order (same allocation pattern, so freed leaf
    buffers are reused), then size / list / nearestK(n+2) / nearestR(inf).  A removal cache that survives
    clear() shows up as "size() is n and list() has n-r elements".  n varies around the leaf capacity
    (below: one leaf; above: a split tree), r stays below the cache size; optionally a second round."""
    deg, mn, mx = rng.range(2, 6), rng.range(2, 6), rng.range(2, 8)
    leaf = max(rng.range(1, 8), deg, mx)
    cache = rng.range(2, 6)
    prm = {"deg": deg, "min": mn, "max": mx, "leaf": leaf, "cache": cache, "rebal": rng.below(2), "seed": rng.below(1000)}
    d = Dist(rng, metric, dname)
    lines = [header(kind, metric, prm)]
    n = max(2, leaf + 1 + rng.range(-3, 4)) if not rng.chance(1, 4) else rng.range(2, 3 * leaf + 3)
    pts = [d.point() for _ in range(n)]
    bulk = rng.chance(1, 4)
    rounds = 1 + rng.below(2)
    q = d.point()
    for _ in range(rounds):
        fill = (["addv %d %s" % (n, " ".join(ps(p) for p in pts))] if bulk else ["add " + ps(p) for p in pts])
        lines += fill
        r = rng.range(1, max(1, min(cache - 1, n - 1)))
        victims = []
        pool = list(pts[1:])               # not the first element: it is the root pivot while the tree is one leaf
        for _i in range(r):
            if not pool:
                break
            v = rng.choice(pool)
            pool.remove(v)
            victims.append(v)
        lines += ["rm " + ps(v) for v in victims]
        if rng.chance(1, 3):
            lines.append("nk %s %d" % (ps(q), n + 2))
        lines.append("clear")
        lines += fill
        lines += ["size", "list", "nk %s %d" % (ps(q), n + 2), "nr %s %d" % (ps(q), HUGE)]
        lines += ["nk %s 1" % ps(v) for v in victims]
        lines.append("nst " + ps(victims[0] if victims else q))
        if rounds > 1:
            lines.append("clear")
    return lines


def gen_empty_states(rng, kind, metric, prm, dname):
    """generator class *stale result vector*: the harness reuses one result vector for all queries, so a query
    that does not clear / overwrite its output parameter returns entries of an earlier call.  Visits every state
    in which the wrappers take an early-out path -- before the first add, k = 0, after clear(), after the last
    element was removed -- each time right after a call that left a non-empty answer, and again right after."""
    d = Dist(rng, metric, dname)
    lines = [header(kind, metric, prm)]
    q = d.point()
    big = "nr %s %d" % (ps(q), HUGE)

    def full(n):
        return rng.choice(["nk %s %d" % (ps(q), n + 1), big])
    lines += rng.choice([["nk %s 2" % ps(q), big], [big, "nk %s 1" % ps(q)], ["nk %s 0" % ps(q)]])     # before the first add
    for _round in range(rng.range(1, 3)):
        n = rng.range(1, 9)
        pts = [d.point() for _ in range(n)]
        lines += (["addv %d %s" % (n, " ".join(ps(p) for p in pts))] if rng.chance(1, 3) else ["add " + ps(p) for p in pts])
        lines += [full(n), "nk %s 0" % ps(q), full(n), "nk %s 0" % ps(q), "nk %s 1" % ps(q)]
        if rng.chance(1, 2):
            lines += [full(n), "clear"]
        else:                                   # remove everything, one by one
            order = list(pts)
            while order:
                v = rng.choice(order)
                order.remove(v)
                if len(order) == 0:
                    lines.append(full(1))
                lines.append("rm " + ps(v))
        lines += rng.choice([["nk %s 3" % ps(q), big], [big, "nk %s 2" % ps(q)], ["nst " + ps(q), big]])
        lines += ["size", "list"]
    return lines


# ---------------------------------------------------------------------------------- GreedyKCenters::kcenters, directly
def gen_kc(rng, metric, dname, nops=10):
    """`kc <k> <rows> <cols> <n> <pts>`: kcenters called directly (not through split) with every relation between k, n
    and the caller's matrix: exact n x k, 0 x 0, too few rows, too few columns (both force the resize), larger than
    needed (no resize: the surplus cells must stay untouched), k = 1, k = n, k > n, n = 1, duplicate-heavy data (the
    `maxDist < eps` cut-off returns fewer than k centres)."""
    d = Dist(rng, metric, dname)
    lines = ["nn kind=linear metric=%s seed=%d" % (metric, rng.below(1000))]
    for _ in range(nops):
        n = rng.choice([1, 2, 3, 5, 8, 13, 20])
        k = max(1, rng.choice([1, 2, n - 1, n, n + 1, n + 3, rng.range(1, 8)]))
        shape = rng.choice(["exact", "zero", "rows-short", "cols-short", "larger", "rows-larger", "cols-larger", "one-short-each"])
        rows, cols = {"exact": (n, k), "zero": (0, 0), "rows-short": (n - 1, k), "cols-short": (n, k - 1),
                      "larger": (n + rng.range(1, 4), k + rng.range(1, 3)), "rows-larger": (2 * n + 1, k),
                      "cols-larger": (n, k + 2), "one-short-each": (n - 1, k - 1)}[shape]
        pts = [d.point() for _ in range(n)]
        lines.append("kc %d %d %d %d %s" % (k, max(rows, 0), max(cols, 0), n, " ".join(ps(p) for p in pts)))
    return lines


def kc_oracle(metric, line, o):
    """the contract of kcenters on the real answer (None = ok): valid distinct centres, first = uniformInt of the recorded
    draw, each further centre a farthest point from the earlier ones (at distance >= 1 = not < epsilon for an integer
    metric), fewer than k only if every point coincides with a centre, dists(j,i) = distance(data[j], data[centers[i]]),
    the resize rule, and nothing else written."""
    dim, mfun = METRICS[metric]
    t = line.split()
    k, rows, cols, n = map(int, t[1:5])
    pts = parse_pts(t[5:], dim)
    kv = dict(x.split("=", 1) for x in o.split())
    if kv["u"].startswith("?"):
        return "kcenters drew %s random numbers, expected exactly one (the first centre)" % kv["u"][1:]
    u = struct.unpack("<d", struct.pack("<Q", int(kv["u"])))[0]
    cs = [int(x) for x in kv["c"].split(",")] if kv["c"] else []
    if not (1 <= len(cs) <= k) or any(c < 0 or c >= n for c in cs) or len(set(cs)) != len(cs):
        return "centres %s are not 1..k distinct valid indices (k=%d, n=%d)" % (cs, k, n)
    import math
    first = min(int(math.floor(n * u)), n - 1)
    if cs[0] != first:
        return "first centre %d, uniformInt(0,n-1) of the recorded draw gives %d" % (cs[0], first)
    md = [None] * n
    for i, c in enumerate(cs):
        if i > 0:
            mx = max(md)
            if md[c] != mx or mx < 1:
                return "centre %d (index %d) is at distance %s from the earlier centres, the farthest point is at %s" % (i, c, md[c], mx)
        for j in range(n):
            dj = mfun(pts[j], pts[c])
            md[j] = dj if md[j] is None else min(md[j], dj)
    if len(cs) < k and max(md) >= 1:
        return "only %d of %d centres although a point at distance %d from all centres is available" % (len(cs), k, max(md))
    grow = rows < n or cols < k
    want_dims = (max(2 * rows + 1, n), k) if grow else (rows, cols)
    if kv["dims"] != "%dx%d" % want_dims or kv["resized"] != ("1" if grow else "0"):
        return "matrix is %s (resized=%s) after the call, the documented rule gives %dx%d" % (kv["dims"], kv["resized"], want_dims[0], want_dims[1])
    want_m = ";".join(",".join(str(mfun(pts[j], pts[c])) for c in cs) for j in range(n))
    if kv["m"] != want_m:
        return "dists(j,i) is not distance(data[j], data[centers[i]]): got %s, expected %s" % (kv["m"][:200], want_m[:200])
    if not grow and kv["untouched"] != str(rows * cols - n * len(cs)):
        return "%s cells of the %dx%d matrix kept their old value, expected %d (only columns < centers.size() of rows < n are written)" % (
            kv["untouched"], rows, cols, rows * cols - n * len(cs))
    return None


def judge_kc(ck, hbin, script, lock):
    if enough_alarms(ck):
        return True
    metric = parse_header(script[0])["metric"]
    out, rc, err = run_impl(ck, hbin, script)
    bad = None
    for i, ln in enumerate(script[1:]):
        if i >= len(out):
            bad = (i, "implementation stopped early (crash or sanitizer report): %s" % (err or "")[-200:], "crash")
            break
        try:
            w = kc_oracle(metric, ln, out[i]) if out[i] != "bad-op" else "bad-op on a well-formed line"
        except (ValueError, KeyError, IndexError) as e:
            w = "unparsable harness output: %r" % (e,)
        if w:
            bad = (i, w, "kcenters")
            break
    with lock:
        ck.traces_validated += 1
        ck.case(tuple(script), True)
        ck.count("scripts:kcenters-direct")
        ck.count("kcenters-direct:calls", len(script) - 1)
        for ln, o in zip(script[1:], out):
            t = ln.split()
            k, rows, cols, n = map(int, t[1:5])
            nc = len(o.split(" c=")[1].split()[0].split(",")) if " c=" in o else 0
            ck.count("kcenters-direct:%s" % ("resize" if rows < n or cols < k else "no-resize"))
            ck.count("kcenters-direct:%s" % ("fewer-centres-than-k" if nc < k else "k-centres"))
            if k >= n:
                ck.count("kcenters-direct:k>=n")
    if bad is not None:
        i, what, cls = bad
        small = [script[0], script[1 + i]]
        rec = {"engine": ENGINE, "kind": "kcenters", "metric": metric, "class": cls, "what": what}
        with lock:
            new = ck.report(rec, script=small, expected=["spec: " + what], observed=out[i:i + 1], engine=ENGINE)
            if new:
                ck.log("GreedyKCenters::kcenters (direct call) violates its contract: %s [%s]" % (what, script[1 + i][:120]))
        return not new
    # the model of kcenters WITH its matrix (Model/NNKCenters.lean) on the same inputs and the recorded draw
    drv = [script[0]]
    for ln, o in zip(script[1:], out):
        drv.append("kcm %s %s" % (o.split()[0][2:], ln[3:]))
    model, rc2, err2 = ck.run_bin(ck.driver(DRIVER), drv)
    if rc2 != 0:
        raise RuntimeError("drv_nn failed: %s" % (err2 or "")[-500:])
    for i, o in enumerate(out):
        want = " ".join(o.split()[1:])
        got = model[i] if i < len(model) else "<missing>"
        if got != want:
            with lock:
                ck.disagreements += 1
                ck.report({"engine": ENGINE, "what": "model/implementation disagreement (kcenters with its matrix)"},
                          script=[script[0], script[1 + i]], expected=[got], observed=[want], found_input=False, engine=ENGINE,
                          obligation="correspondence nn: kcentersM (Model/NNKCenters.lean) vs GreedyKCenters::kcenters on `%s`" % script[1 + i][:160])
                ck.log("kcenters model/implementation disagreement on %r: model %r, implementation %r" % (script[1 + i][:120], got[:200], want[:200]))
            return False
    return True


# ---------------------------------------------------------------------------------- dump parsing / GnatInv
class Node:
    __slots__ = ("pivot", "prm", "deg", "rad", "ranges", "data", "children")


def rng_of(a, b):
    if a == "inf" and b == "-inf":
        return None
    return (int(a), int(b))


def parse_dump(s, dim):
    """returns (glob dict, root Node | None)."""
    t = s.split()
    assert t[0] == "G"
    g = {}
    i = 1
    for key in ("size", "rebuild", "off", "nrem", "stale", "draws"):
        k, v = t[i].split("=")
        assert k == key
        g[k] = v
        i += 1
    nd = int(g["draws"])
    g["us"] = t[i:i + max(nd, 0)]
    i += max(nd, 0)

    def node(i):
        assert t[i] == "N"
        n = Node()
        i += 1
        n.pivot = tuple(map(int, t[i:i + dim]))
        n.prm = t[i + dim] == "1"
        i += dim + 1
        n.deg = int(t[i].split("=")[1])
        n.rad = rng_of(t[i + 1].split("=")[1], t[i + 2])
        nr = int(t[i + 3].split("=")[1])
        i += 4
        n.ranges = [rng_of(t[i + 2 * j], t[i + 2 * j + 1]) for j in range(nr)]
        i += 2 * nr
        ndata = int(t[i].split("=")[1])
        i += 1
        n.data = []
        for _ in range(ndata):
            n.data.append((tuple(map(int, t[i:i + dim])), t[i + dim] == "1"))
            i += dim + 1
        nc = int(t[i].split("=")[1])
        i += 1
        n.children = []
        for _ in range(nc):
            c, i = node(i)
            n.children.append(c)
        return n, i

    root = None
    if i < len(t):
        root, i = node(i)
        assert i == len(t)
    return g, root


def elems(n):
    out = [(n.pivot, n.prm)] + list(n.data)
    for c in n.children:
        out += elems(c)
    return out


def gnat_inv(root, mfun):
    """independent GnatInv checker: None, or (description, [wrongly excluded points])."""
    stack = [root]
    while stack:
        n = stack.pop()
        if n.prm:
            return "pivot %s is marked removed" % (n.pivot,), [n.pivot]
        for ci, c in enumerate(n.children):
            below = list(c.data)
            for cc in c.children:
                below += elems(cc)
            for x, _ in below:
                dd = mfun(x, c.pivot)
                if c.rad is None or not (c.rad[0] <= dd <= c.rad[1]):
                    return "radius %s of pivot %s excludes its element %s (distance %d)" % (c.rad, c.pivot, x, dd), [x]
            if len(c.ranges) < len(n.children):
                return "range arrays of pivot %s shorter than the number of siblings" % (c.pivot,), [c.pivot]
            for cj, o in enumerate(n.children):
                for x, _ in elems(o):
                    dd = mfun(x, c.pivot)
                    rg = c.ranges[cj]
                    if rg is None or not (rg[0] <= dd <= rg[1]):
                        return "range[%d]=%s of pivot %s excludes %s of sibling %d (distance %d)" % (cj, rg, c.pivot, x, cj, dd), [x]
            stack.append(c)
    return None


# ---------------------------------------------------------------------------------- spec oracle
def split_line(o):
    parts = o.split(" | ")
    return parts


def parse_pts(tokens, dim):
    return [tuple(map(int, tokens[i:i + dim])) for i in range(0, len(tokens), dim)]


def parse_answer(res, dim):
    """`k=<m> d=<d,..> e=<pts>` -> (ds, es)"""
    t = res.split()
    m = int(t[0].split("=")[1])
    dtxt = t[1].split("=")[1]
    ds = [int(x) for x in dtxt.split(",")] if dtxt else []
    assert t[2].startswith("e=")
    et = [t[2][2:]] + t[3:] if t[2] != "e=" else t[3:]
    es = parse_pts(et, dim)
    assert len(ds) == m and len(es) == m
    return ds, es


class Fail(Exception):
    def __init__(self, step, what, cls="answer", extra=None, missing=None):
        Exception.__init__(self, what)
        self.step, self.what, self.cls = step, what, cls
        self.extra, self.missing = extra, missing


def oracle(script, out):
    """the property, evaluated on the implementation's output lines.
    returns dict(fail=None|(step, what, cls), inv=None|(step, what, pts), stale_at=None|step, stats)."""
    kv = parse_header(script[0])
    kind, metric = kv["kind"], kv["metric"]
    dim, mfun = METRICS[metric]
    exact = kind != "sqrt"
    gn = kind.startswith("gnat")
    M = collections.Counter()
    res = {"fail": None, "inv": None, "stale_at": None, "maxn": 0, "internal": False, "queries": 0}
    try:
        if len(out) < len(script) - 1:
            raise Fail(len(out), "implementation stopped early (crash or sanitizer report)", "crash")
        for i, line in enumerate(script[1:]):
            o = out[i]
            if o == "bad-op":
                raise Fail(i, "bad-op on a well-formed line", "protocol")
            parts = split_line(o)
            r = parts[0]
            t = line.split()
            op = t[0]
            n = sum(M.values())
            alld = None
            if op in ("nst", "nk", "nr"):
                q = tuple(map(int, t[1:1 + dim]))
                alld = sorted(mfun(q, x) for x in M.elements())
                res["queries"] += 1
                res["maxn"] = max(res["maxn"], n)
            # stale addresses make every later observation meaningless: note the first step
            if gn and res["stale_at"] is None:
                g, _root = parse_dump(parts[2], dim)
                if int(g["stale"]) > 0:
                    res["stale_at"] = i
            if op == "add":
                M[tuple(map(int, t[1:]))] += 1
                exp = "ok"
            elif op == "addv":
                for p in parse_pts(t[2:], dim):
                    M[p] += 1
                exp = "ok"
            elif op == "rm":
                p = tuple(map(int, t[1:]))
                if M[p] > 0:
                    M[p] -= 1
                    exp = "true"
                else:
                    exp = "false"
                M += collections.Counter()      # drop zero entries
            elif op == "clear":
                M.clear()
                exp = "ok"
            elif op == "size":
                exp = str(n)
            elif op in ("integrity", "print"):
                exp = "ok"                    # GNAT debugging members: integrityCheck() silent, operator<< does not crash
            elif op == "noisefree":
                exp = "ok"                    # releases the harness's heap-layout noise blocks; no effect on the contents
            elif op == "sorted":
                exp = "1"                     # reportsSortedResults(): all shipped structures sort their answers
            elif op == "setdist":
                if METRICS[t[1]][0] != dim:
                    raise Fail(i, "unknown op in script", "protocol")
                mfun = METRICS[t[1]][1]       # from now on brute force (and GnatInv on the dump) use the new function
                exp = "ok"
            elif op == "list":
                srt = sorted(M.elements())
                exp = ("n=%d " % len(srt) + " ".join(ps(p) for p in srt)).strip()
            elif op == "nst":
                exp = None
                if n == 0:
                    exp = "none"
                else:
                    if r == "none":
                        raise Fail(i, "nearest() threw although %d elements are stored" % n)
                    tt = r.split()
                    dd = int(tt[0].split("=")[1])
                    e = tuple(map(int, [tt[1][2:]] + tt[2:]))
                    if M[e] <= 0:
                        raise Fail(i, "nearest() returned %s which is not a current member" % (e,), "member")
                    if mfun(q, e) != dd:
                        raise Fail(i, "harness distance mismatch", "protocol")
                    if exact and dd != alld[0]:
                        raise Fail(i, "nearest() at distance %d, exhaustive search finds %d" % (dd, alld[0]))
            elif op in ("nk", "nr"):
                exp = None
                ds, es = parse_answer(r, dim)
                # membership first: the reused result vector may still hold sentinels / an earlier answer
                extra = collections.Counter(es) - M
                if extra:
                    stale = " (the result vector still holds entries of an earlier call)" if (SENTINEL[:dim] in extra or not M) else ""
                    raise Fail(i, "%s returned %s which is not (or not that often) a current member%s" % (op, sorted(extra.elements())[:3], stale), "member")
                if [mfun(q, e) for e in es] != ds:
                    raise Fail(i, "harness distance mismatch", "protocol")
                if any(ds[a] > ds[a + 1] for a in range(len(ds) - 1)):
                    raise Fail(i, "%s answer not in non-decreasing distance order: %s" % (op, ds))
                if op == "nk":
                    want = alld[:int(t[-1])]
                else:
                    want = [x for x in alld if x <= int(t[-1])]
                if ds != want:
                    raise Fail(i, "%s distances %s, exhaustive search gives %s" % (op, ds[:12], want[:12]))
            else:
                raise Fail(i, "unknown op in script", "protocol")
            if exp is not None and r != exp:
                raise Fail(i, "%s answered %r, the abstract multiset says %r" % (op, r, exp), "result")
            # size and contents after every operation
            st = parts[1].split()
            sz = int(st[0].split("=")[1])
            ln = int(st[1].split("=")[1])
            lst = parse_pts(st[2:], dim)
            n = sum(M.values())
            extra = collections.Counter(lst) - M
            miss = M - collections.Counter(lst)
            if sz != n or ln != len(lst) or extra or miss:
                raise Fail(i, "size() is %d and list() has %d elements but %d should be held (missing %s, unexpected %s)"
                           % (sz, len(lst), n, sorted(miss.elements())[:3], sorted(extra.elements())[:3]), "contents", extra, miss)
            if gn:
                g, root = parse_dump(parts[2], dim)
                if int(g["draws"]) < 0:
                    raise Fail(i, "RNG draw recovery failed", "protocol")
                if root is not None:
                    if root.children:
                        res["internal"] = True
                    if res["inv"] is None:
                        bad = gnat_inv(root, mfun)
                        if bad:
                            res["inv"] = (i, bad[0], bad[1])
                    live = [x for x, rm in elems(root) if not rm]
                    if collections.Counter(live) != M or int(g["size"]) != n:
                        raise Fail(i, "tree dump does not hold the multiset (size_=%s, %d live in tree, %d expected)" % (g["size"], len(live), n), "dump")
                elif n != 0:
                    raise Fail(i, "no tree although %d elements should be held" % n, "dump")
    except Fail as f:
        res["fail"] = (f.step, f.what, f.cls)
        res["extra"], res["missing"] = f.extra, f.missing
    except (AssertionError, ValueError, IndexError) as e:
        res["fail"] = (-1, "unparsable harness output: %r" % (e,), "protocol")
    return res


# ---------------------------------------------------------------------------------- model side
def canon(line):
    """drop the element list of a k-nearest / radius answer (ties are broken by addresses / unstable sort)."""
    parts = line.split(" | ")
    r = parts[0]
    if r.startswith("k=") and " e=" in r:
        parts[0] = r[:r.index(" e=")]
    elif r.startswith("k=") and r.endswith(" e="):
        parts[0] = r[:-3]
    return " | ".join(parts)


def split_dump(dump):
    """(draws, dump without `stale=`/`draws=`), draws None if the harness could not recover them."""
    t = dump.split()
    if len(t) < 7 or not t[6].startswith("draws=") or not t[5].startswith("stale="):
        return None, dump
    n = int(t[6].split("=")[1])
    if n < 0:
        return None, dump
    return t[7:7 + n], " ".join(t[:5] + t[7 + n:])


def injection_script(script, out):
    """driver input for the GNAT kinds: each query runs on the tree dumped after the previous op; every
    dump is re-read (`tree …`) to evaluate the invariant and the model's list().
    returns (driver lines, expectations) with expectations[j] = (script step, kind, expected text)."""
    drv = [script[0]]
    exp = []
    for i, line in enumerate(script[1:]):
        if i >= len(out) or out[i] == "bad-op":
            break
        parts = out[i].split(" | ")
        if len(parts) < 3:
            break
        op = line.split()[0]
        if op in ("nst", "nk", "nr", "sorted"):
            r = canon(parts[0])
            if op == "nst" and r != "none":
                r = r.split()[0]
            drv.append(line)
            exp.append((i, "query", r))
        if op in ("add", "addv", "rm", "clear", "setdist"):
            # lock-step: the model's operation on the previously injected state, with this operation's
            # k-centers draws, must produce exactly the dump of the real tree
            draws, plain = split_dump(parts[2])
            if draws is not None:
                drv.append("mop %d %s %s" % (len(draws), " ".join(draws), line) if draws else "mop 0 " + line)
                exp.append((i, "op", parts[0] + " | " + plain))
        st = parts[1].split()
        drv.append("tree " + parts[2])
        exp.append((i, "tree", "inv=ok size=%s live=%s %s" % (st[0].split("=")[1], st[0].split("=")[1], " ".join(st[1:]))))
    return drv, exp


def correspondence(ck, script, out):
    """None, or (step, what, expected, observed)."""
    kind = parse_header(script[0])["kind"]
    if not kind.startswith("gnat"):
        model, rc, err = ck.run_bin(ck.driver(DRIVER), script)
        if rc != 0:
            raise RuntimeError("drv_nn failed: %s" % (err or "")[-500:])
        a = [canon(x) for x in out]
        d = ck.first_diff(a, model)
        if d is None:
            return None
        return (d, "lock-step model differs", model[d] if d < len(model) else "<missing>", a[d] if d < len(a) else "<missing>")
    drv, exp = injection_script(script, out)
    model, rc, err = ck.run_bin(ck.driver(DRIVER), drv)
    if rc != 0:
        raise RuntimeError("drv_nn failed: %s" % (err or "")[-500:])
    for j, (i, what, want) in enumerate(exp):
        got = model[j] if j < len(model) else "<missing>"
        if got != want:
            return (i, "model %s differs" % {"query": "query on the dumped real tree", "op": "operation (lock-step from the previous dump)"}.get(what, "invariant/list on the dumped real tree"), got, want)
    return None


def disagreement_probes(script, out, step, metric):
    """probe scripts aimed by a model/implementation disagreement at operation `step` (0-based in script[1:]):
    (A) the prefix followed by queries centred on every value held, size and list;
    (B) the prefix, clear() (unless the disagreeing operation is one), the add/addv lines since the previous
        clear() again *verbatim* (same order and sizes, so freed buffers are reused), then size / list / queries;
    (C) like (B) but re-adding the values held at that moment one by one."""
    ops = script[1:]
    held, fill = [], []
    dim = METRICS[metric][0]
    for i, ln in enumerate(ops[:step + 1]):
        t = ln.split()
        if t[0] == "add":
            held.append(tuple(map(int, t[1:1 + dim])))
            fill.append(ln)
        elif t[0] == "addv":
            k = int(t[1])
            held += [tuple(map(int, t[2 + j * dim:2 + (j + 1) * dim])) for j in range(k)]
            fill.append(ln)
        elif t[0] == "rm":
            p = tuple(map(int, t[1:1 + dim]))
            if i < len(out) and out[i].startswith("true") and p in held:
                held.remove(p)
        elif t[0] == "clear":
            if i < step:
                held, fill = [], []
    prefix = script[:step + 2]
    n = len(held)
    q = held[0] if held else tuple([0] * dim)

    def tail(vals):
        t = ["size", "list", "nk %s %d" % (ps(q), len(vals) + 2), "nr %s %d" % (ps(q), HUGE)]
        for x in vals[:40]:
            t += ["nk %s 1" % ps(x), "nr %s 0" % ps(x)]
        return t
    cleared = ops[step].split()[0] == "clear"
    filled = []
    for ln in fill:
        t = ln.split()
        if t[0] == "add":
            filled.append(tuple(map(int, t[1:1 + dim])))
        else:
            filled += [tuple(map(int, t[2 + j * dim:2 + (j + 1) * dim])) for j in range(int(t[1]))]
    probes = []
    if not cleared:
        probes.append(("queries-on-contents", prefix + tail(held)))
    pre = prefix if cleared else prefix + ["clear"]
    probes.append(("clear-and-refill-verbatim", pre + fill + tail(filled)))
    if not cleared or held:
        probes.append(("clear-and-refill-held", pre + ["add " + ps(x) for x in held] + tail(held)))
    probes.append(("clear-refill-twice", pre + fill + ["clear"] + fill + tail(filled)))
    # stale rotating state (offset_ / checks_) across a shrink: (grow if small,) j nearest() calls, remove down to
    # n' elements with no query in between, then the first nearest() after the shrink
    if metric != "table6":
        base = list(dict.fromkeys(held))
        grow = []
        if len(base) < 40:
            m = max([abs(c) for p in base for c in p] + [0]) + 1000
            grow = [tuple([m + 13 * i] + [0] * (dim - 1)) for i in range(60)]
        allp = held + grow
        growl = ["addv %d %s" % (len(grow), " ".join(ps(p) for p in grow))] if grow else []
        checks = isqrt_checks(len(allp))
        for j in sorted(set([1, 2, 3, checks // 2, checks - 1])):
            for keep in (1, 2, 3):
                if j < 1 or keep >= len(allp):
                    continue
                victims = list(reversed(allp[keep:]))
                probes.append(("shrink-after-%d-queries-to-%d" % (j, keep),
                               prefix + growl + ["nst " + ps(allp[-1])] * j + ["rm " + ps(v) for v in victims] +
                               ["nst " + ps(allp[-1]), "nst " + ps(allp[0]), "size", "list"]))
    return probes


def variant_view(line):
    """what the two GNAT variants must agree on for one output line: the result (distance lists, not element
    identities), size() and list() as a multiset; and, separately, the tree dump without `off=`."""
    parts = line.split(" | ")
    r = canon(parts[0])
    if r.startswith("d=") and " e=" in r:
        r = r.split()[0]
    st = parts[1].split() if len(parts) > 1 else []
    ls = " ".join(st[:2]) + " " + " ".join(sorted(st[2:])) if st else ""
    dump = " ".join(t for t in parts[2].split() if not t.startswith("off=")) if len(parts) > 2 else ""
    return (r, ls), dump


def variants_agree(ck, hbin, script, out, reuse):
    """run the same history (same parameters, same RNG seed) through the other GNAT variant.
    returns (None | (step, ours, theirs), number of steps with identical tree dumps, steps)."""
    other = [script[0].replace("kind=gnat ", "kind=gnatnts ")] + script[1:]
    out2, _res2 = evaluate(ck, hbin, other, reuse)
    same = 0
    for i in range(max(len(out), len(out2))):
        a = variant_view(out[i]) if i < len(out) else (("<missing>", ""), "")
        b = variant_view(out2[i]) if i < len(out2) else (("<missing>", ""), "")
        if a[0] != b[0]:
            return (i, out[i] if i < len(out) else "<missing>", out2[i] if i < len(out2) else "<missing>"), same, i
        if a[1] == b[1]:
            same += 1
    return None, same, max(len(out), len(out2))


def tie_elems(line):
    """the element list of a k-nearest / radius answer (None for other lines)"""
    r = line.split(" | ")[0]
    if r.startswith("k=") and " e=" in r:
        return r[r.index(" e=") + 3:]
    return None


def layout_independent(ck, hbin, script):
    """F202 made explicit.  The property speaks about distances and (multi)sets: among exactly tied neighbours any
    choice and any order is a correct answer, so against brute force ties are compared as sets.  (The GNAT used to order
    ties by element ADDRESS; fixed in /repo by fd1d3e76b, so the element order of an answer must now be layout
    independent too -- checked below.)  Everything the property does talk about must not depend on the heap layout: the same history is run with two layouts (`noise=0` / `noise=1`
    with the noise blocks released after a third of the operations, allocator in reuse mode so that later tree
    allocations land below earlier ones) and results as distance lists, size(), list() as a multiset and the whole
    tree dump must coincide.  Returns (None | (step, a, b), number of answers whose tie ORDER differs, answers)."""
    ops = script[1:]
    cut = max(1, len(ops) // 3)
    ops = ops[:cut] + ["noisefree"] + ops[cut:]
    outs = []
    for noise in (0, 1):
        o, _r = evaluate(ck, hbin, [script[0] + " noise=%d" % noise] + ops, True)
        outs.append(o)
    a, b = outs
    differs = answers = 0
    for i in range(max(len(a), len(b))):
        va = variant_view(a[i]) if i < len(a) else (("<missing>", ""), "")
        vb = variant_view(b[i]) if i < len(b) else (("<missing>", ""), "")
        if va != vb:
            return (i, a[i] if i < len(a) else "<missing>", b[i] if i < len(b) else "<missing>", ops), differs, answers
        ea, eb = tie_elems(a[i]), tie_elems(b[i])
        if ea is not None:
            answers += 1
            if ea != eb:
                # since fix fd1d3e76b (F202) the answer queue is ordered by distance only: the ORDER (and choice) among
                # exactly tied neighbours is a function of seed, history and query, no longer of addresses
                return (i, a[i], b[i], ops), differs + 1, answers
    return None, differs, answers


# ---------------------------------------------------------------------------------- judging
# The harness is built with ASan, whose quarantine keeps freed chunks out of circulation, so a stale address
# (e.g. in GNAT's removed_ set) never meets a new element.  "reuse" mode switches the quarantine off so that
# freed leaf buffers are handed out again at once, as with the plain glibc allocator; everything else
# (bounds, leaks, UBSan) stays on.  Used for the refill generator class and the disagreement probes.
REUSE_ENV = {"ASAN_OPTIONS": "detect_leaks=1:abort_on_error=0:exitcode=99:quarantine_size_mb=0:thread_local_quarantine_size_kb=0"}


def run_impl(ck, hbin, script, reuse=False):
    impl, rc, err = ck.run_bin(hbin, script, timeout=120, env=REUSE_ENV if reuse else None)
    return impl or [], rc, err


def evaluate(ck, hbin, script, reuse=False):
    out, rc, err = run_impl(ck, hbin, script, reuse)
    res = oracle(script, out)
    if rc != 0 and res["fail"] is None:
        res["fail"] = (len(out), "harness exited with code %s: %s" % (rc, (err or "")[-300:]), "crash")
    return out, res


def classify(script, out, res):
    """violation record; `class` separates the known stale-address mechanism (F16) from anything else.
    F16 is recognised purely from observations:
      (a) a dump at or before the failing step shows an address in removed_ that belongs to no tree
          element (`stale>0`), or
      (b) the failing op is add/addv, the only discrepancy is that elements reappear which the dump
          before the op showed as marked-removed leaf elements, and that dump has a marked-removed
          element in a leaf that is full (len(data_) >= leaf+1 = its reserved capacity; for addv: any
          marked-removed leaf element, since leaves fill up during the bulk insertion) -- the push_back
          reallocates the buffer, removed_ keeps the old addresses, and the rebuild that may follow
          inside the same add() lists the element again;
    and always only for parameterisations in which a leaf can outgrow its buffer (`realloc_prone`)."""
    kv = parse_header(script[0])
    step, what, cls = res["fail"]
    rec = {"engine": ENGINE, "kind": kv["kind"], "metric": kv["metric"], "what": what, "class": cls}
    # F400: the constructor accepts degree = 0 / minDegree = 0; a node then has degree_ = 0 and the split of that node
    # calls kcenters with k = 0 (write into an n x 0 matrix).  Recognised from observations only: the run died inside an
    # add / addv, and a node with `deg=0` was dumped before (or the root is constructed with degree 0).
    if degenerate(kv) and cls == "crash" and 0 <= step < len(script) - 1 and script[1 + step].split()[0] in ("add", "addv"):
        if int(kv["deg"]) == 0 or any(" deg=0 " in o for o in out[:step]):
            rec["class"] = "gnat-split-with-degree-zero"
            return rec
    # a removal cache that survives clear(): the dump right after a `clear` still shows |removed_| > 0
    for i, ln in enumerate(script[1:]):
        if (step < 0 or i <= step) and ln.split()[0] == "clear" and i < len(out):
            parts = out[i].split(" | ")
            if len(parts) >= 3 and " nrem=" in parts[2] and " nrem=0 " not in parts[2] + " ":
                rec["class"] = "gnat-removal-cache-survives-clear" if cls != "crash" else cls
                return rec
    if not realloc_prone(kv) or cls == "crash":
        return rec
    if res["stale_at"] is not None and (step < 0 or res["stale_at"] <= step):
        rec["class"] = "gnat-stale-removed-address"
        return rec
    if cls == "contents" and step >= 1 and res.get("extra") and not res.get("missing"):
        op = script[1 + step].split()[0]
        if op in ("add", "addv"):
            dim = METRICS[kv["metric"]][0]
            try:
                _g, root = parse_dump(out[step - 1].split(" | ")[2], dim)
            except Exception:
                return rec
            marked = collections.Counter()
            full = False
            stack = [root] if root is not None else []
            while stack:
                n = stack.pop()
                rm_here = [x for x, rm in n.data if rm]
                marked.update(rm_here)
                if rm_here and (op == "addv" or len(n.data) >= int(kv["leaf"]) + 1):
                    full = True
                stack += n.children
            if full and not (res["extra"] - marked):
                rec["class"] = "gnat-stale-removed-address"
    return rec


def enough_alarms(ck):
    """stop after 3 alarms WITH a concrete failing input (or 10 of any kind): model/implementation disagreements without
    an input must not use up the budget before the aimed generator classes had their turn."""
    with_input = sum(1 for _r, fi in ck.violations if fi)
    return with_input >= 3 or len(ck.violations) >= 10


def judge(ck, hbin, script, tag, lock):
    if enough_alarms(ck):              # enough alarms to act on; do not bury them
        with lock:
            ck.count("scripts:skipped-after-3-alarms")
        return True
    reuse = tag == "refill"
    out, res = evaluate(ck, hbin, script, reuse)
    kv = parse_header(script[0])
    corr = None
    degen = degenerate(kv)      # old constructor, degree 0: outside ParamsOK, the model says nothing; the oracle alone judges
    if kv["kind"].startswith("gnat") and min(int(kv["deg"]), int(kv["min"])) == 0:
        with lock:
            ck.count("gnat:degenerate-params-oracle-only" if degen else "gnat:degree-or-minDegree-0-in-lock-step")
    if res["fail"] is None and not degen:
        corr = correspondence(ck, script, out)
    if kv["kind"] == "gnat" and res["fail"] is None and not degen:
        # the thread-safe variant and GNATNoThreadSafety on the identical history with the same RNG seed
        bad, same, steps = variants_agree(ck, hbin, script, out, reuse)
        with lock:
            ck.count("gnat-variants:histories-compared")
            ck.count("gnat-variants:steps-compared", steps)
            ck.count("gnat-variants:steps-with-identical-tree-dump", same)
            if bad is not None:
                new = ck.report({"engine": ENGINE, "kind": "gnat-vs-gnatnts", "metric": kv["metric"], "class": "variants-disagree",
                                 "what": "NearestNeighborsGNAT and NearestNeighborsGNATNoThreadSafety answer differently on the same history at step %d" % bad[0]},
                                script=script[:bad[0] + 2], expected=[bad[1][:400]], observed=[bad[2][:400]], engine=ENGINE)
                if new:
                    ck.log("GNAT variants disagree at step %d: %r vs %r" % (bad[0], bad[1][:160], bad[2][:160]))
                return not new
    if kv["kind"].startswith("gnat") and res["fail"] is None and not degen and (tag != "random" and not tag.startswith("random") or zlib.crc32("\n".join(script).encode()) % 3 == 0):
        bad, differs, answers = layout_independent(ck, hbin, script)
        with lock:
            ck.count("gnat-layout:histories-run-with-two-heap-layouts")
            ck.count("gnat-layout:answers-compared", answers)
            ck.count("gnat-layout:answers-whose-element-order-differs-between-layouts", differs)
            if bad is not None:
                new = ck.report({"engine": ENGINE, "kind": kv["kind"], "metric": kv["metric"], "class": "layout-dependent", "alloc": "reuse",
                                 "what": "distance lists / element order of an answer / size / list / tree depend on the heap layout (step %d)" % bad[0]},
                                script=[script[0] + " noise=1"] + bad[3][:bad[0] + 1], expected=["noise=0: " + bad[1][:400]], observed=["noise=1: " + bad[2][:400]], engine=ENGINE)
                if new:
                    ck.log("heap-layout dependence at step %d: %r vs %r" % (bad[0], bad[1][:160], bad[2][:160]))
                return not new
    with lock:
        ck.traces_validated += 1
        ck.case(tuple(script), res["queries"] > 0 and res["maxn"] >= 4 and (res["internal"] or not kv["kind"].startswith("gnat")))
        ck.count("scripts:" + tag)
        if tag == "shrink-after-queries":
            ck.count("shrink-after-queries:ran:" + kv["kind"])
        ck.count("kind:" + kv["kind"])
        ck.count("metric:" + kv["metric"])
        ck.count("ops", len(script) - 1)
        for ln in script[1:]:
            ck.count("op:" + ln.split()[0])
        if kv["kind"].startswith("gnat"):
            ck.count("gnat:realloc-prone-params" if realloc_prone(kv) else "gnat:safe-params")
            ck.count("gnat:dumps-inv-checked", len(out))
            if corr is None and res["fail"] is None:
                ck.count("gnat:ops-lockstep-model-vs-real-dump",
                         sum(1 for ln, o in zip(script[1:], out) if ln.split()[0] in ("add", "addv", "rm", "clear", "setdist") and o.count(" | ") >= 2))
                ck.count("gnat:ops-lockstep-with-split-or-rebuild",
                         sum(1 for o in out if o.count(" | ") >= 2 and " draws=0" not in o.split(" | ")[2][:80]))
            if res["internal"]:
                ck.count("gnat:scripts-with-internal-nodes")
        ck.sample({"generator": tag, "script": script[:8] + ["…(%d more lines)" % (len(script) - 8)]})
    if res["fail"] is not None:
        rec = classify(script, out, res)
        want_cls = rec["class"]

        def still(lines):
            s = [script[0]] + lines
            o, r = evaluate(ck, hbin, s, reuse)
            return r["fail"] is not None and classify(s, o, r)["class"] == want_cls
        small = [script[0]] + core.ddmin(script[1:], still, max_tests=250)
        o, r = evaluate(ck, hbin, small, reuse)
        if r["fail"] is None:
            small, o, r = script, out, res
        rec = classify(small, o, r)
        if reuse:
            rec["alloc"] = "reuse"
        with lock:
            new = ck.report(rec, script=small, expected=["spec: " + r["fail"][1]], observed=o, engine=ENGINE)
            if new:
                ck.log("property failure (%s, %s): %s [script of %d ops]" % (kv["kind"], rec["class"], r["fail"][1], len(small) - 1))
        return not new
    if res["inv"] is not None:
        # targeted search: queries centred on the wrongly excluded elements and on every stored element
        step, what, pts = res["inv"]
        dim = METRICS[kv["metric"]][0]
        parts = out[step].split(" | ")
        _g, root = parse_dump(parts[2], dim)
        cands = list(pts) + [x for x, _ in elems(root)]
        qs = []
        for x in cands[:80]:
            qs += ["nk %s 1" % ps(x), "nr %s 0" % ps(x), "nk %s 3" % ps(x), "nst " + ps(x)]
        probe = script[:step + 2] + qs
        o2, r2 = evaluate(ck, hbin, probe)
        with lock:
            ck.count("search:invariant-probes", len(qs))
            if r2["fail"] is not None:
                def still(lines):
                    s = [script[0]] + lines
                    _o, r = evaluate(ck, hbin, s)
                    return r["fail"] is not None
                small = [script[0]] + core.ddmin(probe[1:], still, max_tests=250)
                o3, r3 = evaluate(ck, hbin, small)
                if r3["fail"] is None:
                    small, o3, r3 = probe, o2, r2
                rec = classify(small, o3, r3)
                new = ck.report(rec, script=small, expected=["spec: " + r3["fail"][1], "GnatInv: " + what], observed=o3, engine=ENGINE)
                if new:
                    ck.log("GnatInv broken (%s) and a query fails: %s" % (what, r3["fail"][1]))
                return not new
            ck.disagreements += 1
            ck.report({"engine": ENGINE, "what": "GnatInv fails on a dump of the real tree: " + what},
                      script=script[:step + 2], expected=["GnatInv holds after every operation"], observed=out[:step + 1],
                      found_input=False, engine=ENGINE,
                      obligation="GnatInv (hypothesis of OmplModel.Props.C10 pruning theorems) on the real tree: " + what)
            ck.log("GnatInv fails on a dump (%s); no failing query found" % what)
        return False
    if corr is not None:
        # targeted search aimed by the disagreement: does the differing state make an observable answer wrong?
        step, what, got, want = corr
        for pname, probe, mode in [(a, b, m) for m in (False, True) for a, b in disagreement_probes(script, out, step, kv["metric"])]:
            o2, r2 = evaluate(ck, hbin, probe, mode)
            with lock:
                ck.count("search:disagreement-probes:%s%s" % (pname, ":reuse" if mode else ""))
            if r2["fail"] is None:
                continue

            def still(lines):
                s2 = [script[0]] + lines
                _o, r = evaluate(ck, hbin, s2, mode)
                return r["fail"] is not None
            small = [script[0]] + core.ddmin(probe[1:], still, max_tests=250)
            o3, r3 = evaluate(ck, hbin, small, mode)
            if r3["fail"] is None:
                small, o3, r3 = probe, o2, r2
            rec = classify(small, o3, r3)
            if mode:
                rec["alloc"] = "reuse"
            with lock:
                new = ck.report(rec, script=small, expected=["spec: " + r3["fail"][1], "model state: " + got[:300]], observed=o3, engine=ENGINE)
                if new:
                    ck.log("model/implementation disagreement (%s) and the probe '%s' fails: %s" % (what, pname, r3["fail"][1]))
            return not new
        with lock:
            ck.disagreements += 1
            ck.report({"engine": ENGINE, "what": "model/implementation disagreement"}, script=script[:step + 2],
                      expected=[got], observed=[want], found_input=False, engine=ENGINE,
                      obligation="correspondence nn (%s): %s at step %d" % (kv["kind"], what, step))
            ck.log("correspondence disagreement (%s) at step %d: model %r, implementation %r" % (kv["kind"], step, got[:200], want[:200]))
        return False
    return True


# ---------------------------------------------------------------------------------- which structure a planner gets
SPACES_CLAIM = {   # what the shipped spaces claim (isMetricSpace); Moebius / Klein: false since fix 02d37426b
    "rv3": 1, "so2": 1, "so3": 1, "se2": 1, "se3": 1, "dubins": 0, "rs": 1, "mobius": 0, "klein": 0,
    "rv3+so3": 1, "rv3+mobius": 0, "so3+klein": 0, "se2+mobius": 0, "se3+rs": 1, "dubins+rv3": 0,
}
PLANNERS_MT = {"mt0": 0, "mt1": 1, "RRT": 0, "RRTConnect": 0, "pRRT": 1, "PRM": 1, "pSBL": 1}


def default_selection(ck):
    """real tools::SelfConfig::getDefaultNearestNeighbors (harness/nn_default.cpp, linked against libompl) on every
    space x planner combination vs the model `defaultNN` / `compoundIsMetric` (drv_nn `defaultnn`), plus the
    property itself on the real answers: a GNAT variant only if the space claims to be metric, SqrtApprox otherwise."""
    hbin = ck.build_harness("nn_default", ["nn_default.cpp"], link_ompl=True)
    combos = [(sp, pl) for sp in SPACES_CLAIM for pl in PLANNERS_MT]
    script = ["nndefault"] + ["sel %s %s" % c for c in combos]
    out, rc, err = ck.run_bin(hbin, script, timeout=120)
    out = out or []
    if rc != 0 or len(out) != len(combos):
        ck.report({"engine": ENGINE, "what": "nn_default harness failed", "class": "crash"}, script=script,
                  expected=["%d answers" % len(combos)], observed=(out + [(err or "")[-400:]]), engine=ENGINE)
        return
    drv = ["nn kind=linear metric=abs1"]
    real = []
    for (sp, pl), o in zip(combos, out):
        kv = dict(t.split("=") for t in o.split())
        real.append(kv)
        drv.append("defaultnn %s %s" % (kv["mt"], " ".join(kv["comps"].split(","))))
    model, rc2, err2 = ck.run_bin(ck.driver(DRIVER), drv)
    if rc2 != 0:
        raise RuntimeError("drv_nn failed: %s" % (err2 or "")[-500:])
    for i, ((sp, pl), kv) in enumerate(zip(combos, real)):
        ck.case(("defaultnn", sp, pl), True)
        ck.count("defaultnn:" + kv["kind"])
        problems = []
        want_kind = ("gnat" if kv["mt"] == "1" else "gnatnts") if kv["metric"] == "1" else "sqrt"
        if kv["kind"] in ("gnat", "gnatnts") and kv["metric"] != "1":
            problems.append("a GNAT variant was selected for a space that does not claim to be a metric space")
        if kv["kind"] != want_kind:
            problems.append("selected %s, the documented rule gives %s" % (kv["kind"], want_kind))
        if int(kv["metric"]) != SPACES_CLAIM[sp]:
            problems.append("isMetricSpace() is %s, expected %d for this space" % (kv["metric"], SPACES_CLAIM[sp]))
        if int(kv["mt"]) != PLANNERS_MT[pl]:
            problems.append("specs.multithreaded is %s, expected %d for this planner" % (kv["mt"], PLANNERS_MT[pl]))
        if problems and len(ck.violations) >= 3:
            ck.count("defaultnn:further-failures-not-reported")
            continue
        if problems:
            ck.report({"engine": ENGINE, "what": "default nearest-neighbour selection: " + "; ".join(problems),
                       "class": "default-selection", "space": sp, "planner": pl},
                      script=["nndefault", "sel %s %s" % (sp, pl)], expected=["metric=%d kind=%s" % (SPACES_CLAIM[sp], want_kind)],
                      observed=[out[i]], engine=ENGINE)
            continue
        got = model[i] if i < len(model) else "<missing>"
        want = "metric=%s kind=%s" % (kv["metric"], kv["kind"])
        if got != want:
            ck.disagreements += 1
            ck.report({"engine": ENGINE, "what": "model/implementation disagreement (default selection)"},
                      script=["nndefault", "sel %s %s" % (sp, pl)], expected=[got], observed=[want], found_input=False,
                      engine=ENGINE, obligation="correspondence nn: defaultNN / compoundIsMetric vs getDefaultNearestNeighbors on %s x %s" % (sp, pl))
    ck.traces_validated += 1


def corpus():
    d = os.path.join(core.VERIF, "corpus", "C10")
    out = []
    if os.path.isdir(d):
        for f in sorted(os.listdir(d)):
            if f.endswith(".txt"):
                out.append((f, [l.rstrip("\n") for l in open(os.path.join(d, f)) if l.strip()]))
    return out


def setup(ck):
    build(ck)
    ck.build_harness("nn_default", ["nn_default.cpp"], link_ompl=True)


def run(ck):
    import threading
    ck.rule = ("operation histories (corpus, random mixes over 4 structures x 4 metrics x 4 point distributions x GNAT "
               "parameter grid), each ending in a sweep over every k and the three kinds of radius; a history is non-trivial "
               "if it queries a structure holding >= 4 elements (GNAT: and the tree has an internal node); distinct by script text")
    ck.trusted += ["harness/nn.cpp opens `private`/`protected` of the NN headers for its own translation unit to dump tree_, removed_, offset_ and the k-centers RNG state",
                   "model abstractions: element ids instead of addresses, stable merge sort instead of std::sort, Option for +-infinity, sorted lists for the two priority queues",
                   "GNAT add/split/remove/rebuild/clear are modelled (Model/NNGnatOps.lean) and compared in lock-step: the model's operation on the previous dump, fed the k-centers draws of the real operation, must reproduce the next dump token for token; that they preserve GnatInv is proved for the model (Props/C10.lean) and additionally *checked on every dump* of the real tree"]
    ck.assumptions += ["the distance function is a metric (integer valued in the runs, so doubles are exact)",
                       "nearest() on an empty structure throws (outside the answer contract); points of the tabulated metric are 0..5"]
    ck.lean_build(LEAN_TARGETS)
    ck.audit(roots=["Drv.NN"])
    if ck.tier == "thorough" and ck.lean_ok:
        ck.leanchecker(["OmplModel.Props.C10"])
    hbin = build(ck)
    default_selection(ck)
    lock = threading.Lock()
    jobs = []
    kc_corpus = []
    for name, script in corpus():
        if any(ln.startswith("kc ") for ln in script[1:]):
            kc_corpus.append(script)
            continue
        jobs.append((script, "refill" if "refill" in name else "corpus"))     # refill scripts run with allocator reuse
    nper = 40 if ck.tier == "quick" else 400
    dnames = ["uniform", "dups", "lattice", "clusters"]
    metrics = list(METRICS)
    # generator class shrink-after-queries (stale rotating state across a shrink), all four structures; early in the queue
    shr_metrics = ["abs1", "l1", "linf", "abs3"]
    for kind, cnt in (("sqrt", 24), ("linear", 8), ("gnat", 8), ("gnatnts", 8)):
        for j in range(cnt if ck.tier == "quick" else 10 * cnt):
            r = ck.rng.fork("shrink-%s-%d" % (kind, j))
            prm = (gen_params(r, safe=True) if j % 2 else gen_boundary_params(r)) if kind.startswith("gnat") else None
            jobs.append((gen_shrink(r, kind, shr_metrics[j % 4], prm), "shrink-after-queries"))
            ck.count("shrink-after-queries:generated:" + kind)
    # generator class bulk add(vector) onto a leaf root that holds marked-removed elements (both GNAT variants)
    for kind in ("gnat", "gnatnts"):
        for j in range(12 if ck.tier == "quick" else 120):
            r = ck.rng.fork("bulkleaf-%s-%d" % (kind, j))
            jobs.append((gen_bulk_on_leaf_root(r, kind, shr_metrics[j % 4]), "bulk-add-on-leaf-root-with-removed"))
            ck.count("bulk-add-on-leaf-root-with-removed:generated:" + kind)
    # generator class remove-then-clear-then-refill (both GNAT variants)
    nref = 40 if ck.tier == "quick" else 400
    for kind in ("gnat", "gnatnts"):
        for j in range(nref):
            r = ck.rng.fork("refill-%s-%d" % (kind, j))
            jobs.append((gen_refill(r, kind, metrics[j % len(metrics)], dnames[(j // len(metrics)) % 4]), "refill"))
    # generator class stale-result-vector (all four structures)
    nemp = 12 if ck.tier == "quick" else 120
    for kind in KINDS:
        for j in range(nemp):
            r = ck.rng.fork("empty-%s-%d" % (kind, j))
            prm = gen_params(r, safe=True) if kind.startswith("gnat") else None
            jobs.append((gen_empty_states(r, kind, metrics[j % len(metrics)], prm, dnames[(j // len(metrics)) % 4]), "empty-states"))
    # generator class boundary parameters (degree 1, minDegree 1, leaf 0, cache 0/1), both GNAT variants
    nbnd = 24 if ck.tier == "quick" else 240
    for kind in ("gnat", "gnatnts"):
        for j in range(nbnd):
            r = ck.rng.fork("boundary-%s-%d" % (kind, j))
            prm = gen_boundary_params(r)
            for key in ("deg", "min", "max", "leaf", "cache"):
                ck.count("boundary-params:%s=%d" % (key, prm[key]))
            jobs.append((gen_script(r, kind, metrics[j % len(metrics)], prm, dnames[(j // len(metrics)) % 4], r.choice([25, 60]), maxn=30),
                         "random-boundary-params"))
    # degenerate constructor arguments (F400): oracle only
    for kind in ("gnat", "gnatnts"):
        for j in range(1 if ck.tier == "quick" else 6):
            r = ck.rng.fork("degenerate-%s-%d" % (kind, j))
            jobs.append((gen_degenerate(r, kind, ["abs1", "l1"][j % 2], dnames[j % 4]), "degenerate-params"))
    # GreedyKCenters::kcenters called directly, with its matrix
    kcjobs = list(kc_corpus)
    for j in range(16 if ck.tier == "quick" else 200):
        r = ck.rng.fork("kc-%d" % j)
        kcjobs.append(gen_kc(r, metrics[j % len(metrics)], dnames[(j // len(metrics)) % 4]))
    idx = 0
    for kind in KINDS:
        reps = nper * (3 if kind.startswith("gnat") else 1)
        for j in range(reps):
            r = ck.rng.fork("%s-%d" % (kind, j))
            metric = metrics[idx % len(metrics)]
            dname = dnames[(idx // len(metrics)) % 4]
            idx += 1
            prm = gen_params(r, safe=(j % 3 != 2)) if kind.startswith("gnat") else None
            nops = r.choice([25, 60, 120])
            jobs.append((gen_script(r, kind, metric, prm, dname, nops), "random-" + dname))
    jobs = [(with_ctor(sc), tag) for sc, tag in jobs]
    ck.count("gnat-constructor-variant:" + ("old (before 77efe5ce5)" if old_ctor() else "repaired (77efe5ce5)"))
    with concurrent.futures.ThreadPoolExecutor(max_workers=int(os.environ.get("VERIF_WORKERS", "8"))) as ex:
        futs = [ex.submit(judge, ck, hbin, s, tag, lock) for s, tag in jobs]
        futs += [ex.submit(judge_kc, ck, hbin, s, lock) for s in kcjobs]
        bad = sum(0 if f.result() else 1 for f in futs)
    ck.extra_cov["scripts_with_findings_or_alarms"] = bad
    return 0


def replay(ck, data):
    if data["script"] and data["script"][0] == "nndefault":
        hb = ck.build_harness("nn_default", ["nn_default.cpp"], link_ompl=True)
        out, rc, err = ck.run_bin(hb, data["script"], timeout=120)
        rcode = 0
        for ln, o in zip(data["script"][1:], out or []):
            sp, pl = ln.split()[1:3]
            kv = dict(t.split("=") for t in o.split())
            want = ("gnat" if kv["mt"] == "1" else "gnatnts") if kv["metric"] == "1" else "sqrt"
            ok = kv["kind"] == want and int(kv["metric"]) == SPACES_CLAIM.get(sp, int(kv["metric"]))
            print("%-24s impl: %s   %s" % (ln, o, "ok" if ok else "PROPERTY FAILS (rule gives %s, claim table %s)" % (want, SPACES_CLAIM.get(sp))))
            rcode |= 0 if ok else 1
        if rcode == 0:
            print("no failure on the current tree")
        return rcode
    hbin = build(ck)
    ck.lean_build([DRIVER])
    script = with_ctor(data["script"])
    if any(ln.startswith("kc ") for ln in script[1:]):
        metric = parse_header(script[0])["metric"]
        out, rc, err = run_impl(ck, hbin, script)
        drv = [script[0]] + ["kcm %s %s" % (o.split()[0][2:], ln[3:]) for ln, o in zip(script[1:], out)]
        model, _rc2, _e2 = ck.run_bin(ck.driver(DRIVER), drv)
        rcode = 0
        for i, ln in enumerate(script[1:]):
            o = out[i] if i < len(out) else "<missing: %s>" % (err or "")[-200:]
            print("%-40s impl:  %s" % (ln[:40], o[:300]))
            print("%-40s model: %s" % ("", (model[i] if model and i < len(model) else "<missing>")[:300]))
            w = kc_oracle(metric, ln, o) if i < len(out) and o != "bad-op" else "no answer"
            if w:
                print("PROPERTY (kcenters contract) FAILS: " + w)
                rcode = 1
            elif model and i < len(model) and model[i] != " ".join(o.split()[1:]):
                print("model and implementation disagree")
                rcode = 1
        if rcode == 0:
            print("no failure on the current tree")
        return rcode
    reuse = (data.get("record") or {}).get("alloc") == "reuse"
    if reuse:
        print("(allocator in reuse mode: ASan quarantine off, see REUSE_ENV)")
    out, res = evaluate(ck, hbin, script, reuse)
    for i, ln in enumerate(script[1:]):
        print("%-40s impl: %s" % (ln[:40], (out[i] if i < len(out) else "<missing>")[:300]))
    rc = 0
    if res["fail"]:
        print("PROPERTY FAILS at op %d: %s [%s]" % (res["fail"][0], res["fail"][1], classify(script, out, res)["class"]))
        rc = 1
    if res["inv"]:
        print("GnatInv fails on the dump after op %d: %s" % (res["inv"][0], res["inv"][1]))
        rc = 1
    if rc == 0 and not degenerate(parse_header(script[0])):
        corr = correspondence(ck, script, out)
        if corr:
            print("model and implementation disagree at op %d: %s (model %r, implementation %r)" % corr)
            rc = 1
    if rc == 0:
        print("no failure on the current tree")
    return rc


MANIFEST = {
    "engine": "nn",
    "category": "proof",
    "design_ref": "DESIGN.md 2.10",
    "text": "Lean 4 theorems over executable models of NearestNeighborsLinear / SqrtApprox (answers equal exhaustive search, "
            "size/list refine the abstract multiset for every operation sequence) and of both GNAT variants: nearestK / nearestR / "
            "nearest of the modelled query code (node queue, answer queue, sibling and radius pruning, equal-key rule) return "
            "exactly the brute-force answer over the live stored copies for every metric on a linearly ordered commutative ring, "
            "every tree satisfying the executable invariant GnatInv and every child visiting order, and never run out of fuel; "
            "the modelled operations (greedy k-centers for every first centre, split, Node::add, remove incl. the pivot test, "
            "rebuildDataStructure, add(vector), clear) establish / preserve GnatInv and refine the abstract multiset for every "
            "operation history and every draw sequence, hence after any history every query equals brute force "
            "(gnat_size_list_abs, gnat_history_queries_exact). Tied to the real templates by lock-step differential runs (Linear, "
            "SqrtApprox; the GNAT operations re-executed by the model from the previous dump of the real tree with the recorded "
            "k-centers draws, dumps compared token for token) and by state injection (the model's queries and the executable "
            "GnatInv run on dumps of the real GNAT trees after every operation), plus an independent brute-force "
            "multiset/distance-list oracle on the implementation's own outputs over a parameter grid. Callers: the model of "
            "SelfConfig::getDefaultNearestNeighbors hands a GNAT variant only to spaces claiming to be metric and SqrtApprox (exact "
            "nearestK/R for any distance function) otherwise (default_nn_exact_only_if_metric), compared with the real selection by "
            "dynamic type on shipped spaces x planners; the two GNAT variants agree (gnat_variants_agree) and are run against each "
            "other on identical histories. setDistanceFunction after adds (rebuild under the new function), reportsSortedResults, "
            "integrityCheck and operator<< are driven; exact distance ties are compared as sets (F202: the GNAT orders ties by "
            "address) while distance lists, size, list and the tree itself must be identical under two heap layouts. "
            "GreedyKCenters::kcenters is modelled WITH its Eigen matrix (resize rule, every write bounds-checked, cells unwritten "
            "until stored: kcenters_matrix_exact) and called directly with every relation between k, n and the caller's matrix, "
            "line by line against the model plus a contract oracle; boundary parameters (degree 1, minDegree 1, leaf 0, cache 0) run "
            "in lock-step; histories with setDistanceFunction between operations: gnat_history_with_set_distance_function.",
    "note": "Trusted: Lean kernel, the three standard axioms, the hand-written model outside what the correspondence explored "
            "(addresses -> ids, unstable sort, add()'s isRemoved test on the caller's object), the harness. Operation theorems "
            "assume the user's degree and minDegree >= 1 (established from the constructor: gnat_ctor_establishes_inv, "
            "gnat_history_from_ctor), dist x x = 0 <= dist x y, 0 < eps, and for remove a genuine metric. Known finding F400: "
            "degree = 0 / minDegree = 0 are accepted by the constructor and make split() call kcenters with k = 0, which writes "
            "into an n x 0 matrix (kcenters_zero_columns_fails, min_degree_zero_fails; replay notes/C10-F400-replay.json). "
            "F16 (= F19) is fixed in /repo.",
    "technique": "Lean 4 proof (multiset loop invariant over the two priority queues, generic in the k-nearest / radius collector; "
                 "triangle-inequality pruning lemmas under an executable invariant; greedy k-centers loop invariant; per-child "
                 "view of the split loop; refinement to a multiset over operation histories) + lock-step differential "
                 "correspondence with state injection",
}
