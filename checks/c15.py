"""C15 — informed sampling returns only, and all of, the states that can still help.

Obligations: theorems of lean/OmplModel/Props/C15.lean (kernel-checked, audited).
Correspondence (harness/phs.cpp linking the real libompl vs the Lean model drv_phs):
  * ProlateHyperspheroid lock-step, dimensions 2-8: constructor, setTransverseDiameter, transform,
    getPathLength, isInPhs/isOnPhs, getPhsMeasure, unitNBallMeasure.  The rotation is recovered from
    the real object through transform(); its hypotheses (RtR = I, R e1 = axis, 1e-9) are checked here
    and by the Lean driver before the model is applied.  Doubles are compared bit-exactly first, then
    at 1e-12 relative (Eigen's reduction order and tgamma are not modelled bit-exactly).
  * sampler decision logic lock-step: updatePhsDefinitions (which PHS survive, summed measure, branch
    choice), heuristicSolnCost, numberOfPhsInclusions/isInAnyPhs, getInformedMeasure, and the rejection
    loops of PathLengthDirectInfSampler (bounds branch / infinite cost) and RejectionInfSampler driven
    by SCRIPTED base-sampler draws (2- and 3-argument forms, iteration accounting).
Spec oracle (on the implementation's outputs only): surface images have focal sum c; flags agree with
the printed path length; measures equal the closed form; and for 1e4-1e5 samples per configuration
(direct / rejection / ordered samplers, R^n, SE(2), SE(3), 1-3 starts x 1-3 goals, cost bounds from
cmin(1+1e-9) to far beyond the bounds): success => satisfiesBounds and heuristic cost < c (>= minCost).
Tests reported in evidence (loose thresholds, z > 4.75 ~ p < 1e-6): chi-square uniformity on grids,
coverage of every interior grid cell, 1/k acceptance rate.
"""
import concurrent.futures
import json
import math
import os
import re

from lib import core
from lib.core import f2bits, bits2f

DRIVER = "drv_phs"
# The model variant follows the TREE UNDER TEST: two later /repo fixes changed what PathLengthDirectInfSampler does, and the check
# detects each in the source (so a revert of either runs against the pre-fix model and the independent oracle reports the old defect
# as a VIOLATION — neither is a known finding any more):
#   R36  (09980379c, was finding F36):  updatePhsDefinitions restores listPhsPtrs_ from allPhsPtrs_; heuristic / measure over all pairs
#   R130 (5852532a8, was finding F130): the private sampleUniform returns false when the one PHS left cannot improve on maxCost
#   R450 (repair of finding F450, notes/C15-fix-F450.diff): no uninformed part when informedIdx_ == uninformedIdx_ (a compound space
#         with a single R^n subspace): createFullState / getInformedMeasure test `uninformedSubSpace_`, not `isCompound()`
def _tree_flags():
    try:
        src = open(os.path.join(core.REPO, "src/ompl/base/samplers/informed/src/PathLengthDirectInfSampler.cpp")).read()
    except OSError:
        return False, False, False, False
    r450 = re.search(r"if \(uninformedIdx_ != informedIdx_\)", src) is not None and len(re.findall(r"if \(uninformedSubSpace_\)", src)) >= 2
    r36 = "listPhsPtrs_ = allPhsPtrs_;" in src and re.search(r"for \(const auto &phsPtr : allPhsPtrs_\)", src) is not None
    r130 = re.search(r"listPhsPtrs_\.size\(\) == 1u\s*&&\s*!\(listPhsPtrs_\.front\(\)->getMinTransverseDiameter\(\) < maxCost\.value\(\)\)", src) is not None
    # R451 (repair of finding F451, notes/C15-fix-F451.diff): an SE-typed compound must have one R^n AND one SO(n) subspace
    r451 = "does not have exactly one R^N and one SO(2)/SO(3)" in re.sub(r'"\s*\n\s*"', "", src)
    return r36, r130, r450, r451


R36, R130, R450, R451 = _tree_flags()
HDR = "phs seed=%d" + (" restore=1" if R36 else "") + (" degfix=1" if R130 else "") + (" cfsfix=1" if R450 else "") + (" ctorfix=1" if R451 else "")
# the space kinds of the sampler world: rv = RealVectorStateSpace; crv = CompoundStateSpace with ONE real-vector subspace; se2 / dubins / rs =
# the library's SE(2) classes; se2x = an SE(2)-typed compound with the subspaces the other way round (SO2, R^2); se3
SE2_LIKE = ("se2", "se2x", "dubins", "rs")
LEAN_TARGETS = ["OmplModel.Props.C15", DRIVER]
EPS = 2.220446049250313e-16
TOL = 1e-12


# ---------------------------------------------------------------------------------- small helpers
def vb(xs):
    return " ".join(f2bits(x) for x in xs)


def dist(a, b):
    s = 0.0
    for x, y in zip(a, b):
        s += (x - y) * (x - y)
    return math.sqrt(s)


def unit_ball(n):
    return math.pi ** (n / 2.0) / math.gamma(n / 2.0 + 1.0)


def phs_meas(n, cmin, c):
    return unit_ball(n) * (c / 2.0) * (math.sqrt(c * c - cmin * cmin) / 2.0) ** (n - 1)


def meas_tol(n, cmin, c):
    """relative tolerance for a PHS measure: sqrt(c*c - cmin*cmin) cancels when c is just above cmin, so a one-ulp
    difference in cmin (Eigen's reduction order) is amplified by c^2/(c^2-cmin^2)"""
    if not cmin < c:
        return TOL
    return TOL + 8 * n * EPS * c * c / (c * c - cmin * cmin)


def focal(x, s, g):
    return dist(s, x) + dist(x, g)


def on_focal_segment(x, pairs, tol=1e-9):
    """is x (within tol, relative to the focal distance) on the straight segment between the foci of some pair?  (the as-coded
    output of the degenerate branch: conjugate radius 0)"""
    for s_, g_ in pairs:
        cm = dist(s_, g_)
        if cm == 0:
            if dist(x, s_) <= tol:
                return True
            continue
        if abs(focal(x, s_, g_) - cm) <= tol * max(cm, 1.0):
            return True
    return False


def full_space_heuristic(P, all_):
    """InformedSampler::heuristicSolnCost for a path-length objective with GoalStates (threshold 0) on SE2 / SE3, recomputed
    independently: the space's own distance = |dxyz| + w * rotation distance (SE2: weight 0.5, SO2 arc; SE3: weight 1, SO3
    arc length acos|<q, q0>| with the 1-1e-9 clamp); starts and goals have yaw 0 / the identity quaternion"""
    n = P["n"]
    x = all_[:n]
    if P["kind"] in ("se2", "se2x"):
        a = abs(all_[2])
        rot = 0.5 * (a if a <= math.pi else 2 * math.pi - a)
    elif P["kind"] == "crv":
        rot = 0.0
    else:
        dq = abs(all_[6])
        rot = 0.0 if dq > 1.0 - 1e-9 else math.acos(dq)
    dg = min(dist(x, g) + rot for g in P["goals"])
    return min(dist(s_, x) + rot + max(dg, 0.0) for s_ in P["starts"])


def relclose(a, b, tol=TOL, floor=0.0):
    if a == b:
        return True
    if math.isnan(a) or math.isnan(b) or math.isinf(a) or math.isinf(b):
        return False
    return abs(a - b) <= tol * max(abs(a), abs(b), floor)


def fields(line):
    """'op k=v ~x=b1,b2' -> (op, {k: v})"""
    t = line.split()
    d = {}
    for tok in t[1:]:
        if "=" in tok:
            k, _, v = tok.partition("=")
            d[k] = v
    return (t[0] if t else ""), d


def fvec(s):
    return [bits2f(x) for x in s.split(",")] if s not in ("", "-") else []


class Cmp:
    """tolerant line comparison: `~name=bits[,bits…]` fields numerically, everything else textually."""

    def __init__(self):
        self.exact = 0
        self.approx = 0
        self.flagdrift = 0

    def line(self, a, b, scale, soft_flags=False, mtol=TOL, xabs=0.0):
        """None if equivalent, else a description."""
        if a == b:
            self.exact += a.count("~")
            return None
        ta, tb = a.split(), b.split()
        if len(ta) != len(tb):
            return "different shape"
        for x, y in zip(ta, tb):
            if x == y:
                if x.startswith("~"):
                    self.exact += 1
                continue
            if x.startswith("~") and y.startswith("~") and x.split("=")[0] == y.split("=")[0]:
                name = x.split("=")[0]
                try:
                    va, vb_ = fvec(x.split("=", 1)[1]), fvec(y.split("=", 1)[1])
                except ValueError:
                    return "unparsable field " + name
                if len(va) != len(vb_):
                    return "length of " + name
                for p, q in zip(va, vb_):
                    if name in ("~x", "~pl", "~h"):
                        ok = p == q or abs(p - q) <= TOL * scale + (xabs if name == "~x" else 0.0)
                    else:
                        ok = relclose(p, q, mtol)
                    if not ok:
                        return "%s differs: %r vs %r" % (name, p, q)
                self.approx += 1
                continue
            if soft_flags and "=" in x and x.split("=")[0] == y.split("=")[0] and x.split("=")[0] in ("in", "on", "k", "any"):
                self.flagdrift += 1
                continue
            return "token %r vs %r" % (x, y)
        return None


# ---------------------------------------------------------------------------------- PHS scripts
def gen_foci(rng, n):
    style = rng.below(10)
    sc = rng.choice([1e-8, 1e-6, 1e-3, 1.0, 1.0, 1.0, 30.0, 1e3])
    off = rng.choice([0.0, 0.0, 1.0, 1.0, 50.0, 1e3])
    if off > 0 and sc / off < 1e-7:
        off = rng.choice([0.0, 1.0]) if sc >= 1e-7 else 0.0
    f1 = [off * rng.uniform(-1, 1) + sc * rng.uniform(-1, 1) for _ in range(n)]
    if style == 0:        # axis-aligned along +e1 (R = I expected)
        f2 = list(f1)
        f2[0] += sc * rng.uniform(0.5, 2)
    elif style == 1:      # along -e1
        f2 = list(f1)
        f2[0] -= sc * rng.uniform(0.5, 2)
    elif style == 2:      # along another axis
        f2 = list(f1)
        f2[rng.below(n)] += sc * rng.uniform(0.5, 2) * rng.choice([-1, 1])
    else:
        f2 = [a + sc * rng.uniform(-1, 1) for a in f1]
    if dist(f1, f2) < 1e-2 * sc:
        f2[0] += sc
    return f1, f2


def rand_unit(rng, n):
    while True:
        v = [rng.uniform(-1, 1) for _ in range(n)]
        r = math.sqrt(sum(x * x for x in v))
        if 1e-3 < r <= 1.0:
            return [x / r for x in v]


EXACT2D = [(3, 4, 5), (5, 12, 13), (8, 15, 17), (20, 21, 29)]   # foci (+-a,0), point (0,b), c = 2*hyp


def gen_phs_script(rng, dims, per_dim):
    """returns (pre, ops): pre = header+new+probe lines; ops = [(line, meta)] (rot lines inserted later)."""
    news, ops, metas = [], [], []
    lastc = {}
    k = 0
    for n in dims:
        for rep in range(per_dim):
            exact = None
            if n == 2 and rep == 0 or rng.chance(1, 8):
                a, b, hyp = rng.choice(EXACT2D)
                s = rng.choice([0.25, 1.0, 2.0, 1024.0])
                f1 = [-a * s] + [0.0] * (n - 1)
                f2 = [a * s] + [0.0] * (n - 1)
                if rng.chance(1, 2):
                    f1, f2 = f2, f1
                exact = (a * s, b * s, 2 * hyp * s)
            else:
                f1, f2 = gen_foci(rng, n)
            cmin = dist(f1, f2)
            S0 = max(abs(x) for x in f1 + f2)
            news.append("new %d %s %s" % (n, vb(f1), vb(f2)))
            meta0 = {"k": k, "n": n, "f1": f1, "f2": f2, "cmin": cmin}
            ops.append(("tf %d %s" % (k, vb(rand_unit(rng, n))), dict(meta0, kind="tf-unset")))
            ops.append(("setc %d %s" % (k, f2bits(cmin * rng.uniform(0.1, 0.999))), dict(meta0, kind="setc-throw")))
            cs = [cmin * (1 + 1e-9), cmin * (1 + rng.uniform(1e-6, 1e-3)), cmin * rng.uniform(1.01, 2), cmin * rng.uniform(2, 50),
                  cmin * 1e6]
            if exact:
                cs = [exact[2]] + cs[1:3]
            for c in cs:
                S = c + S0
                m = dict(meta0, c=c, S=S)
                ops.append(("setc %d %s" % (k, f2bits(c)), dict(m, kind="setc")))
                for _ in range(3):
                    u = rand_unit(rng, n)
                    ops.append(("tf %d %s" % (k, vb(u)), dict(m, kind="tf-surface", u=u)))
                j = rng.below(n)
                e = [0.0] * n
                e[j] = rng.choice([-1.0, 1.0])
                ops.append(("tf %d %s" % (k, vb(e)), dict(m, kind="tf-surface", u=e)))
                ops.append(("tf %d %s" % (k, vb([0.0] * n)), dict(m, kind="tf-interior", u=[0.0] * n)))
                for _ in range(2):
                    r = rng.uniform(0, 0.99)
                    u = [r * x for x in rand_unit(rng, n)]
                    ops.append(("tf %d %s" % (k, vb(u)), dict(m, kind="tf-interior", u=u)))
                centre = [0.5 * (a + b) for a, b in zip(f1, f2)]
                for _ in range(3):
                    x = [p + c * rng.uniform(-0.6, 0.6) for p in centre]
                    ops.append(("pt %d %s" % (k, vb(x)), dict(m, kind="pt", x=x)))
                ops.append(("pt %d %s" % (k, vb(f1)), dict(m, kind="pt", x=f1)))
                if exact and c == exact[2]:
                    a_, b_, _ = exact
                    for x in ([0.0, b_], [0.0, -b_], [exact[2] / 2, 0.0], [-exact[2] / 2, 0.0]):
                        x = x + [0.0] * (n - 2)
                        ops.append(("pt %d %s" % (k, vb(x)), dict(m, kind="pt-on", x=x)))
                    for x in ([0.0, b_ * (1 - 2 ** -30)], [0.0, b_ * (1 + 2 ** -30)]):
                        x = x + [0.0] * (n - 2)
                        ops.append(("pt %d %s" % (k, vb(x)), dict(m, kind="pt", x=x)))
                ops.append(("meas %d %s" % (k, f2bits(c * rng.uniform(1, 3))), dict(m, kind="meas")))
            ops.append(("meas %d %s" % (k, f2bits(cmin * 0.5)), dict(meta0, kind="meas-throw")))
            lastc[k] = dict(meta0, c=cs[-1], S=cs[-1] + S0)
            k += 1
    # circle branch of updateRotation (start == goal, or closer than circleTol = 1e-9): identity rotation
    for n, sep in ((2, 0.0), (4, 0.0), (3, 5e-10)):
        f1 = [rng.uniform(-2, 2) for _ in range(n)]
        f2 = list(f1)
        if sep:
            f1[1] = 0.25
            f2[1] = 0.25 + sep
        cmin = dist(f1, f2)
        S0 = max(abs(x) for x in f1 + f2)
        news.append("new %d %s %s" % (n, vb(f1), vb(f2)))
        meta0 = {"k": k, "n": n, "f1": f1, "f2": f2, "cmin": cmin, "circle": True}
        ops.append(("tf %d %s" % (k, vb(rand_unit(rng, n))), dict(meta0, kind="tf-unset")))
        for c in (1e-3, 0.5, 7.0):
            m = dict(meta0, c=c, S=c + S0)
            ops.append(("setc %d %s" % (k, f2bits(c)), dict(m, kind="setc")))
            for _ in range(3):
                u = rand_unit(rng, n)
                ops.append(("tf %d %s" % (k, vb(u)), dict(m, kind="tf-surface", u=u)))
                uu = [rng.uniform(0, 0.99) * x for x in u]
                ops.append(("tf %d %s" % (k, vb(uu)), dict(m, kind="tf-interior", u=uu)))
            x = [p + c * rng.uniform(-0.6, 0.6) for p in f1]
            ops.append(("pt %d %s" % (k, vb(x)), dict(m, kind="pt", x=x)))
            ops.append(("meas %d %s" % (k, f2bits(c * 2)), dict(m, kind="meas")))
        lastc[k] = dict(meta0, c=7.0, S=7.0 + S0)
        k += 1
    # RNG::uniformProlateHyperspheroidSurface / uniformProlateHyperspheroid with replayed draws, PHSs visited in DESCENDING
    # dimension order (process-wide state left by a higher dimension must not leak); lines are completed after `uprobe`
    for kk in sorted(lastc, key=lambda q: (-lastc[q]["n"], q)):
        for kind in ("usurf", "uball", "uball"):
            seed = 1 + rng.below(10 ** 6)
            ops.append(("%s %d %d" % (kind, kk, seed), dict(lastc[kk], kind=kind, seed=seed)))
    for n in list(range(0, 13)) + [20, 50]:
        ops.append(("ball %d" % n, {"kind": "ball", "n": n}))
        r = rng.choice([0.5, 1.0, 2.0, rng.uniform(0.01, 30.0)])
        ops.append(("nball %d %s" % (n, f2bits(r)), {"kind": "nball", "n": n, "r": r}))
    return news, ops, k


def ulp_steps(c0, lo_guard):
    """consecutive diameters 1 ulp / 2 ulp / 1e-16 relative apart around c0, tightening and relaxing"""
    up, dn = (lambda x: math.nextafter(x, math.inf)), (lambda x: math.nextafter(x, -math.inf))
    seq = [c0, up(c0), up(up(c0)), up(c0), c0, dn(c0), dn(dn(c0)), dn(c0), c0, c0 * (1 + 1e-16), c0 * (1 + 2.3e-16),
           c0 * (1 - 1e-16), up(up(up(c0))), c0, c0 + 1e-16, c0 + 2e-16, c0 + 3e-16, c0 + 1e-16, c0, c0 - 1e-16, c0]
    return [c for c in seq if c > lo_guard]


def gen_ulp_script(rng, dims, per_dim):
    """ONE object, many setTransverseDiameter calls whose consecutive values are a few ulps / 1e-16 apart.  Foci
    (-a,0,…), (a,0,…) with a = 3·2^k, 5·2^k, …: cmin, conj radius and the exact surface points are then bit-identical
    in the code, the model and this oracle, so the tolerances stay at 1e-12 and the flags are compared strictly."""
    news, ops = [], []
    k = 0
    for n in dims:
        for rep in range(per_dim):
            a, b, hyp = rng.choice(EXACT2D)
            e = [-12, -10, -3, -2, 0][(rep + n) % 5] if rep < 5 else rng.choice([-12, -10, -3, -2, 0])
            sc = 2.0 ** e / (2.0 if hyp > 10 else 1.0)
            A, B_, H = a * sc, b * sc, hyp * sc
            f1 = [-A] + [0.0] * (n - 1)
            f2 = [A] + [0.0] * (n - 1)
            cmin = 2 * A
            news.append("new %d %s %s" % (n, vb(f1), vb(f2)))
            meta0 = {"k": k, "n": n, "f1": f1, "f2": f2, "cmin": cmin, "exact": True}
            c0 = 2 * H
            onpts = [[0.0, B_], [0.0, -B_], [H, 0.0], [-H, 0.0]]
            u_r = rand_unit(rng, n)
            up = lambda x: math.nextafter(x, math.inf)
            just = [cmin + j * math.ulp(cmin) for j in (4, 3, 2, 1, 2, 5, 1000, 1001, 999, 3)]
            if cmin < 1:
                just += [cmin + 2.2e-16, cmin + 1e-16, cmin + 3e-16, cmin + 2e-16, cmin + 4.4e-16, cmin + 2.3e-16]
            for phase, seq in (("surface", ulp_steps(c0, cmin)), ("focal", just)):
                for c in seq:
                    S = c + A
                    m = dict(meta0, c=c, S=S)
                    ops.append(("setc %d %s" % (k, f2bits(c)), dict(m, kind="setc")))
                    for j in (0, 1):
                        ev = [0.0] * n
                        ev[j] = 1.0
                        ops.append(("tf %d %s" % (k, vb(ev)), dict(m, kind="tf-axis", u=ev, j=j)))
                    ops.append(("tf %d %s" % (k, vb(u_r)), dict(m, kind="tf-surface", u=u_r)))
                    if phase == "surface":
                        for x in onpts:
                            x = x + [0.0] * (n - 2)
                            ops.append(("pt %d %s" % (k, vb(x)), dict(m, kind="pt", x=x, strict=True)))
                    else:
                        x = [A * rng.uniform(-0.9, 0.9), math.sqrt(max(c * c - cmin * cmin, 0.0)) / 2 * rng.uniform(0.2, 1.5)] + [0.0] * (n - 2)
                        ops.append(("pt %d %s" % (k, vb(x)), dict(m, kind="pt", x=x, strict=True)))
                    ops.append(("meas %d %s" % (k, f2bits(c)), dict(m, kind="meas")))
            k += 1
    return news, ops, k


def check_rot(n, f1, f2, R):
    """RtR = I, det = +1 and R e1 = (f2-f1)/cmin at 1e-9 (column-major R); foci closer than circleTol = 1e-9: R must be
    EXACTLY the identity (the circle branch of updateRotation)"""
    cols = [R[j * n:(j + 1) * n] for j in range(n)]
    if dist(f1, f2) < 1e-9:
        ident = all(cols[j][i] == (1.0 if i == j else 0.0) for i in range(n) for j in range(n))
        return (0.0, 0.0) if ident else (1.0, 1.0)
    worst = 0.0
    for i in range(n):
        for j in range(n):
            d = sum(a * b for a, b in zip(cols[i], cols[j]))
            worst = max(worst, abs(d - (1.0 if i == j else 0.0)))
    cmin = dist(f1, f2)
    axis = [(b - a) / cmin for a, b in zip(f1, f2)]
    worst_axis = max(abs(a - b) for a, b in zip(cols[0], axis))
    # updateRotation forces a proper rotation: det = +1 (Gaussian elimination with partial pivoting)
    M = [list(c) for c in cols]
    det = 1.0
    for i in range(n):
        piv = max(range(i, n), key=lambda r: abs(M[r][i]))
        if abs(M[piv][i]) < 1e-300:
            det = 0.0
            break
        if piv != i:
            M[i], M[piv] = M[piv], M[i]
            det = -det
        det *= M[i][i]
        for r in range(i + 1, n):
            fct = M[r][i] / M[i][i]
            for cc in range(i, n):
                M[r][cc] -= fct * M[i][cc]
    return max(worst, abs(det - 1.0)), worst_axis


def phs_oracle(line, meta, out):
    """spec on the implementation's own output line; returns None or a description"""
    op, d = fields(out)
    kind = meta["kind"]
    if out.startswith(("bad-op", "exception", "starved")):
        return "unexpected %r" % out
    if kind == "tf-unset":
        return None if out == "tf throw" else "transform before a diameter was set did not throw"
    if kind == "setc-throw":
        return None if out == "setc throw" else "transverse diameter below the focal distance accepted"
    if kind == "meas-throw":
        return None if out == "meas throw" else "measure for a diameter below the focal distance did not throw"
    if kind == "ball":
        m = bits2f(d["~m"])
        return None if relclose(m, unit_ball(meta["n"])) else "unitNBallMeasure(%d) = %r, closed form %r" % (meta["n"], m, unit_ball(meta["n"]))
    if kind in ("usurf", "uball"):
        if "~pl" not in d:
            return "%s failed: %s" % (kind, out)
        pl, c_, S_ = bits2f(d["~pl"]), meta["c"], meta["S"]
        if d.get("consumed") != "1":
            return ("uniformProlateHyperspheroid%s did not consume exactly this call's draws (uniformNormalVector of the PHS dimension %d%s)"
                    % ("Surface" if kind == "usurf" else "", meta["n"], "" if kind == "usurf" else " + one uniformReal"))
        if kind == "usurf" and abs(pl - c_) > TOL * S_:
            return "uniformProlateHyperspheroidSurface output has focal sum %r, transverse diameter %r" % (pl, c_)
        if kind == "uball" and pl > c_ + TOL * S_:
            return "uniformProlateHyperspheroid output has focal sum %r > transverse diameter %r" % (pl, c_)
        return None
    if kind == "nball":
        m = bits2f(d["~m"])
        want = unit_ball(meta["n"]) * meta["r"] ** meta["n"]
        return None if relclose(m, want) else "nBallMeasure(%d, %r) = %r, closed form %r" % (meta["n"], meta["r"], m, want)
    n, c, S, cmin = meta["n"], meta.get("c"), meta.get("S"), meta["cmin"]
    if kind == "setc":
        if not out.startswith("setc ok"):
            return "setTransverseDiameter(%r) failed: %s" % (c, out)
        m = bits2f(d["~m"])
        want = phs_meas(n, cmin, c)
        tol = TOL if meta.get("exact") else meas_tol(n, cmin, c)
        return None if relclose(m, want, tol) else "getPhsMeasure %r after setTransverseDiameter(%r), analytic volume for that diameter %r" % (m, c, want)
    if kind == "tf-axis":
        if "~x" not in d:
            return "transform failed: " + out
        x = fvec(d["~x"])
        centre = [0.5 * (p + q) for p, q in zip(meta["f1"], meta["f2"])]
        r = dist(x, centre)
        want = c / 2 if meta["j"] == 0 else math.sqrt(c * c - cmin * cmin) / 2
        if abs(r - want) > 1e-12 * want + 4 * EPS * max(abs(v) for v in centre + [0.0]):
            return "image of unit vector e%d lies %r from the centre; the radius for the current diameter %r is %r" % (meta["j"] + 1, r, c, want)
        return None
    if kind == "meas":
        cc = bits2f(line.split()[2])
        m = bits2f(d["~m"])
        return None if relclose(m, phs_meas(n, cmin, cc), TOL if meta.get("exact") else meas_tol(n, cmin, cc)) else "getPhsMeasure(c) %r, analytic volume %r" % (m, phs_meas(n, cmin, cc))
    if kind in ("tf-surface", "tf-interior"):
        if "~pl" not in d:
            return "transform failed: " + out
        pl = bits2f(d["~pl"])
        x = fvec(d["~x"])
        if not relclose(pl, focal(x, meta["f1"], meta["f2"]), TOL, S):
            return "getPathLength is not the sum of the focal distances"
        if kind == "tf-surface" and abs(pl - c) > TOL * S:
            return "image of a unit vector has focal sum %r, transverse diameter %r" % (pl, c)
        if kind == "tf-interior" and pl > c + TOL * S:
            return "image of an interior ball point has focal sum %r > %r" % (pl, c)
        return None
    if kind in ("pt", "pt-on"):
        pl = bits2f(d["~pl"])
        if not relclose(pl, focal(meta["x"], meta["f1"], meta["f2"]), TOL, S):
            return "getPathLength is not the sum of the focal distances"
        if d["in"] != ("1" if pl < c else "0"):
            return "isInPhs=%s but path length %r vs diameter %r" % (d["in"], pl, c)
        if d["on"] != ("1" if pl == c else "0"):
            return "isOnPhs=%s but path length %r vs diameter %r" % (d["on"], pl, c)
        if kind == "pt-on" and (d["in"], d["on"]) != ("0", "1"):
            return "exact surface point: isInPhs=%s isOnPhs=%s" % (d["in"], d["on"])
        return None
    return None


def phs_history(hdr, news, rots, body, upto, k):
    """minimal replayable script for PHS k: its `new`/`rot` lines and EVERY earlier setc on it (the object's history
    matters), then the failing op; the PHS is renumbered 0"""
    def ren(l):
        t = l.split()
        t[1] = "0"
        return " ".join(t)
    out = [hdr, news[k], ren(rots[k])]
    for l in body[:upto]:
        t = l.split()
        if t[0] == "setc" and t[1] == str(k):
            out.append(ren(l))
    out.append(ren(body[upto]))
    return out


def run_phs_scripts(ck, hbin, rng, nscripts, dims, per_dim, cmpst, tag="phs", gen=None):
    bad = 0
    for si in range(nscripts):
        r = rng.fork("%s%d" % (tag, si))
        news, ops, npx = (gen or gen_phs_script)(r, dims, per_dim)
        hdr = HDR % (1 + r.below(10 ** 6))
        uops = [(j, m["k"], m["seed"]) for j, (_, m) in enumerate(ops) if m.get("kind") in ("usurf", "uball")]
        pre = [hdr] + news + ["probe %d" % k for k in range(npx)] + ["uprobe %d %d" % (kk, sd) for _, kk, sd in uops]
        out, rc, err = ck.run_bin(hbin, pre)
        if out is not None and len(out) == 2 * npx + len(uops):
            for (j, kk, sd), ln in zip(uops, out[2 * npx:]):
                _, dd = fields(ln)
                ln0, m0 = ops[j]
                ops[j] = (ln0 + " " + dd["dir"].replace(",", " ") + ((" " + dd["u"]) if m0["kind"] == "uball" else ""), m0)
            out = out[:2 * npx]
        if out is None or rc != 0 or len(out) != 2 * npx:
            ck.report({"engine": "phs", "class": "harness-failure", "what": "probe run failed"}, script=pre, observed=(out or [])[-5:] + [str(rc), (err or "")[-800:]])
            return 1
        rots = []
        foci = {}
        for (ln, m) in ops:
            if "k" in m:
                foci[m["k"]] = m
        for k in range(npx):
            R = fvec(out[npx + k].split("=", 1)[1])
            m = foci[k]
            w1, w2 = check_rot(m["n"], m["f1"], m["f2"], R)
            ck.count("rotation-hypotheses-checked")
            if w1 > 1e-9 or w2 > 1e-9:
                ck.report({"engine": "phs", "class": "rotation-hypothesis", "what": "recovered rotation is not orthonormal with first column the focal axis"},
                          script=[hdr, news[k], "probe 0"], observed=[out[npx + k]], expected=["RtR-I <= 1e-9 (got %g), R e1 - axis <= 1e-9 (got %g)" % (w1, w2)])
                bad += 1
            rots.append("rot %d %s" % (k, vb(R)))
        script = [hdr] + news + rots + [ln for ln, _ in ops]
        metas = [{"kind": "new"}] * len(news) + [{"kind": "rot"}] * len(rots) + [m for _, m in ops]
        impl, rc, err, model = ck.run_pair(hbin, DRIVER, script)
        impl = impl or []
        ck.traces_validated += 1
        ck.count("scripts:" + tag)
        ck.sample({"generator": tag, "script": [l[:160] for l in script[:3] + script[len(news) + len(rots) + 1:len(news) + len(rots) + 6]]})
        if rc != 0 or len(impl) != len(script) - 1:
            ck.report({"engine": "phs", "class": "harness-failure", "what": "harness stopped early / sanitizer report"}, script=script,
                      observed=impl[-3:] + [str(rc), (err or "")[-1500:]])
            return bad + 1
        for i, (ln, m) in enumerate(zip(script[1:], metas)):
            o = impl[i]
            ck.count("op:" + ln.split()[0])
            ck.count("case:" + m["kind"])
            ck.case((ln,), m["kind"] in ("tf-surface", "tf-interior", "tf-axis", "pt", "pt-on", "setc", "meas", "usurf", "uball"))
            f = None
            if m["kind"] == "rot":
                f = None if o == "rot hyp=1" else "rotation line: " + o
            elif m["kind"] != "new":
                f = phs_oracle(ln, m, o)
            if f is not None:
                k = m.get("k")
                body = [l for l, _ in ops]
                small = phs_history(hdr, news, rots, body, i - len(news) - len(rots), k) if k is not None else [hdr, ln]
                ck.report({"engine": "phs", "class": "phs-" + m["kind"], "what": f}, script=small, observed=[o], expected=[f])
                ck.log("PHS oracle failure: %s (%s)" % (f, ln[:80]))
                bad += 1
                if bad >= 3:
                    return bad
            mt = TOL
            if m["kind"] == "setc" and not m.get("exact"):
                mt = meas_tol(m["n"], m["cmin"], m["c"])
            elif m["kind"] == "meas" and not m.get("exact"):
                mt = meas_tol(m["n"], m["cmin"], bits2f(ln.split()[2]))
            xa = 0.0
            if m["kind"] in ("tf-surface", "tf-interior") and not m.get("exact") and m["cmin"] < m["c"] < m["cmin"] * 1.001:
                # conjugate radius sqrt(c^2-cmin^2)/2: a one-ulp difference in cmin is amplified by the cancellation
                xa = 16 * EPS * m["c"] / math.sqrt(2 * (m["c"] - m["cmin"]) / m["cmin"])
            d = cmpst.line(o, model[i] if i < len(model) else "<missing>", m.get("S", 1.0), mtol=mt, xabs=xa,
                           soft_flags=True if m["kind"] in ("usurf", "uball") else (m["kind"] == "pt" and not m.get("strict") and abs(bits2f(fields(o)[1].get("~pl", "0")) - m["c"]) <= TOL * m["S"]) if m["kind"] == "pt" and "~pl" in fields(o)[1] else False)
            if d is not None and f is None:
                ck.disagreements += 1
                ck.report({"engine": "phs", "class": "correspondence", "what": d},
                          script=(phs_history(hdr, news, rots, [l for l, _ in ops], i - len(news) - len(rots), m["k"]) if "k" in m and i >= len(news) + len(rots) else script[:i + 2]),
                          expected=[model[i] if i < len(model) else "<missing>"],
                          observed=[o], found_input=False,
                          obligation="correspondence phs: ProlateHyperspheroid/GeometricEquations vs OmplModel.Model.Phs (%s: %s)" % (ln.split()[0], d))
                ck.log("model/implementation disagreement on %s: %s" % (ln[:60], d))
                bad += 1
                if bad >= 3:
                    return bad
    return bad


# ---------------------------------------------------------------------------------- sampler lock-step
def space_measures(kind, n, lo, hi):
    m = 1.0
    for _ in range(n):
        m *= hi - lo
    if kind in ("rv", "crv"):
        # crv: the compound measure is weight 1.0 * the subspace measure; there is no uninformed part
        return m, None, m
    # CompoundStateSpace::getMeasure multiplies by the subspace WEIGHTS (SE2: 1.0 and 0.5; SE3: 1.0 and 1.0), whereas
    # getInformedMeasure multiplies the PHS measures by the unweighted uninformedSubSpace_->getMeasure()
    um = 2.0 * math.pi if kind in SE2_LIKE else math.pi * math.pi
    return m, um, m * ((0.5 if kind in SE2_LIKE else 1.0) * um)


def gen_problem(rng, kind=None, n=None):
    kind = kind or "rv"
    n = n or (rng.choice([2, 2, 3, 4, 6]) if kind in ("rv", "crv") else (2 if kind in SE2_LIKE else 3))
    lo, hi = rng.choice([(-10.0, 10.0), (0.0, 1.0), (-1000.0, 1000.0), (-1.0, 3.0)])
    ns, ng = rng.range(1, 3), rng.range(1, 3)
    w = hi - lo
    starts = [[lo + w * rng.uniform(0.1, 0.9) for _ in range(n)] for _ in range(ns)]
    goals = [[lo + w * rng.uniform(0.1, 0.9) for _ in range(n)] for _ in range(ng)]
    return {"kind": kind, "n": n, "lo": lo, "hi": hi, "starts": starts, "goals": goals}


def prob_lines(P):
    sp = "space %s %d %s %s" % (P["kind"], P["n"], f2bits(P["lo"]), f2bits(P["hi"])) if P["kind"] in ("rv", "crv") else \
        "space %s %s %s" % (P["kind"], f2bits(P["lo"]), f2bits(P["hi"]))
    return [sp, "starts %d %s" % (len(P["starts"]), " ".join(vb(s) for s in P["starts"])),
            "goals %d %s" % (len(P["goals"]), " ".join(vb(g) for g in P["goals"]))]


def pairs_of(P):
    return [(s, g) for s in P["starts"] for g in P["goals"]]


def rand_point(rng, P, near=None):
    lo, hi = P["lo"], P["hi"]
    if near is not None and rng.chance(2, 3):
        s, g, c = near
        t = rng.unit()
        return [a + t * (b - a) + c * rng.uniform(-0.4, 0.4) for a, b in zip(s, g)]
    return [rng.uniform(lo - 0.1 * (hi - lo), hi + 0.1 * (hi - lo)) for _ in range(P["n"])]


def smp_lockstep(ck, hbin, rng, tag, cmpst, nonmonotone=False):
    """one direct-sampler script + one rejection-sampler script on the same problem.  returns #bad"""
    P = gen_problem(rng)
    def _nm_ok(P_):
        cm_ = [dist(s, g) for s, g in pairs_of(P_)]
        if len(set(cm_)) < 2:
            return False          # the erasure scenario needs at least two different focal distances
        tot_ = space_measures("rv", P_["n"], P_["lo"], P_["hi"])[2]
        return sum(phs_meas(P_["n"], c_, max(cm_) * 1.5) for c_ in cm_) < 0.5 * tot_   # so that the informed measure is not capped
    while nonmonotone and not _nm_ok(P):
        P = gen_problem(rng)
    n, lo, hi = P["n"], P["lo"], P["hi"]
    pairs = pairs_of(P)
    cmins = [dist(s, g) for s, g in pairs]
    iters = rng.choice([1, 2, 5, 20, 100])
    hdr = HDR % (1 + rng.below(10 ** 6))
    head = [hdr] + prob_lines(P) + ["mk direct %d %s" % (iters, f2bits(0.0))]
    out, rc, err = ck.run_bin(hbin, head + ["sprobe"])
    if not out or rc != 0 or not out[-1].startswith("sprobe"):
        ck.report({"engine": "phs", "class": "harness-failure", "what": "sprobe failed"}, script=head + ["sprobe"], observed=(out or []) + [str(rc), (err or "")[-800:]])
        return 1
    srots = []
    for i, tok in enumerate(out[-1].split()[1:]):
        R = fvec(tok.split("=", 1)[1])
        w1, w2 = check_rot(n, pairs[i][0], pairs[i][1], R)
        ck.count("rotation-hypotheses-checked")
        if w1 > 1e-9 or w2 > 1e-9:
            ck.report({"engine": "phs", "class": "rotation-hypothesis", "what": "sampler PHS rotation is not orthonormal with first column the focal axis"},
                      script=head + ["sprobe"], observed=[out[-1]])
            return 1
        srots.append("srot %d %s" % (i, vb(R)))
    inf, um, tot = space_measures("rv", n, lo, hi)
    ops = []      # (line, meta)
    S = max(abs(lo), abs(hi)) * 2 + 1.0
    diam = (hi - lo) * math.sqrt(n)
    costs = sorted(set([max(cmins) * 1.5, max(cmins) * (1 + 1e-9), min(cmins) * 1.3, min(cmins) * (1 + 1e-6), min(cmins) * (1 + 1e-9)]
                       + [c * rng.uniform(1.001, 1.2) for c in cmins]), reverse=True)
    if nonmonotone:
        small = min(cmins) * 1.01 if len(set(cmins)) > 1 else min(cmins) * 0.9
        costs = [small, max(cmins) * 1.5]
    # rejection loops driven by scripted base draws: cost far beyond the bounds (bounds branch) and infinity
    if not nonmonotone:
        big = diam * rng.choice([8.0, 100.0, 1e6])
        for rep in range(6):
            k = rng.range(0, iters + 2)
            cands = [rand_point(rng, P) if rng.chance(1, 2) else [1e3 * big * rng.choice([-1, 1])] * n for _ in range(k)]
            if k:
                ops.append(("base %d %s" % (k, " ".join(vb(x) for x in cands)), {"kind": "base"}))
            form = rng.below(3)
            if form == 0:
                ops.append(("su %s" % f2bits(big), {"kind": "su", "c": big, "sampler": "direct", "iters": iters, "S": S + big}))
            elif form == 1:
                minc = max(cmins) * rng.uniform(0.5, 3)
                ops.append(("su3 %s %s" % (f2bits(minc), f2bits(big)), {"kind": "su3", "c": big, "minc": minc, "sampler": "direct", "iters": iters, "S": S + big}))
            else:
                ops.append(("su inf", {"kind": "su", "c": math.inf, "sampler": "direct", "iters": iters, "S": S}))
    alive = list(range(len(pairs)))
    for c in costs:
        # python mirror of updatePhsDefinitions on the alive list
        if R36:
            alive = list(range(len(pairs)))
        new_alive = []
        sz = len(alive)
        for idx in alive:
            if cmins[idx] < c:
                new_alive.append(idx)
            elif sz > 1:
                sz -= 1
            else:
                new_alive.append(idx)
        alive = new_alive
        deg = len(alive) == 1 and not cmins[alive[0]] < c
        m = {"kind": "upd", "c": c, "alive": list(alive), "deg": deg, "S": S + c}
        ops.append(("upd %s" % f2bits(c), m))
        ops.append(("im %s" % f2bits(c), dict(m, kind="im")))
        if not deg:
            mc2 = c * rng.choice([0.5, 0.8, 0.95])
            ops.append(("im2 %s %s" % (f2bits(mc2), f2bits(c)), dict(m, kind="im2", minc=mc2)))
        if deg:
            continue
        for _ in range(4):
            idx = rng.choice(range(len(pairs)))
            x = rand_point(rng, P, (pairs[idx][0], pairs[idx][1], c))
            ops.append(("hc %s" % vb(x), dict(m, kind="hc", x=x)))
            ops.append(("nin %s" % vb(x), dict(m, kind="nin", x=x)))
        if nonmonotone:
            # the midpoint of every start/goal pair has heuristic cost = that pair's focal distance
            for s_, g_ in pairs:
                x = [(a + b) / 2 for a, b in zip(s_, g_)]
                ops.append(("nin %s" % vb(x), dict(m, kind="nin", x=x)))
    if not nonmonotone:
        # history: a start state added to the problem AFTER the sampler was built.  As coded the direct sampler keeps the PHSs of its
        # construction (planners re-allocate the sampler when starts/goals change); its heuristic must not change
        xs_new = [lo + (hi - lo) * rng.uniform(0.2, 0.8) for _ in range(n)]
        ops.append(("addstart %s" % vb(xs_new), {"kind": "addstart", "x": xs_new}))
        for _ in range(3):
            x = rand_point(rng, P, (xs_new, pairs[0][1], costs[-1]))
            ops.append(("hc %s" % vb(x), {"kind": "hc", "x": x, "c": costs[-1], "alive": list(alive), "S": S + costs[-1]}))
    script = head + srots + [l for l, _ in ops]
    metas = [{"kind": "setup"}] * (len(head) - 1 + len(srots)) + [m for _, m in ops]
    bad = judge_smp(ck, hbin, script, metas, P, cmpst, tag + ("-nonmono" if nonmonotone else "-direct"), nonmonotone)
    if nonmonotone or bad:
        return bad
    # ---- rejection sampler
    thr = rng.choice([0.0, EPS, 0.01 * min(cmins)])
    head = [hdr] + prob_lines(P) + ["mk rej %d %s" % (iters, f2bits(thr))]
    ops = []
    for rep in range(8):
        c = rng.choice([max(cmins) * 1.5, min(cmins) * rng.uniform(1.01, 1.5), diam * 4, math.inf])
        k = rng.range(0, iters + 2)
        idx = rng.below(len(pairs))
        cands = [rand_point(rng, P, (pairs[idx][0], pairs[idx][1], c if c < math.inf else diam)) for _ in range(k)]
        if k:
            ops.append(("base %d %s" % (k, " ".join(vb(x) for x in cands)), {"kind": "base"}))
        for x in cands[:2]:
            ops.append(("hc %s" % vb(x), {"kind": "bh", "x": x, "thr": thr, "S": S + diam}))
        cs = "inf" if c == math.inf else f2bits(c)
        if rng.chance(1, 2):
            ops.append(("su %s" % cs, {"kind": "su", "c": c, "sampler": "rej", "iters": iters, "thr": thr, "S": S + diam}))
        else:
            minc = min(cmins) * rng.uniform(0.9, 1.4)
            ops.append(("su3 %s %s" % (f2bits(minc), cs), {"kind": "su3", "c": c, "minc": minc, "sampler": "rej", "iters": iters, "thr": thr, "S": S + diam}))
        ops.append(("im %s" % f2bits(diam), {"kind": "im-rej"}))
        # the StateSampler wrapper planners use: informed attempt, else one regular base sample
        k2 = rng.range(1, iters + 2)
        cands = [rand_point(rng, P, (pairs[idx][0], pairs[idx][1], c if c < math.inf else diam)) if rng.chance(2, 3)
                 else [lo + (hi - lo) * rng.unit() for _ in range(n)] for _ in range(k2)]
        ops.append(("base %d %s" % (k2, " ".join(vb(x) for x in cands)), {"kind": "base"}))
        ops.append(("iss %s" % cs, {"kind": "iss", "c": c, "sampler": "rej", "iters": iters, "thr": thr, "S": S + diam}))
    # history: InformedSampler::heuristicSolnCost reads the problem definition live -> the rejection sampler follows an added start
    xs_new = [lo + (hi - lo) * rng.uniform(0.2, 0.8) for _ in range(n)]
    ops.append(("addstart %s" % vb(xs_new), {"kind": "addstart", "x": xs_new}))
    for _ in range(3):
        x = rand_point(rng, P, (xs_new, pairs[0][1], diam))
        ops.append(("hc %s" % vb(x), {"kind": "bh", "x": x, "thr": thr, "S": S + diam}))
    cnew = dist(xs_new, P["goals"][0]) * 1.2
    cands = [rand_point(rng, P, (xs_new, P["goals"][0], cnew)) for _ in range(iters + 1)]
    ops.append(("base %d %s" % (len(cands), " ".join(vb(x) for x in cands)), {"kind": "base"}))
    ops.append(("su %s" % f2bits(cnew), {"kind": "su", "c": cnew, "sampler": "rej", "iters": iters, "thr": thr, "S": S + diam}))
    script = head + [l for l, _ in ops]
    metas = [{"kind": "setup"}] * (len(head) - 1) + [m for _, m in ops]
    return judge_smp(ck, hbin, script, metas, P, cmpst, tag + "-rej", False)


def base_heur(P, thr, x):
    dg = min(dist(x, g) for g in P["goals"])
    togo = max(dg - thr, 0.0)
    return min(dist(s, x) + togo for s in P["starts"])


def judge_smp(ck, hbin, script, metas, P, cmpst, tag, nonmonotone):
    impl, rc, err, model = ck.run_pair(hbin, DRIVER, script)
    impl = impl or []
    ck.traces_validated += 1
    ck.count("scripts:" + tag)
    ck.sample({"generator": tag, "script": [l[:140] for l in script[:5]] + ["…(%d more)" % (len(script) - 5)]})
    if rc != 0 or len(impl) != len(script) - 1:
        ck.report({"engine": "phs", "class": "harness-failure", "what": "harness stopped early / sanitizer report"}, script=script,
                  observed=impl[-3:] + [str(rc), (err or "")[-1500:]])
        return 1
    pairs = pairs_of(P)
    cmins = [dist(s, g) for s, g in pairs]
    n, lo, hi = P["n"], P["lo"], P["hi"]
    inf, um, tot = space_measures(P["kind"], n, lo, hi)
    bad = 0
    queue = []
    for i, (ln, m) in enumerate(zip(script[1:], metas)):
        o = impl[i]
        op, d = fields(o)
        kind = m["kind"]
        ck.count("op:" + ln.split()[0])
        f = None
        fclass = "sampler-" + kind
        if o.startswith(("bad-op", "exception", "starved")):
            f = "unexpected %r" % o
        elif kind == "upd":
            c, alive = m["c"], m["alive"]
            if d["ids"] != ",".join(map(str, alive)):
                f = "PHS list after update is %s, expected %s" % (d["ids"], alive)
            else:
                want = 0.0 if m["deg"] else sum(phs_meas(n, cmins[j], c) for j in alive)
                if not relclose(bits2f(d["~sum"]), want, TOL if m.get("strict") else max(meas_tol(n, cmins[j], c) for j in alive)):
                    f = "summed measure %r, analytic %r" % (bits2f(d["~sum"]), want)
                elif not relclose(inf, want / max(len(alive), 1), 1e-9) and d["branch"] != ("B" if inf < want / len(alive) else "P"):
                    f = "branch %s with space measure %r and mean PHS measure %r" % (d["branch"], inf, want / len(alive))
                ck.count("branch:" + d.get("branch", "?"))
        elif kind == "im":
            c = m["c"]
            want = min(tot, sum(phs_meas(n, cmins[j], c) for j in m["alive"] if cmins[j] < c))
            if d.get("has") != "1":
                f = "hasInformedMeasure is false for the direct sampler"
            elif not relclose(bits2f(d["~m"]), want, TOL if m.get("strict") else max(meas_tol(n, cmins[j], c) for j in m["alive"])):
                f = "getInformedMeasure %r, analytic %r" % (bits2f(d["~m"]), want)
            elif nonmonotone:
                # the informed set for bound c is the union over ALL start/goal pairs with focal distance < c
                want_all = min(tot, sum(phs_meas(n, cm_, c) for cm_ in cmins if cm_ < c))
                if bits2f(d["~m"]) < want_all * (1 - 1e-6):
                    f = ("getInformedMeasure(%r) = %r omits start/goal pairs erased by an earlier, lower bound (all pairs with focal distance < c: %r)"
                         % (c, bits2f(d["~m"]), want_all))
                    fclass = "erased-phs-not-restored"
        elif kind == "im2":
            c, mc2 = m["c"], m["minc"]
            hi_ = min(tot, sum(phs_meas(n, cmins[j], c) for j in m["alive"] if cmins[j] < c))
            lo_ = min(tot, sum(phs_meas(n, cmins[j], mc2) for j in m["alive"] if cmins[j] < mc2))
            tol = max([meas_tol(n, cmins[j], c) for j in m["alive"]] + [meas_tol(n, cmins[j], mc2) for j in m["alive"] if cmins[j] < mc2])
            if abs(bits2f(d["~m"]) - (hi_ - lo_)) > tol * max(hi_, lo_):
                f = "getInformedMeasure(minCost, maxCost) = %r, analytic difference %r" % (bits2f(d["~m"]), hi_ - lo_)
        elif kind == "im-rej":
            if d.get("has") != "0" or not relclose(bits2f(d["~m"]), tot):
                f = "rejection sampler: informed measure %s has=%s, expected the space measure %r and has=0" % (d.get("~m"), d.get("has"), tot)
        elif kind == "hc":
            want = min(focal(m["x"], *pairs[j]) for j in (range(len(pairs)) if R36 else m["alive"]))
            if not relclose(bits2f(d["~h"]), want, TOL, m["S"]):
                f = "heuristicSolnCost %r, best focal sum over the live PHSs %r" % (bits2f(d["~h"]), want)
        elif kind == "bh":
            want = base_heur(P, m["thr"], m["x"])
            if not relclose(bits2f(d["~h"]), want, TOL, m["S"]):
                f = "InformedSampler::heuristicSolnCost %r, expected %r" % (bits2f(d["~h"]), want)
        elif kind == "nin":
            c, x = m["c"], m["x"]
            fs = [focal(x, *pairs[j]) for j in m["alive"]]
            near = (not m.get("strict")) and any(abs(v - c) <= TOL * m["S"] for v in fs)
            k = sum(1 for v in fs if v < c)
            if not near and (d["k"] != str(k) or d["any"] != ("1" if k else "0")):
                f = "numberOfPhsInclusions=%s isInAnyPhs=%s, expected %d" % (d["k"], d["any"], k)
            # "no helpful state excluded": min over ALL start/goal pairs
            allmin = min(focal(x, *p) for p in pairs)
            if f is None and (allmin < c - TOL * m["S"] or (m.get("strict") and allmin < c)) and d["any"] != "1":
                f = "a state with heuristic cost %r < %r is in no PHS (it can never be sampled)" % (allmin, c)
                fclass = "erased-phs-not-restored" if nonmonotone else "helpful-state-excluded"
            ck.count("nin:k=%s" % d.get("k"))
        elif kind == "addstart":
            if not o.startswith("addstart ok"):
                f = "addStartState failed: " + o
            P = dict(P, starts=P["starts"] + [m["x"]])     # base_heur (rejection sampler) sees it; `pairs` (direct sampler) do not
            ck.count("history:start-added-after-construction")
        elif kind == "base":
            toks = ln.split()
            cnt = int(toks[1])
            vals = toks[2:]
            for a in range(cnt):
                queue.append(vals[a * n:(a + 1) * n])
        elif kind == "iss":
            c = m["c"]
            if o.endswith("starved"):
                ck.count("iss:starved")
                queue = []
            elif o.endswith("phs-branch"):
                ck.count("iss:phs-branch(not scripted)")
            else:
                used = int(d["used"])
                consumed, queue = queue[:used], queue[used:]
                ck.case((tag, ln, i), True)
                hs = [base_heur(P, m["thr"], fvec(",".join(q))) if m["sampler"] == "rej" else min(focal(fvec(",".join(q)), *p) for p in pairs) for q in consumed]
                x = fvec(d["x"])
                if used == 0 or ",".join(consumed[-1]) != d["x"]:
                    f = "InformedStateSampler returned a state that is not the last base draw it consumed"
                elif used > m["iters"] + 1:
                    f = "InformedStateSampler consumed %d draws with numIters=%d (+1 fallback)" % (used, m["iters"])
                elif any(h < c - TOL * m["S"] for h in hs[:-1]):
                    f = "an earlier draw already had heuristic cost below the bound but was not returned"
                elif used < m["iters"] and c < math.inf and not hs[-1] < c + TOL * m["S"]:
                    f = "InformedStateSampler stopped early on a draw with cost %r >= bound %r" % (hs[-1], c)
                elif d["inb"] != ("1" if all(lo - EPS <= v <= hi + EPS for v in x) else "0"):
                    f = "satisfiesBounds flag inconsistent with the state"
                ck.count("iss:%s" % ("fallback" if used == m["iters"] + 1 else "informed-or-last"))
        elif kind in ("su", "su3"):
            c = m["c"]
            if o.endswith("phs-branch"):
                ck.count("su:phs-branch(not scripted)")
            elif o.endswith("starved"):
                ck.count("su:starved")
                queue = []
            else:
                used = int(d["used"])
                found = d["found"] == "1"
                consumed, queue = queue[:used], queue[used:]
                ck.count("su:found=%s" % d["found"])
                ck.case((tag, ln), True)
                if used > max(m["iters"], 1) or (c < math.inf and used > m["iters"]):
                    f = "%d base draws consumed with numIters=%d" % (used, m["iters"])
                elif found:
                    if used == 0 or ",".join(consumed[-1]) != d["x"]:
                        f = "returned state is not the last base draw"
                    else:
                        x = fvec(d["x"])
                        inb = all(lo - EPS <= v <= hi + EPS for v in x)
                        h = base_heur(P, m["thr"], x) if m["sampler"] == "rej" else min(focal(x, *p) for p in pairs)
                        if c < math.inf and not h < c and abs(h - c) > TOL * m["S"]:
                            f = "success with heuristic cost %r >= maxCost %r" % (h, c)
                        elif kind == "su3" and h < m["minc"] and abs(h - m["minc"]) > TOL * m["S"]:
                            f = "success with heuristic cost %r < minCost %r" % (h, m["minc"])
                        elif not inb and c < math.inf and m["sampler"] == "rej":
                            pass   # scripted draws may be outside on purpose; the real base sampler never is (C08)
        if f is not None:
            pre = [script[0]] + [l for l, mm in zip(script[1:], metas) if mm["kind"] in ("setup",)]
            keep = [l for l, mm in list(zip(script[1:], metas))[:i + 1] if mm["kind"] in ("upd", "base") or l == ln]
            rec = {"engine": "phs", "class": fclass, "what": f}
            if fclass == "erased-phs-not-restored":
                # reached only after the as-coded checks of this very line passed (PHS list / inclusion count / measure equal the
                # mirror of updatePhsDefinitions' erasure): any OTHER wrong value has another class and is a VIOLATION
                rec["as_coded"] = "value equals the mirror of the coded erasure"
            if ck.report(rec, script=pre + keep, observed=[o], expected=[f]):
                ck.log("sampler oracle failure (%s): %s" % (fclass, f))
                bad += 1
                if bad >= 3:
                    return bad
        mt = max([meas_tol(n, cmins[j], m["c"]) for j in m["alive"]] + [TOL]) if kind in ("upd", "im") and not m.get("strict") else TOL
        if kind == "im2":
            mt = 1e-6
        dd = cmpst.line(o, model[i] if i < len(model) else "<missing>", m.get("S", 1.0), mtol=mt,
                        soft_flags=(kind == "nin" and not m.get("strict") and any(abs(focal(m["x"], *pairs[j]) - m["c"]) <= TOL * m["S"] for j in m["alive"])))
        if dd is not None and f is None:
            ck.disagreements += 1
            ck.report({"engine": "phs", "class": "correspondence", "what": dd}, script=script[:i + 2], expected=[model[i] if i < len(model) else "<missing>"],
                      observed=[o], found_input=False,
                      obligation="correspondence phs: informed sampler decision logic vs OmplModel.Model.Phs (%s: %s)" % (ln.split()[0], dd))
            ck.log("model/implementation disagreement on %s: %s" % (ln[:60], dd))
            bad += 1
            if bad >= 3:
                return bad
    return bad


# ---------------------------------------------------------------------------------- bulk sampling (oracle only)
def wilson_hilferty(chi2, df):
    if df <= 0:
        return 0.0
    return ((chi2 / df) ** (1.0 / 3) - (1 - 2.0 / (9 * df))) / math.sqrt(2.0 / (9 * df))


def bulk_configs(rng, tier):
    """list of dicts: problem + sampler + cost (+ minc) + N + tests"""
    N = 40000 if tier == "quick" else 200000
    cfgs = []

    def add(P, sampler, cfac, iters=100, minfac=None, n=N, tests=(), batch=10, name=""):
        pairs = pairs_of(P)
        cm = [dist(s, g) for s, g in pairs]
        c = cfac(cm) if callable(cfac) else cfac
        cfgs.append({"P": P, "sampler": sampler, "c": c, "minc": (minfac(cm) if minfac else None), "iters": iters, "N": n,
                     "tests": tests, "batch": batch, "name": name})

    # uniformity / coverage configurations (PHS well inside the bounds)
    P1 = {"kind": "rv", "n": 2, "lo": -10.0, "hi": 10.0, "starts": [[-2.0, -1.0]], "goals": [[2.5, 1.5]]}
    add(P1, "direct", lambda cm: cm[0] * 1.25, tests=("disk", "grid"), name="rv2-1x1-inside")
    P2 = {"kind": "rv", "n": 2, "lo": -10.0, "hi": 10.0, "starts": [[-2.0, 0.0], [0.0, -2.0]], "goals": [[2.0, 0.5], [0.5, 3.0]]}
    add(P2, "direct", lambda cm: max(cm) * 1.15, tests=("grid",), name="rv2-2x2-overlap")
    P3 = {"kind": "se2", "n": 2, "lo": -5.0, "hi": 5.0, "starts": [[-1.0, -1.0]], "goals": [[1.5, 0.5], [-1.0, 2.0]]}
    add(P3, "direct", lambda cm: max(cm) * 1.2, tests=("grid", "yaw"), name="se2-1x2")
    P4 = {"kind": "rv", "n": 2, "lo": -1.0, "hi": 1.0, "starts": [[-0.5, 0.0]], "goals": [[0.5, 0.2]]}
    add(P4, "direct", lambda cm: cm[0] * 2.2, tests=("grid",), name="rv2-clipped-by-bounds")
    add(P4, "rej", lambda cm: cm[0] * 1.4, tests=("grid",), name="rv2-rejection")
    add(P1, "ord-direct", lambda cm: cm[0] * 1.25, n=N // 2, tests=("grid",), name="rv2-ordered-direct")
    add(P4, "ord-rej", lambda cm: cm[0] * 1.6, n=N // 4, name="rv2-ordered-rejection")
    # F144 regression (fixed by d1f394c05): ordered sampler over the direct sampler on SE(2) with a bound so tight that the
    # full-space heuristic (incl. rotation) of most wrapped successes is not below it: a fresh batch whose best fails the bound
    # must make the call return false (the old loop drew batches for ever -> this configuration would time out)
    add(P3, "ord-direct", lambda cm: max(cm) * 1.03, n=max(N // 40, 500), batch=3, name="se2-ordered-fresh-batch")
    P5 = {"kind": "se3", "n": 3, "lo": -4.0, "hi": 4.0, "starts": [[-1.0, 0.0, 0.5]], "goals": [[1.0, 1.0, -0.5]]}
    add(P5, "direct", lambda cm: cm[0] * 1.3, tests=("quat",), name="se3-1x1")
    add(P5, "rej", lambda cm: cm[0] * 2.5, n=N // 2, tests=("quat",), name="se3-rejection")
    # three-argument form on compound spaces: the lower bound must be tested on the sampler's own (position-only)
    # heuristic, not on the full-space one that includes the rotation distance
    add(P3, "direct", lambda cm: max(cm) * 1.3, minfac=lambda cm: max(cm) * 1.3 * 0.85, n=N // 4, name="se2-three-arg")
    add(P5, "direct", lambda cm: cm[0] * 1.3, minfac=lambda cm: cm[0] * 1.3 * 0.85, n=N // 4, name="se3-three-arg")
    # round 10: spaces whose component layout differs from the plain ones (constructor classification + createFullState / getInformedSubstate):
    # a CompoundStateSpace with ONE real-vector subspace (finding F450 as coded), an SE(2)-typed compound with the subspaces swapped, Dubins, Reeds-Shepp
    Pg1 = {"kind": "crv", "n": 2, "lo": -10.0, "hi": 10.0, "starts": [[-2.0, -1.0]], "goals": [[2.5, 1.5]]}
    Pg2 = {"kind": "crv", "n": 3, "lo": -4.0, "hi": 4.0, "starts": [[-1.0, 0.0, 0.5], [0.0, -1.0, 0.0]], "goals": [[1.0, 1.0, -0.5]]}
    add(Pg1, "direct", lambda cm: cm[0] * 1.25, n=N // 8, tests=("grid",), name="crv2-direct")
    add(Pg2, "direct", lambda cm: max(cm) * 1.2, n=N // 8, name="crv3-direct-2x1")
    add(Pg1, "direct", lambda cm: cm[0] * 30.0, n=N // 8, name="crv2-direct-bounds-branch")
    add(Pg1, "rej", lambda cm: cm[0] * 1.5, n=N // 16, name="crv2-rejection")
    add(Pg1, "ord-direct", lambda cm: cm[0] * 1.25, n=N // 40, name="crv2-ordered-direct")
    Pg3 = {"kind": "se2x", "n": 2, "lo": -5.0, "hi": 5.0, "starts": [[-1.0, -1.0]], "goals": [[1.5, 0.5], [-1.0, 2.0]]}
    add(Pg3, "direct", lambda cm: max(cm) * 1.2, n=N // 4, tests=("grid", "yaw"), name="se2x-1x2")
    add(Pg3, "direct", lambda cm: max(cm) * 1.3, minfac=lambda cm: max(cm) * 1.3 * 0.85, n=N // 8, name="se2x-three-arg")
    add(Pg3, "rej", lambda cm: max(cm) * 1.6, n=N // 16, name="se2x-rejection")
    for knd in ("dubins", "rs"):
        Pg4 = {"kind": knd, "n": 2, "lo": -5.0, "hi": 5.0, "starts": [[-1.0, -1.0], [0.5, -2.0]], "goals": [[1.5, 0.5]]}
        add(Pg4, "direct", lambda cm: max(cm) * 1.15, n=N // 8, tests=("yaw",), name="%s-2x1" % knd)
    # near-degenerate bounds c = cmin(1 + eps), eps from one ulp to 1e-6, every PHS count, both ways of choosing the bound (min: ONE thin PHS is
    # left — the single-PHS path where keepSample is unconditional; max: a thin PHS among fatter ones — the 1/k path), 2- and 3-argument forms, the
    # ordered wrapper, R^n / SE(2) / single-subspace compound.  The rounding of the transform is comparable with the PHS's thickness: every success
    # must STILL have heuristic cost strictly below c on the RETURNED state (the isInAnyPhs re-test after rounding; seeded change C15-s6)
    epss = [2.3e-16, 1e-15, 1e-14, 1e-13, 1e-12, 1e-11, 1e-10, 1e-8, 1e-6]
    Pnd = [{"kind": "rv", "n": 2, "lo": 0.0, "hi": 20.0, "starts": [[5.0, 5.0]], "goals": [[7.5, 6.25]]},
           {"kind": "rv", "n": 3, "lo": -50.0, "hi": 50.0, "starts": [[11.0, -7.0, 3.0]], "goals": [[12.0, -5.5, 3.25], [10.5, -7.5, 4.0]]},
           {"kind": "rv", "n": 2, "lo": 0.0, "hi": 20.0, "starts": [[5.0, 5.0], [6.0, 4.0]], "goals": [[7.5, 6.25], [5.5, 7.0]]},
           {"kind": "se2", "n": 2, "lo": -20.0, "hi": 20.0, "starts": [[-11.0, 3.0]], "goals": [[-9.5, 4.75]]},
           {"kind": "crv", "n": 2, "lo": 0.0, "hi": 20.0, "starts": [[5.0, 5.0]], "goals": [[7.5, 6.25], [4.0, 8.0]]},
           {"kind": "rv", "n": 6, "lo": -5.0, "hi": 5.0, "starts": [[1.0, -2.0, 0.5, 3.0, -1.5, 2.25]], "goals": [[1.5, -1.0, 0.25, 2.0, -1.0, 2.5]]}]
    for k, eps in enumerate(epss):
        for pi, P in enumerate(Pnd):
            if tier == "quick" and (k + pi) % 2:
                continue
            pick = min if (k + pi) % 4 < 2 else max
            smp = "ord-direct" if (k + 2 * pi) % 7 == 3 and eps >= 1e-12 else "direct"
            add(P, smp, (lambda cm, eps=eps, pick=pick: pick(cm) * (1 + eps)), minfac=((lambda cm, pick=pick: pick(cm)) if (k + pi) % 3 == 0 and smp == "direct" else None),
                n=max(N // 20, 1500), name="near-degenerate-%s-e%g" % (pick.__name__, eps))
    # cost sweep from just above the focal distance to far beyond the bounds, random problems
    facs = [1 + 1e-9, 1 + 1e-6, 1.001, 1.05, 1.5, 3.0, 30.0, 1e4]
    for i in range(18 if tier == "quick" else 60):
        r = rng.fork("bulkprob%d" % i)
        kind = r.choice(["rv", "rv", "rv", "se2", "se3"])
        P = gen_problem(r, kind)
        fac = facs[i % len(facs)]
        which = r.below(3)
        add(P, "direct", (lambda cm, fac=fac, which=which: (min(cm) if which == 0 else max(cm) if which == 1 else sorted(cm)[len(cm) // 2]) * fac),
            iters=r.choice([1, 5, 100]), n=N // 2, name="sweep-%s-x%g" % (kind, fac))
        if i % 3 == 0:
            add(P, "direct", (lambda cm, fac=fac: max(cm) * max(fac, 1.2)), minfac=lambda cm: min(cm) * 1.05, n=N // 4, name="sweep3-%s" % kind)
        if i % 3 == 1 and fac >= 1.05:
            add(P, "rej", (lambda cm, fac=fac: max(cm) * fac), minfac=(lambda cm: min(cm) * 1.02) if i % 2 else None, n=N // 4, name="sweep-rej-%s" % kind)
        if i % 6 == 2 and fac >= 1.5:
            add(P, "ord-direct", (lambda cm, fac=fac: max(cm) * fac), n=N // 8, name="sweep-ord-%s" % kind)
    # bounds AT or BELOW every focal distance (the optimal straight-line solution has been found): nothing can improve; rejection and
    # ordered samplers report failure; the direct sampler's degenerate branch is finding F130 (fixed library seed: deterministic)
    Pd1 = {"kind": "rv", "n": 2, "lo": -10.0, "hi": 10.0, "starts": [[0.3, 0.1]], "goals": [[1.7, 0.9]]}
    Pd3 = {"kind": "rv", "n": 2, "lo": -10.0, "hi": 10.0, "starts": [[0.3, 0.1]], "goals": [[1.7, 0.9], [2.0, 2.0], [-3.0, 1.0]]}
    add(Pd1, "direct", lambda cm: cm[0], n=3000, name="bound-at-focal-distance")
    add(Pd1, "direct", lambda cm: cm[0] * 0.5, n=3000, name="bound-below-focal-distance")
    add(Pd3, "direct", lambda cm: min(cm), n=1000, name="bound-below-focal-distance-3-pairs")
    add(Pd1, "rej", lambda cm: cm[0], n=300, name="bound-at-focal-distance-rej")
    add(Pd3, "ord-direct", lambda cm: min(cm) * 0.5, n=300, name="bound-below-focal-distance-ord")
    add(Pd3, "ord-rej", lambda cm: min(cm), n=300, name="bound-at-focal-distance-ord-rej")
    # start == goal (circle branch of updateRotation): the informed set is the ball of radius c/2
    Pc0 = {"kind": "rv", "n": 3, "lo": -5.0, "hi": 5.0, "starts": [[0.5, -0.25, 1.0]], "goals": [[0.5, -0.25, 1.0]]}
    add(Pc0, "direct", 2.0, n=N // 8, name="start-equals-goal")
    add(Pc0, "rej", 3.0, n=N // 16, name="start-equals-goal-rej")
    # infinite cost: falls back to the base sampler
    add(P1, "direct", math.inf, n=N // 10, name="infinite-cost")
    # tiny focal separations at large coordinates (rounding stress; regression for F34, fixed by 74ee9605c)
    for (s, g) in [([5.0, 5.0], [5.0 + 2e-9, 5.0]), ([1000.0, 1000.0], [1000.0 + 1e-6, 1000.0 + 2e-6]), ([1.0, 1.0], [1.0 + 1e-8, 1.0 + 2e-8])]:
        Pt = {"kind": "rv", "n": 2, "lo": 0.0, "hi": 2000.0, "starts": [s], "goals": [g]}
        add(Pt, "direct", lambda cm: cm[0] * (1 + 1e-9), n=N // 2, name="tiny-separation")
    # regression for F35 (fixed by 4bc34ddf9): the ordered wrapper with a wrapped sampler that can fail (PHS mostly outside the bounds, few iterations)
    Pc = {"kind": "rv", "n": 2, "lo": 0.0, "hi": 10.0, "starts": [[0.1, 0.1]], "goals": [[0.6, 0.1]]}
    add(Pc, "ord-direct", 6.0, iters=1, n=N // 10, name="ordered-wrapped-failure")
    add(Pc, "direct", 6.0, iters=1, n=N // 10, name="corner-direct")
    return cfgs


def bulk_script(cfg, seed):
    P = cfg["P"]
    cs = "inf" if cfg["c"] == math.inf else f2bits(cfg["c"])
    op = "bulk %s %d" % (cs, cfg["N"]) if cfg["minc"] is None else "bulk3 %s %s %d" % (f2bits(cfg["minc"]), cs, cfg["N"])
    return [HDR % seed] + prob_lines(P) + ["mk %s %d %s %d" % (cfg["sampler"], cfg["iters"], f2bits(0.0), cfg["batch"]),
                                                     "im %s" % f2bits(cfg["c"] if cfg["c"] < math.inf else 1e300), op]


def norm_state(P, raw):
    """copyToReals order -> informed (position) reals first: the check's own knowledge of each space kind"""
    if P["kind"] == "se2x":
        return [raw[1], raw[2], raw[0]]
    return list(raw)


def state_ok(P, all_):
    """all_: informed-first order"""
    n, lo, hi = P["n"], P["lo"], P["hi"]
    if P["kind"] in ("rv", "crv") and len(all_) != n:
        return False
    if not all(lo - EPS <= v <= hi + EPS for v in all_[:n]):
        return False
    if P["kind"] in SE2_LIKE:
        return len(all_) == 3 and -math.pi <= all_[2] <= math.pi
    if P["kind"] == "se3":
        return abs(math.sqrt(sum(v * v for v in all_[3:7])) - 1.0) <= 1e-9
    return True


def bulk_judge(cfg, out, rc, err):
    """returns dict(stats…, fail=(class, what, index) | None)"""
    P, c, minc = cfg["P"], cfg["c"], cfg["minc"]
    n = P["n"]
    pairs = pairs_of(P)
    S = max(abs(P["lo"]), abs(P["hi"])) + (c if c < math.inf else 0.0)
    res = {"ok": 0, "fail0": 0, "known": {}, "fail": None, "pts": [], "extra": []}
    if out is None or rc != 0 or not out or not out[-1].endswith("done"):
        res["fail"] = ("harness-failure", "bulk run died: rc=%s %s" % (rc, (err or "")[-600:]), 0)
        return res
    direct = cfg["sampler"] in ("direct", "ord-direct")
    idx = -1
    for ln in out:
        if not ln.startswith("s "):
            continue
        idx += 1
        if ln == "s ok=0":
            res["fail0"] += 1
            continue
        _, d = fields(ln)
        res["ok"] += 1
        hc, fm = bits2f(d["hc"]), bits2f(d["fm"])
        all_ = fvec(d["x"])
        what = cls = None
        if d["inb"] != "1" or not state_ok(P, all_):
            what = "successful sample is outside the space bounds (satisfiesBounds=%s): %r" % (d["inb"], all_[:n])
            cls = "ordered-ignores-wrapped-failure" if cfg["sampler"] == "ord-direct" else "out-of-bounds"
        elif c < math.inf and not hc < c and direct and not c > min(dist(s, g) for s, g in pairs) and cfg["sampler"] == "direct" \
                and on_focal_segment(all_[:n], pairs):
            what = ("sampleUniform returned true for a bound %r that is not above any focal distance: the state lies on a focal segment and has heuristic cost %r >= maxCost"
                    % (c, hc))
            cls = "degenerate-bound-success"
        elif c < math.inf and not hc < c and P["kind"] == "crv" and cfg["sampler"] == "direct" and not R450:
            # F450: the informed sample (in a PHS, in bounds) is overwritten by a uniform draw of the same subspace in createFullState
            what = ("compound space with a single R^%d subspace: sampleUniform returned true with the in-bounds state %r of heuristic cost %r >= maxCost %r"
                    % (n, all_[:n], hc, c))
            cls = "single-subspace-compound-overwritten"
        elif c < math.inf and not hc < c:
            what = "successful sample has heuristic cost %r >= maxCost %r" % (hc, c)
            # coordinate rounding of a point of a very thin PHS: excess far below one ulp of the coordinates
            cls = "direct-rounding-thin-phs" if direct and hc - c <= 4 * EPS * S and c <= min(dist(s, g) for s, g in pairs) * (1 + 1e-6) else "cost-not-below-bound"
        elif minc is not None and hc < minc:
            what = "successful sample has heuristic cost %r < minCost %r" % (hc, minc)
            cls = "cost-below-minCost"
        elif cfg["sampler"] == "direct" and not relclose(hc, fm, TOL, S):
            what = "heuristicSolnCost %r is not the best focal sum %r" % (hc, fm)
            cls = "heuristic-mismatch"
        elif cfg["sampler"] != "direct" and P["kind"] in ("se2", "se2x", "se3") and not relclose(hc, full_space_heuristic(P, all_), 1e-9, S):
            what = "InformedSampler::heuristicSolnCost %r is not the space-distance heuristic %r (position + weighted rotation)" % (hc, full_space_heuristic(P, all_))
            cls = "heuristic-mismatch"
        elif cfg["sampler"] != "direct" and fm > hc + TOL * S:
            what = "position-only focal sum %r exceeds the full-space heuristic %r" % (fm, hc)
            cls = "heuristic-mismatch"
        elif idx % 16 == 0 and direct and not relclose(fm, min(focal(all_[:n], s, g) for s, g in pairs), TOL, S):
            what = "harness focal sum differs from the check's recomputation"
            cls = "heuristic-mismatch"
        if what:
            if cls in ("direct-rounding-thin-phs", "ordered-ignores-wrapped-failure", "degenerate-bound-success", "single-subspace-compound-overwritten"):
                # the defects F34 / F35 (fixed in /repo): kept as separate classes so that a regression is named
                res["known"].setdefault(cls, (what, idx))
            elif res["fail"] is None:
                res["fail"] = (cls, what, idx)
        if what is None and cfg["sampler"] != "direct" and c < math.inf and not c > min(dist(s, g) for s, g in pairs) and res["fail"] is None \
                and P["kind"] == "rv":
            res["fail"] = ("success-without-informed-set", "success for a bound %r that is not above any focal distance (cost %r)" % (c, hc), idx)
        if cfg["tests"]:
            res["pts"].append(all_)
    for ln in out:
        if ln.startswith("im "):
            _, d = fields(ln)
            m = bits2f(d["~m"])
            inf, um, tot = space_measures(P["kind"], n, P["lo"], P["hi"])
            if direct:
                if c < math.inf:
                    want = sum(phs_meas(n, dist(s, g), c) for s, g in pairs if dist(s, g) < c) * (um if um else 1.0)
                    want = min(tot, want)
                    mt = max(meas_tol(n, dist(s, g), c) for s, g in pairs)
                    if d["has"] != "1" or not relclose(m, want, mt):
                        if P["kind"] == "crv" and d["has"] == "1" and relclose(m, min(tot, want * inf), mt):
                            # F450, measure side: the PHS measures are multiplied by the measure of the (only) subspace once more
                            res["known"].setdefault("single-subspace-compound-overwritten",
                                                    ("compound space with a single R^%d subspace: getInformedMeasure %r = min(space, analytic * subspace measure %r), analytic %r"
                                                     % (n, m, inf, want), 0))
                        else:
                            res["fail"] = res["fail"] or ("informed-measure", "getInformedMeasure %r has=%s, analytic %r" % (m, d["has"], want), 0)
            elif d["has"] != "0" or not relclose(m, tot):
                res["fail"] = res["fail"] or ("informed-measure", "rejection sampler measure %r has=%s, space measure %r" % (m, d["has"], tot), 0)
    return res


def in_region(P, c, x):
    n = P["n"]
    if not all(P["lo"] <= v <= P["hi"] for v in x[:n]):
        return False
    return min(focal(x[:n], s, g) for s, g in pairs_of(P)) < c


def stat_tests(cfg, pts):
    """chi-square / coverage tests; returns list of (name, z or value, alarm)"""
    P, c = cfg["P"], cfg["c"]
    out = []
    n = P["n"]
    if not pts:
        return out
    if "grid" in cfg["tests"]:
        xs = [p[0] for p in pts]
        ys = [p[1] for p in pts]
        # bounding box of the region from the analytic extent (not from the samples)
        pr = pairs_of(P)
        x0 = max(P["lo"], min(min(s[0], g[0]) for s, g in pr) - c / 2)
        x1 = min(P["hi"], max(max(s[0], g[0]) for s, g in pr) + c / 2)
        y0 = max(P["lo"], min(min(s[1], g[1]) for s, g in pr) - c / 2)
        y1 = min(P["hi"], max(max(s[1], g[1]) for s, g in pr) + c / 2)
        G = max(4, int(math.sqrt(len(pts) / 60.0)))
        dx, dy = (x1 - x0) / G, (y1 - y0) / G
        interior = {}
        for i in range(G):
            for j in range(G):
                ok = True
                for a in range(5):
                    for b in range(5):
                        if not in_region(P, c, [x0 + (i + a / 4.0) * dx, y0 + (j + b / 4.0) * dy]):
                            ok = False
                            break
                    if not ok:
                        break
                if ok:
                    interior[(i, j)] = 0
        tot = 0
        for x, y in zip(xs, ys):
            key = (min(G - 1, max(0, int((x - x0) / dx))), min(G - 1, max(0, int((y - y0) / dy))))
            if key in interior:
                interior[key] += 1
                tot += 1
        if len(interior) >= 4 and tot >= 10 * len(interior):
            e = tot / float(len(interior))
            chi2 = sum((v - e) ** 2 / e for v in interior.values())
            z = wilson_hilferty(chi2, len(interior) - 1)
            out.append(("grid-uniformity z (cells=%d, n=%d)" % (len(interior), tot), round(z, 2), z > 4.75))
            empty = sum(1 for v in interior.values() if v == 0)
            out.append(("interior grid cells never sampled (of %d, expected %.0f per cell)" % (len(interior), e), empty, empty > 0 and e >= 30))
        else:
            out.append(("grid-uniformity skipped (interior cells=%d, samples=%d)" % (len(interior), tot), 0, False))
    if "disk" in cfg["tests"] and len(pairs_of(P)) == 1:
        s, g = pairs_of(P)[0]
        cm = dist(s, g)
        ax = [(b - a) / cm for a, b in zip(s, g)]
        a_, b_ = c / 2, math.sqrt(c * c - cm * cm) / 2
        cen = [(p + q) / 2 for p, q in zip(s, g)]
        K, T = 8, 8
        cnt = [[0] * T for _ in range(K)]
        for p in pts:
            d0, d1 = p[0] - cen[0], p[1] - cen[1]
            u0 = (d0 * ax[0] + d1 * ax[1]) / a_
            u1 = (-d0 * ax[1] + d1 * ax[0]) / b_
            r2 = min(u0 * u0 + u1 * u1, 1 - 1e-12)
            th = (math.atan2(u1, u0) + math.pi) / (2 * math.pi)
            cnt[int(r2 * K)][min(T - 1, int(th * T))] += 1
        e = len(pts) / float(K * T)
        chi2 = sum((v - e) ** 2 / e for row in cnt for v in row)
        z = wilson_hilferty(chi2, K * T - 1)
        out.append(("unit-disk preimage uniformity z (64 equal-area cells, n=%d)" % len(pts), round(z, 2), z > 4.75))
    if "yaw" in cfg["tests"]:
        T = 12
        cnt = [0] * T
        for p in pts:
            cnt[min(T - 1, int((p[2] + math.pi) / (2 * math.pi) * T))] += 1
        e = len(pts) / float(T)
        z = wilson_hilferty(sum((v - e) ** 2 / e for v in cnt), T - 1)
        out.append(("yaw uniformity z (12 bins, n=%d)" % len(pts), round(z, 2), z > 4.75))
    if "quat" in cfg["tests"]:
        # each quaternion component is symmetric about 0: sign test per component (loose)
        worst = 0.0
        for k in range(3, 7):
            pos = sum(1 for p in pts if p[k] > 0)
            worst = max(worst, abs(pos - len(pts) / 2.0) / math.sqrt(len(pts) / 4.0))
        out.append(("quaternion component sign balance, worst |z| (n=%d)" % len(pts), round(worst, 2), worst > 5.5))
    return out


def run_bulk(ck, hbin, rng):
    cfgs = bulk_configs(rng, ck.tier)
    seeds = [1 + rng.fork("bulkseed%d" % i).below(10 ** 6) for i in range(len(cfgs))]
    # the directed reproductions of known findings use fixed library seeds (deterministic)
    for i, cfg in enumerate(cfgs):
        if cfg["name"] in ("tiny-separation", "ordered-wrapped-failure") or cfg["name"].startswith("bound-"):
            seeds[i] = 11

    def one(i):
        script = bulk_script(cfgs[i], seeds[i])
        out, rc, err = ck.run_bin(hbin, script, timeout=900)
        return i, script, bulk_judge(cfgs[i], out, rc, err)

    bad = 0
    stats = []
    with concurrent.futures.ThreadPoolExecutor(max_workers=min(6, os.cpu_count() or 4)) as ex:
        for i, script, res in ex.map(one, range(len(cfgs))):
            cfg = cfgs[i]
            ck.traces_validated += 1
            ck.count("bulk:configs")
            ck.count("bulk:sampler=" + cfg["sampler"])
            ck.count("bulk:space=%s%d" % (cfg["P"]["kind"], cfg["P"]["n"]))
            ck.count("bulk:pairs=%dx%d" % (len(cfg["P"]["starts"]), len(cfg["P"]["goals"])))
            ck.count("bulk:samples-ok", res["ok"])
            ck.count("bulk:samples-failed(ok=0)", res["fail0"])
            ck.evaluations += res["ok"] + res["fail0"]
            ck.case(("bulk", cfg["name"], i), res["ok"] > 0)
            rec = {"config": cfg["name"], "sampler": cfg["sampler"], "space": cfg["P"]["kind"], "n": cfg["P"]["n"],
                   "pairs": "%dx%d" % (len(cfg["P"]["starts"]), len(cfg["P"]["goals"])), "c": (cfg["c"] if cfg["c"] < math.inf else "inf"), "minc": cfg["minc"],
                   "iters": cfg["iters"], "ok": res["ok"], "failed": res["fail0"]}
            for cls, (what, idx) in res["known"].items():
                s2 = list(script)
                s2[-1] = " ".join(s2[-1].split()[:-1] + [str(idx + 1)])
                if ck.report({"engine": "phs", "class": cls, "sampler": cfg["sampler"], "what": what}, script=s2, observed=[what],
                             expected=["success => satisfiesBounds and heuristic cost < maxCost"]):
                    ck.log("bulk oracle failure in %s (%s): %s" % (cfg["name"], cls, what))
                    bad += 1
                rec["regression:" + cls] = idx
            if res["fail"]:
                cls, what, idx = res["fail"]
                s2 = list(script)
                s2[-1] = " ".join(s2[-1].split()[:-1] + [str(idx + 1)])
                ck.report({"engine": "phs", "class": cls, "sampler": cfg["sampler"], "what": what}, script=s2, observed=[what],
                          expected=["success => satisfiesBounds and heuristic cost < maxCost (>= minCost)"])
                ck.log("bulk oracle failure in %s: %s" % (cfg["name"], what))
                bad += 1
            tests = stat_tests(cfg, res["pts"]) if not res["fail"] else []
            for name, val, alarm in tests:
                rec["test:" + name] = val
                if alarm:
                    ck.report({"engine": "phs", "class": "uniformity-test", "sampler": cfg["sampler"], "what": "%s = %s in %s" % (name, val, cfg["name"])},
                              script=script, observed=["%s = %s" % (name, val)], expected=["z <= 4.75 (p >= 1e-6); no interior cell empty"])
                    ck.log("statistical test alarm in %s: %s = %s" % (cfg["name"], name, val))
                    bad += 1
            if cfg["name"] == "rv2-1x1-inside" and res["fail0"]:
                ck.notes.append("direct sampler failed %d times although the PHS lies inside the bounds" % res["fail0"])
            stats.append(rec)
    ck.extra_cov["bulk_configurations"] = stats
    return bad


def run_keep(ck, hbin, rng):
    """1/k overlap rejection: acceptance rate of keepSample at points covered by k = 1, 2, 3 PHSs"""
    P = {"kind": "rv", "n": 2, "lo": -10.0, "hi": 10.0, "starts": [[-1.0, 0.0]], "goals": [[1.0, 0.0], [1.0, 0.5], [0.0, 4.0]]}
    c = 5.5
    N = 4000
    pts = [[0.0, 0.1], [0.0, -1.6], [-0.5, 3.0], [0.2, 1.0]]
    script = [HDR % (1 + rng.below(10 ** 6))] + prob_lines(P) + ["mk direct 100 %s" % f2bits(0.0), "upd %s" % f2bits(c)] + \
             ["keep %d %s" % (N, vb(x)) for x in pts]
    out, rc, err = ck.run_bin(hbin, script)
    res = []
    bad = 0
    for x, ln in zip(pts, (out or [])[-len(pts):]):
        _, d = fields(ln)
        k = int(d["k"])
        kk = sum(1 for s, g in pairs_of(P) if focal(x, s, g) < c)
        acc = int(d["acc"])
        p = 1.0 / k if k else 1.0
        z = (acc - N * p) / math.sqrt(max(N * p * (1 - p), 1.0))
        res.append({"point": x, "k": k, "accepted": acc, "of": N, "z": round(z, 2)})
        ck.count("keep:k=%d" % k)
        if k != kk or abs(z) > 5.5 or (k == 1 and acc != N):
            ck.report({"engine": "phs", "class": "overlap-acceptance", "what": "keepSample accepted %d of %d at a point inside %d PHSs (expected rate 1/%d)" % (acc, N, k, kk)},
                      script=script, observed=[ln], expected=["acceptance rate 1/k"])
            bad += 1
    if len(res) != len(pts):
        ck.report({"engine": "phs", "class": "harness-failure", "what": "keep run failed"}, script=script, observed=(out or []) + [str(rc), (err or "")[-500:]])
        bad += 1
    ck.extra_cov["keep_acceptance_test"] = res
    return bad


def run_exact(ck, hbin, cmpst):
    """exact-boundary cases through scripted base draws: a state whose heuristic cost EQUALS the bound (3-4-5
    triangles, everything exact in binary) must be rejected by `<`, and accepted by the inclusive minCost test."""
    B = f2bits
    pts = [[0.0, 4.0], [0.0, -4.0], [5.0, 0.0], [-5.0, 0.0], [0.0, 4.0]]
    head = [HDR % 1, "space rv 2 %s %s" % (B(-10.0), B(10.0)), "starts 1 %s" % vb([-3.0, 0.0]), "goals 1 %s" % vb([3.0, 0.0])]
    rej = head + ["mk rej 5 %s" % B(0.0), "base 5 %s" % " ".join(vb(x) for x in pts), "su %s" % B(10.0),
                  "base 1 %s" % vb([0.0, 4.0]), "su3 %s %s" % (B(10.0), B(100.0)),
                  "base 1 %s" % vb([0.0, 3.999]), "su %s" % B(10.0)]
    want_rej = {6: ("found=0", "used=5"), 8: ("found=1", "used=1"), 10: ("found=1", "used=1")}
    q = [[0.0, 1.0], [0.0, -1.0], [1.25, 0.0], [0.0, 1.0]]
    head2 = [HDR % 1, "space rv 2 %s %s" % (B(-0.5), B(0.5)), "starts 1 %s" % vb([-0.75, 0.0]), "goals 1 %s" % vb([0.75, 0.0])]
    pre, rc, err = ck.run_bin(hbin, head2 + ["mk direct 4 %s" % B(0.0), "sprobe"])
    bad = 0
    if not pre or not pre[-1].startswith("sprobe"):
        ck.report({"engine": "phs", "class": "harness-failure", "what": "sprobe failed (exact script)"}, script=head2, observed=(pre or []) + [str(rc)])
        return 1
    R = fvec(pre[-1].split()[1].split("=", 1)[1])
    dire = head2 + ["mk direct 4 %s" % B(0.0), "srot 0 %s" % vb(R), "base 4 %s" % " ".join(vb(x) for x in q), "su %s" % B(2.5),
                    "base 1 %s" % vb([0.0, 0.999]), "su %s" % B(2.5)]
    want_dir = {7: ("found=0", "used=4"), 9: ("found=1", "used=1")}
    for script, want, what in ((rej, want_rej, "RejectionInfSampler"), (dire, want_dir, "PathLengthDirectInfSampler (bounds branch)")):
        impl, rc, err, model = ck.run_pair(hbin, DRIVER, script)
        impl = impl or []
        ck.traces_validated += 1
        ck.count("scripts:exact-boundary")
        for i, ln in enumerate(script[1:]):
            o = impl[i] if i < len(impl) else "<missing>"
            if i + 1 in want:
                ck.case(("exact", what, ln), True)
                if not all(tok in o.split() for tok in want[i + 1]):
                    ck.report({"engine": "phs", "class": "exact-boundary", "what": "%s: a state whose heuristic cost equals the bound: got %r, expected %s" % (what, o, " ".join(want[i + 1]))},
                              script=script[:i + 2], observed=[o], expected=[" ".join(want[i + 1])])
                    ck.log("exact-boundary failure (%s): %s" % (what, o))
                    bad += 1
                    break   # later lines of this script depend on the queue state
            d = cmpst.line(o, model[i] if i < len(model) else "<missing>", 10.0)
            if d is not None:
                ck.disagreements += 1
                ck.report({"engine": "phs", "class": "correspondence", "what": d}, script=script[:i + 2], observed=[o], expected=[model[i] if i < len(model) else "<missing>"],
                          found_input=False, obligation="correspondence phs (exact-boundary script, %s: %s)" % (ln.split()[0], d))
                bad += 1
    return bad



# ---------------------------------------------------------------------------------- successive bounds on one object
def seq_problems(rng):
    """(P, exact triangle or None, list of cost sequences) — small-scale (focal distance ~1e-3) and unit-scale problems"""
    out = []
    for e, (a, b, hyp) in ((-11, (3, 4, 5)), (-3, (3, 4, 5)), (-12, (5, 12, 13))):
        sc = 2.0 ** e / 3.0 * 3.0
        A, B_, H = a * sc / 4, b * sc / 4, hyp * sc / 4
        P = {"kind": "rv", "n": 2, "lo": -1.0, "hi": 1.0, "starts": [[-A, 0.0]], "goals": [[A, 0.0]]}
        cmin = 2 * A
        u = math.ulp(cmin)
        seqs = [[cmin + j * u for j in (6, 5, 4, 3, 2, 3, 2, 5, 8, 7, 6)],
                ulp_steps(2 * H, cmin)[:12]]
        if cmin < 1:
            seqs.append([cmin + d for d in (4.4e-16, 3e-16, 1.6e-16, 0.8e-16, 1.5e-16, 2.9e-16, 2e-16, 1e-16)])
        out.append((P, (A, B_, H), seqs))
    # a generic (not axis-aligned) small-scale problem
    s0 = [rng.uniform(-1e-3, 1e-3), rng.uniform(-1e-3, 1e-3)]
    g0 = [s0[0] + 1e-3 * rng.uniform(0.3, 1), s0[1] + 1e-3 * rng.uniform(-1, 1)]
    P = {"kind": "rv", "n": 2, "lo": -1.0, "hi": 1.0, "starts": [s0], "goals": [g0]}
    cm = dist(s0, g0)
    c = cm * (1 + 1e-9)
    seq = [c]
    for step in (-1, -1, -1, 1, 1, -1, 1, 1, 1, -1):
        c = math.nextafter(c, math.inf * step)
        seq.append(c)
    out.append((P, None, [seq, [cm + 8 * math.ulp(cm) - j * math.ulp(cm) for j in range(6)]]))
    return out


def run_seq(ck, hbin, cmpst, rng):
    """successive cost bounds one/two ulps or 1e-16 apart on ONE PathLengthDirectInfSampler object:
    (a) lock-step + oracle of updatePhsDefinitions / isInAnyPhs / getInformedMeasure after each bound (exact surface points);
    (b) bulk sampling after each bound: every success must have cost < the CURRENT bound."""
    bad = 0
    N = 1500 if ck.tier == "quick" else 10000
    for pi, (P, tri, seqs) in enumerate(seq_problems(rng)):
        hdr = HDR % (1 + rng.fork("seq%d" % pi).below(10 ** 6))
        head = [hdr] + prob_lines(P) + ["mk direct 100 %s" % f2bits(0.0)]
        pairs = pairs_of(P)
        cmin = dist(*pairs[0])
        for qi, seq in enumerate(seqs):
            seq = [c for c in seq if c > cmin]
            # (b) bulk: harness only
            script = head + ["bulk %s %d" % (f2bits(c), N) for c in seq]
            out, rc, err = ck.run_bin(hbin, script, timeout=600)
            ck.traces_validated += 1
            ck.count("scripts:seq-bulk")
            nok = sum(1 for l in (out or []) if l.startswith("s ok=1"))
            ck.count("seq:samples-ok", nok)
            ck.evaluations += sum(1 for l in (out or []) if l.startswith("s "))
            ck.case(("seq-bulk", pi, qi), nok > 0)
            if out is None or rc != 0 or sum(1 for l in out if l == "bulk done") != len(seq):
                ck.report({"engine": "phs", "class": "harness-failure", "what": "successive-bound bulk run died"}, script=script,
                          observed=(out or [])[-3:] + [str(rc), (err or "")[-600:]])
                bad += 1
                continue
            f = sample_lines_fail(script, out)
            if f is not None:
                li, idx, what = f
                ck.report({"engine": "phs", "class": "successive-bounds", "sampler": "direct", "what": what}, script=truncate_at(script, li, idx),
                          observed=[what], expected=["success => heuristic cost < the bound of the CURRENT call"])
                ck.log("successive-bounds failure: %s" % what)
                bad += 1
            # (a) lock-step on exact problems
            if tri is None or bad >= 3:
                continue
            A, B_, H = tri
            pre, rc, err = ck.run_bin(hbin, head + ["sprobe"])
            if not pre or not pre[-1].startswith("sprobe"):
                ck.report({"engine": "phs", "class": "harness-failure", "what": "sprobe failed (seq)"}, script=head, observed=(pre or []) + [str(rc)])
                return bad + 1
            R = fvec(pre[-1].split()[1].split("=", 1)[1])
            ops = []
            S = 2 * H + A
            for c in seq:
                m = {"kind": "upd", "c": c, "alive": [0], "deg": False, "S": S, "strict": True}
                ops.append(("upd %s" % f2bits(c), m))
                ops.append(("im %s" % f2bits(c), dict(m, kind="im")))
                for x in ([0.0, B_], [H, 0.0], [0.0, -B_], [0.0, math.sqrt(max(c * c - cmin * cmin, 0.0)) / 2 * 0.999],
                          [0.0, math.sqrt(max(c * c - cmin * cmin, 0.0)) / 2 * 1.001]):
                    ops.append(("nin %s" % vb(x), dict(m, kind="nin", x=x)))
            sc2 = head + ["srot 0 %s" % vb(R)] + [l for l, _ in ops]
            metas = [{"kind": "setup"}] * (len(head)) + [m for _, m in ops]
            bad += judge_smp(ck, hbin, sc2, metas, P, cmpst, "seq-lockstep", False)
            if bad >= 3:
                return bad
    return bad



# ---------------------------------------------------------------------------------- PHS branch, replayed private draws
SUP_DIM_ORDERS = [[("rv", 6), ("se2", 2), ("rv", 3), ("rv", 2), ("se3", 3), ("rv", 2)],
                  [("rv", 4), ("se3", 3), ("rv", 2), ("rv", 6), ("se2", 2), ("rv", 3)],
                  [("rv", 5), ("rv", 4), ("se3", 3), ("se2", 2), ("rv", 2), ("rv", 3)],
                  [("se2", 2), ("rv", 6), ("rv", 2), ("rv", 4), ("se3", 3), ("se2", 2)]]


GLUE_DIM_ORDERS = [[("crv", 3), ("se2x", 2), ("dubins", 2), ("crv", 2), ("rs", 2), ("se2", 2)],
                   [("se2x", 2), ("crv", 4), ("rs", 2), ("se3", 3), ("crv", 2), ("dubins", 2)]]


def run_sup(ck, hbin, cmpst, rng, orders=None, tag="sup"):
    """samplePhsRejectBounds in lock-step: the harness replays the sampler's private RNG with an identically seeded twin
    (`supp` prints the RAW draw stream: uniform01, uniformNormalVector of the PHS dimension, uniformReal, uniform01; `sup`/`sup3`
    make the real call); the model consumes the same draws: randomPhsPtr (measure-weighted choice among 1-9 PHSs), uniformInBall
    (pow(u, 1/dim)), transform, keepSample (1/k), satisfiesBounds, the isInAnyPhs re-test, iteration accounting of the 2- and
    3-argument forms.  Several problems of DESCENDING and mixed dimension run in ONE harness process (fresh space / sampler / RNG
    objects each): process-wide state left behind by an earlier, higher-dimensional problem must not leak into a later one."""
    bad = 0
    nscripts = (3 if ck.tier == "quick" else 16) if orders is None else (1 if ck.tier == "quick" else 6)
    for si in range(nscripts):
        rs = rng.fork("supscript%d" % si)
        if orders is not None:
            # the glue round: the spaces whose informed / uninformed component indices differ from the plain (R^n | SE2 | SE3) ones
            dims = orders[si % len(orders)] if si < len(orders) else \
                [rs.choice([("crv", 2), ("crv", 3), ("crv", 5), ("se2x", 2), ("dubins", 2), ("rs", 2), ("se2", 2), ("se3", 3), ("rv", 3)]) for _ in range(6)]
        else:
            dims = SUP_DIM_ORDERS[si % len(SUP_DIM_ORDERS)] if si < 4 else \
                [rs.choice([("rv", 2), ("rv", 3), ("rv", 4), ("rv", 5), ("rv", 6), ("se2", 2), ("se3", 3)]) for _ in range(6)]
        hdr = HDR % (1 + rs.below(10 ** 6))
        segs = []
        for pi, (kind_, n) in enumerate(dims):
            r = rs.fork("sup%d" % pi)
            P = gen_problem(r, kind_, n)
            if pi % 3 == 1:       # overlapping PHSs partly outside small bounds
                P["lo"], P["hi"] = 0.0, 1.0
                P["starts"] = [[r.uniform(0.05, 0.95) for _ in range(n)] for _ in P["starts"]]
                P["goals"] = [[r.uniform(0.05, 0.95) for _ in range(n)] for _ in P["goals"]]
            pairs = pairs_of(P)
            cmins = [dist(s_, g_) for s_, g_ in pairs]
            iters = r.choice([1, 2, 5, 20, 60])
            calls = []
            for j in range(4):
                c = max(cmins) * r.choice([1.02, 1.1, 1.3, 1.7])
                calls.append((1 + r.below(10 ** 6), c, (min(cmins) * r.uniform(1.0, 1.3)) if j % 2 else None))
            # a bound AT or BELOW every focal distance: the call must report failure after numIters iterations (these come last:
            # they erase PHSs for good, F36)
            calls.append((1 + r.below(10 ** 6), min(cmins) if len(pairs) == 1 else min(cmins) * r.choice([1.0, 0.9]), None))
            calls.append((1 + r.below(10 ** 6), min(cmins) * 0.5, min(cmins) * 0.25))
            segs.append({"P": P, "pairs": pairs, "cmins": cmins, "iters": iters, "calls": calls,
                         "head": prob_lines(P) + ["mk direct %d %s" % (iters, f2bits(0.0))]})
        probe = [hdr]
        for sg in segs:
            probe += sg["head"] + ["sprobe"] + ["supp %d %s" % (sd, f2bits(c)) for sd, c, _ in sg["calls"]]
        pre, rc, err = ck.run_bin(hbin, probe)
        if not pre or rc != 0 or len(pre) != len(probe) - 1:
            ck.report({"engine": "phs", "class": "harness-failure", "what": "supp probe failed"}, script=[l[:200] for l in probe],
                      observed=(pre or [])[-3:] + [str(rc), (err or "")[-600:]])
            return bad + 1
        script, metas = [hdr], []
        pos = 0
        okrot = True
        for sg in segs:
            n = sg["P"]["n"]
            pos += len(sg["head"])
            sp = pre[pos]
            pos += 1
            srots = []
            for i, tok in enumerate(sp.split()[1:]):
                R = fvec(tok.split("=", 1)[1])
                w1, w2 = check_rot(n, sg["pairs"][i][0], sg["pairs"][i][1], R)
                ck.count("rotation-hypotheses-checked")
                if w1 > 1e-9 or w2 > 1e-9:
                    okrot = False
                srots.append("srot %d %s" % (i, vb(R)))
            script += sg["head"] + srots
            metas += [None] * (len(sg["head"]) + len(srots))
            for (sd, c, minc) in sg["calls"]:
                ln = pre[pos]
                pos += 1
                if ln.endswith("bounds-branch"):
                    ck.count("sup:bounds-branch(skipped)")
                    continue
                _, dsup = fields(ln)
                draws = dsup["draws"].replace(",", " ") + ("" if dsup["rots"] == "-" else " " + dsup["rots"].replace(",", " "))
                script.append(("sup %d %s %s" % (sd, f2bits(c), draws)) if minc is None else
                              ("sup3 %d %s %s %s" % (sd, f2bits(minc), f2bits(c), draws)))
                metas.append({"c": c, "minc": minc, "iters": sg["iters"], "sg": sg})
        if not okrot:
            ck.report({"engine": "phs", "class": "rotation-hypothesis", "what": "sampler PHS rotation is not a proper rotation with first column the focal axis"},
                      script=[l[:200] for l in probe], observed=[])
            bad += 1
            continue
        impl, rc, err, model = ck.run_pair(hbin, DRIVER, script)
        impl = impl or []
        ck.traces_validated += 1
        ck.count("scripts:" + tag)
        ck.count("sup:order=%s" % ",".join("%s%d" % kn for kn in dims))
        if rc != 0 or len(impl) != len(script) - 1:
            ck.report({"engine": "phs", "class": "harness-failure", "what": "sup run stopped early"}, script=[l[:400] for l in script],
                      observed=impl[-2:] + [str(rc), (err or "")[-800:]])
            bad += 1
            continue
        for i, m in enumerate(metas):
            if m is None:
                continue
            o = impl[i]
            ln = script[1 + i]
            sg = m["sg"]
            P, pairs = sg["P"], sg["pairs"]
            lo, hi = P["lo"], P["hi"]
            S = max(abs(lo), abs(hi)) + 2 * max(sg["cmins"])
            _, d = fields(o)
            ck.count("op:" + ln.split()[0])
            ck.case(("sup", si, i), True)
            f = None
            fcls = "phs-branch-replayed"
            if "found" not in d:
                f = "unexpected %r" % o
            else:
                used = int(d["used"])
                ck.count("sup:found=%s" % d["found"])
                ck.count("sup:%s%d,pairs=%d" % (P["kind"], P["n"], len(pairs)))
                if not m["c"] > min(sg["cmins"]):
                    ck.count("sup:bound-at-or-below-focal-distance")
                if used < 0 or used > m["iters"]:
                    f = ("the call did not consume the draws of k <= numIters=%d iterations of samplePhsRejectBounds (uniform01, "
                         "uniformNormalVector of the PHS dimension %d, uniformReal, uniform01): its generator state matches no iteration count"
                         % (m["iters"], P["n"])) if used < 0 else "the call made %d iterations with numIters=%d" % (used, m["iters"])
                elif d["found"] == "0" and used != m["iters"] and m["minc"] is None and not (R130 and not m["c"] > min(sg["cmins"])):
                    f = "failure reported after %d of %d iterations" % (used, m["iters"])
                elif int(d["kept"]) < 0 or int(d["kept"]) > used:
                    f = "the rotation sub-sampler made a number of draws that matches no count of kept iterations (kept=%s, iterations=%d)" % (d["kept"], used)
                elif R130 and m["c"] < min(sg["cmins"]) * (1 - 1e-12) and (d["found"] != "0" or (used != 0 and m["minc"] is None)):
                    f = "a bound no PHS can improve on must be answered false without sampling (got %s)" % o
                elif d["found"] == "1" and fvec(d.get("~xi", "-")) != norm_state(P, fvec(d["~x"]))[:P["n"]]:
                    # the sampler's own getInformedSubstate of the returned state vs the check's knowledge of where the position lives
                    f = "getInformedSubstate of the returned state %r is not its position part %r" % (fvec(d.get("~xi", "-")), norm_state(P, fvec(d["~x"]))[:P["n"]])
                elif d["found"] == "1" and not m["c"] > min(sg["cmins"]):
                    xall = norm_state(P, fvec(d["~x"]))
                    h = min(focal(xall[:P["n"]], *p_) for p_ in pairs)
                    if not h < m["c"]:
                        f = ("sampleUniform returned true for a bound %r that is not above any focal distance (smallest %r): the state has heuristic cost %r >= maxCost"
                             % (m["c"], min(sg["cmins"]), h))
                        # F130 as coded: the degenerate PHS (diameter := focal distance) is sampled on its focal segment and the isInPhs
                        # re-test `pathLength < cmin` passes by rounding
                        fcls = "degenerate-bound-success" if on_focal_segment(xall[:P["n"]], pairs) else "phs-branch-replayed"
                elif d["found"] == "1":
                    xall = norm_state(P, fvec(d["~x"]))
                    x = xall[:P["n"]]
                    h = min(focal(x, *p_) for p_ in pairs)
                    if d["inb"] != "1" or not state_ok(P, xall):
                        f = "successful sample outside the bounds: %r" % (x,)
                    elif not h < m["c"]:
                        f = "successful sample has heuristic cost %r >= maxCost %r" % (h, m["c"])
                        if P["kind"] == "crv" and not R450:
                            # F450: on a compound space with ONE real-vector subspace createFullState overwrites the informed sample (which
                            # passed every test) with a uniform draw of the same subspace
                            fcls = "single-subspace-compound-overwritten"
                            f = ("compound space with a single R^%d subspace: sampleUniform returned true with a state of heuristic cost %r >= maxCost %r "
                                 "(the informed sample was overwritten by the 'uninformed' draw of the same subspace)" % (P["n"], h, m["c"]))
                    elif m["minc"] is not None and h < m["minc"] - TOL * S:
                        f = "successful sample has heuristic cost %r < minCost %r" % (h, m["minc"])
            keep = script[:i + 2]   # the whole op history of the process matters (earlier problems' sampling calls included)
            if f is not None:
                if ck.report({"engine": "phs", "class": fcls, "sampler": "direct", "what": f}, script=keep, observed=[o], expected=[f]):
                    ck.log("PHS-branch oracle failure (dimension order %s): %s" % (dims, f[:160]))
                    bad += 1
            if not m["c"] > min(sg["cmins"]) and not (R130 and m["c"] < min(sg["cmins"]) * (1 - 1e-12)):
                # without the early return (or exactly AT the focal distance) the outcome is decided by the last ulp of Eigen's reduction
                ck.count("sup:degenerate-not-lock-stepped")
                continue
            dd = cmpst.line(o, model[i] if i < len(model) else "<missing>", S)
            if dd is not None and f is None:
                # the model consumed exactly this call's draws with dimension = PHS dimension: the real call produced another sample
                ck.disagreements += 1
                ck.report({"engine": "phs", "class": "phs-branch-replayed", "what": "sample differs from uniformProlateHyperspheroid/transform applied to this call's own draws (PHS dimension %d, earlier problems in this process had dimensions %s): %s" % (P["n"], dims, dd)},
                          script=keep, observed=[o], expected=[model[i] if i < len(model) else "<missing>"])
                ck.log("model/implementation disagreement on %s: %s" % (ln[:50], dd))
                bad += 1
            if bad >= 3:
                return bad
    return bad


# ---------------------------------------------------------------------------------- radial distribution after a warm-up
def unit_ball_radius2(x, s, g, c):
    """rho^2 of the unit-ball pre-image of x under the PHS map (rotation-free): (t/a)^2 + (|x-centre|^2 - t^2)/b^2"""
    cm = dist(s, g)
    cen = [(p + q) / 2 for p, q in zip(s, g)]
    ax = [(q - p) / cm for p, q in zip(s, g)]
    dx = [v - w for v, w in zip(x, cen)]
    t = sum(a * b for a, b in zip(dx, ax))
    r2 = sum(v * v for v in dx)
    a_, b2 = c / 2, (c * c - cm * cm) / 4
    return (t / a_) ** 2 + max(r2 - t * t, 0.0) / b2


def run_warm(ck, hbin, rng):
    """distribution clause: in ONE process, after direct sampling of a higher-dimensional problem, the direct sampler of a
    lower-dimensional one must still be uniform: u = rho^n of the unit-ball pre-image is U(0,1) (radial CDF r^n); empirical
    CDF at 0.25/0.5/0.75 and the mean within generous bounds (8 sigma quick, 6 sigma thorough)."""
    N = 4000 if ck.tier == "quick" else 40000
    zmax = 8.0 if ck.tier == "quick" else 6.0
    seq = [("rv", 6), ("rv", 2), ("se3", 3), ("se2", 2), ("rv", 5), ("rv", 3), ("rv", 2)]
    hdr = HDR % (1 + rng.below(10 ** 6))
    script = [hdr]
    cfgs = []
    for kind, n in seq:
        s_ = [-0.8] + [0.1] * (n - 1)
        g_ = [0.9] + [-0.2] * (n - 1)
        P = {"kind": kind, "n": n, "lo": -10.0, "hi": 10.0, "starts": [s_], "goals": [g_]}
        c = dist(s_, g_) * 1.4
        script += prob_lines(P) + ["mk direct 100 %s" % f2bits(0.0), "bulk %s %d" % (f2bits(c), N)]
        cfgs.append((P, c))
    out, rc, err = ck.run_bin(hbin, script, timeout=600)
    ck.traces_validated += 1
    ck.count("scripts:warm-up-distribution")
    if out is None or rc != 0 or sum(1 for l in out if l == "bulk done") != len(seq):
        ck.report({"engine": "phs", "class": "harness-failure", "what": "warm-up distribution run died"}, script=script, observed=(out or [])[-2:] + [str(rc), (err or "")[-600:]])
        return 1
    bad = 0
    f = sample_lines_fail(script, out)
    if f is not None:
        li, idx, what = f
        ck.report({"engine": "phs", "class": "warm-up-soundness", "what": what}, script=truncate_at(script, li, idx), observed=[what])
        bad += 1
    seg = 0
    us = [[] for _ in seq]
    for ln in out:
        if ln == "bulk done":
            seg += 1
        elif ln.startswith("s ok=1") and seg < len(seq):
            P, c = cfgs[seg]
            x = fvec(fields(ln)[1]["x"])[:P["n"]]
            us[seg].append(min(unit_ball_radius2(x, P["starts"][0], P["goals"][0], c), 1.0) ** (P["n"] / 2.0))
    res = []
    for i, ((kind, n), u) in enumerate(zip(seq, us)):
        ck.evaluations += len(u)
        m = len(u)
        rec = {"step": i, "space": kind, "n": n, "samples": m}
        worst = 0.0
        if m >= 500:
            for q in (0.25, 0.5, 0.75):
                z = (sum(1 for v in u if v < q) / m - q) / math.sqrt(q * (1 - q) / m)
                rec["cdf(%.2f) z" % q] = round(z, 2)
                worst = max(worst, abs(z))
            z = (sum(u) / m - 0.5) / math.sqrt(1.0 / 12 / m)
            rec["mean z"] = round(z, 2)
            rec["mean"] = round(sum(u) / m, 4)
            worst = max(worst, abs(z))
        res.append(rec)
        ck.case(("warm", i), m > 0)
        if m < 500 or worst > zmax:
            hist = ", ".join("%s%d" % kn for kn in seq[:i])
            what = ("direct sampler is not uniform over the PHS in %s (informed dimension %d) after sampling [%s] in the same process: u = rho^n of the "
                    "unit-ball pre-image has mean %s (uniform: 0.5), worst |z| = %.1f over CDF(0.25/0.5/0.75)/mean with %d samples"
                    % (kind, n, hist, rec.get("mean"), worst, m))
            li = [j for j, l in enumerate(script) if l.startswith("bulk")][i]
            ck.report({"engine": "phs", "class": "radial-distribution-after-warm-up", "what": what}, script=script[:li + 1], observed=[json.dumps(rec)],
                      expected=["u = rho^n ~ U(0,1): |z| <= %.0f" % zmax])
            ck.log("distribution failure: " + what)
            bad += 1
            if bad >= 3:
                break
    ck.extra_cov["radial_distribution_after_warm_up"] = res
    return bad



# ---------------------------------------------------------------------------------- OrderedInfSampler, scripted
def run_ordered(ck, hbin, cmpst, rng):
    """OrderedInfSampler over the rejection sampler with scripted base draws: batch creation (only successful wrapped
    samples are queued), failure on an all-failed batch, top/pop by heuristic cost, clearBatch when the bound dropped
    below the queue's best, the persistent queue across calls — lock-step with the model's `orderedRun`, plus an
    oracle: a success is one of the supplied draws, inside the bounds, with cost below the CURRENT bound."""
    bad = 0
    for pi in range(10 if ck.tier == "quick" else 60):
        r = rng.fork("ord%d" % pi)
        P = gen_problem(r, "rv", r.choice([2, 3]))
        n, lo, hi = P["n"], P["lo"], P["hi"]
        pairs = pairs_of(P)
        cmins = [dist(s_, g_) for s_, g_ in pairs]
        iters, batch = r.choice([1, 2, 5]), r.choice([1, 2, 3, 5])
        thr = r.choice([0.0, EPS])
        hdr = HDR % (1 + r.below(10 ** 6))
        script = [hdr] + prob_lines(P) + ["mk ord-rej %d %s %d" % (iters, f2bits(thr), batch)]
        metas = [None] * (len(script) - 1)
        supplied = []
        cbase = max(cmins) * 1.6
        for j in range(10):
            c = cbase * r.choice([1.0, 1.0, 0.9, 0.75, 1.3])
            K = 2 * batch * iters + 2
            idx = r.below(len(pairs))
            cands = [rand_point(r, P, (pairs[idx][0], pairs[idx][1], c)) if r.chance(3, 4) else [lo + (hi - lo) * r.unit() for _ in range(n)]
                     for _ in range(K)]
            cands = [[min(hi, max(lo, v)) for v in x] for x in cands]    # like the real base sampler, scripted draws stay in bounds
            if j % 4 == 3:      # a batch that fails entirely: every draw far outside the informed set
                cands = [[hi - 1e-3 * (hi - lo) * r.unit() for _ in range(n)] for _ in range(K)]
                c = min(cmins) * 1.0001
            script.append("base %d %s" % (K, " ".join(vb(x) for x in cands)))
            metas.append(None)
            supplied += [vb(x).replace(" ", ",") for x in cands]
            script.append("osu %s" % f2bits(c))
            metas.append({"c": c, "supplied": set(supplied)})
        impl, rc, err, model = ck.run_pair(hbin, DRIVER, script)
        impl = impl or []
        ck.traces_validated += 1
        ck.count("scripts:ordered")
        if rc != 0 or len(impl) != len(script) - 1:
            ck.report({"engine": "phs", "class": "harness-failure", "what": "ordered run stopped early"}, script=script,
                      observed=impl[-2:] + [str(rc), (err or "")[-800:]])
            bad += 1
            continue
        S = max(abs(lo), abs(hi)) + 2 * cbase
        dead = False
        for i, (ln, m) in enumerate(zip(script[1:], metas)):
            o = impl[i]
            if m is None or dead:
                continue
            _, d = fields(o)
            ck.count("op:osu")
            f = None
            if o.endswith("starved"):
                ck.count("osu:starved")
                dead = True      # queue state unknown afterwards (harness artefact)
                continue
            ck.case(("osu", pi, i), True)
            ck.count("osu:found=%s" % d.get("found"))
            if "found" not in d:
                f = "unexpected %r" % o
            elif int(d["q"]) > batch:
                f = "queue holds %s states with batch size %d" % (d["q"], batch)
            elif d["found"] == "1":
                x = fvec(d["x"])
                h = base_heur(P, thr, x)
                if d["x"] not in m["supplied"]:
                    f = "returned state is not one of the base sampler's draws"
                elif not all(lo - EPS <= v <= hi + EPS for v in x):
                    f = "successful ordered sample outside the bounds"
                elif not h < m["c"] + TOL * S:
                    f = "successful ordered sample has heuristic cost %r >= the current bound %r" % (h, m["c"])
            elif d["found"] == "0" and d["q"] != "0":
                f = "failure reported with a non-empty queue"
            if f is not None:
                if ck.report({"engine": "phs", "class": "ordered-scripted", "what": f}, script=script[:i + 2], observed=[o], expected=[f]):
                    ck.log("ordered oracle failure: %s" % f)
                    bad += 1
            dd = cmpst.line(o, model[i] if i < len(model) else "<missing>", S)
            if dd is not None and f is None:
                ck.disagreements += 1
                ck.report({"engine": "phs", "class": "correspondence", "what": dd}, script=script[:i + 2], observed=[o], expected=[model[i] if i < len(model) else "<missing>"],
                          found_input=False, obligation="correspondence phs: OrderedInfSampler (scripted) vs OmplModel.Model.Phs.orderedRun (%s)" % dd)
                ck.log("model/implementation disagreement on osu: %s" % dd)
                bad += 1
                dead = True
            if bad >= 3:
                return bad
    return bad



# ---------------------------------------------------------------------------------- constructor classification (round 10)
SE_TYPES = ("se2", "se3", "dubins", "rs")


def ctor_spec(obj, ns, gs, ng, cmp_, cast, ty, subs):
    """the check's own reading of the two constructors (InformedSampler, then PathLengthDirectInfSampler): expected output line
    minus the `hasun` field, which is judged separately"""
    if not obj:
        return "throw=1"
    if ns == 0:
        return "throw=2"
    if not gs:
        return "throw=3"
    if ng < 1:
        return "throw=4"
    if not cmp_:
        return "ok compound=0 inf=0 un=0" if ty in ("rv", "unknown") else "throw=5"
    if not cast:
        return "throw=6"
    if ty in SE_TYPES:
        if len(subs) != 2:
            return "throw=7"
        inf = un = 0
        for i, k in enumerate(subs):
            if k == "rv":
                inf = i
            elif k in ("so2", "so3"):
                un = i
            else:
                return "throw=8"
        if R451 and not ("rv" in subs and any(k in ("so2", "so3") for k in subs)):
            return "throw=10"
        return "ok compound=1 inf=%d un=%d" % (inf, un)
    return "ok compound=1 inf=0 un=0" if subs == ["rv"] else "throw=9"


def ctor_descs(rng, quick):
    subs_all = []
    kinds = ["rv", "so2", "so3", "other"]
    for a in kinds:
        subs_all.append([a])
        for b in kinds:
            subs_all.append([a, b])
            for c_ in kinds:
                subs_all.append([a, b, c_])
    spaces = [(0, 0, "rv", []), (0, 0, "unknown", []), (0, 0, "other", [])]
    for ty in ("se2", "se3", "dubins", "rs", "unknown", "rv", "other"):
        for sb in subs_all:
            # (SE-typed compounds with two rotation subspaces are accepted as coded: finding F451; with two R^n subspaces the first one
            # is sampled uniformly as the "uninformed" part — admissible, but rejected by the repair as well)
            spaces.append((1, 1, ty, sb))
    for sb in ([["rv"], ["rv", "so2"], ["so3", "rv"], ["rv", "rv", "so2"], ["other"]]):
        spaces.append((1, 0, "unknown", sb))
    probs = [(1, 1, 1, 1), (1, 2, 1, 3), (0, 1, 1, 1), (1, 0, 1, 1), (0, 0, 0, 0), (1, 1, 0, 1), (1, 1, 1, 0), (1, 3, 0, 0), (0, 0, 1, 1), (1, 0, 0, 0)]
    special = [(0, 0, "rv", []), (0, 0, "other", []), (1, 1, "se2", ["rv", "so2"]), (1, 1, "se2", ["so2", "rv"]), (1, 1, "se3", ["rv", "so3"]),
               (1, 1, "unknown", ["rv"]), (1, 1, "unknown", ["rv", "so2"]), (1, 0, "unknown", ["rv", "so2"]), (1, 1, "se2", ["rv", "other"]),
               (1, 1, "dubins", ["rv", "so2", "so2"]), (1, 1, "se2", ["rv", "rv"]), (1, 1, "se2", ["so2", "so2"]), (1, 1, "se3", ["so3", "so2"])]
    out = []
    for sp in special:
        for pr in probs:
            out.append(pr + sp)
    short = [sp for sp in spaces if len(sp[3]) <= 2]
    pool = spaces if not quick else short + [spaces[rng.below(len(spaces))] for _ in range(40)]
    for sp in pool:
        out.append(rng.choice([(1, 1, 1, 1), (1, 1, 1, 2), (1, 2, 1, 2), (1, 3, 1, 1)]) + sp)
    return out


def run_glue(ck, hbin, cmpst, rng):
    """the constructor's checks and state-space classification (which exception, else informedIdx_ / uninformedIdx_ / whether an
    uninformed part exists) on the REAL class, for every (space type x subspace list x wrapper x problem-definition) combination the code
    distinguishes, in lock-step with the model's `ctorCheck` + the check's own reading; then the PHS-branch lock-step on the spaces whose
    component layout differs from the plain ones (run_sup with GLUE_DIM_ORDERS)."""
    bad = 0
    descs = ctor_descs(rng.fork("ctor"), ck.tier == "quick")
    script = [HDR % 7] + ["ctor %d %d %d %d %d %d %s%s" % (d[:7] + ((" " + " ".join(d[7])) if d[7] else "",)) for d in descs]
    impl, rc, err, model = ck.run_pair(hbin, DRIVER, script)
    impl = impl or []
    ck.traces_validated += 1
    ck.count("scripts:ctor")
    if rc != 0 or len(impl) != len(script) - 1:
        ck.report({"engine": "phs", "class": "harness-failure", "what": "ctor run stopped early"}, script=script[:len(impl) + 2],
                  observed=impl[-2:] + [str(rc), (err or "")[-800:]])
        return 1
    for i, d in enumerate(descs):
        o = impl[i]
        ln = script[1 + i]
        ck.case(("ctor", ln), True)
        ck.count("op:ctor")
        want = "ctor " + ctor_spec(*d)
        _, f = fields(o)
        ck.count("ctor:" + (o.split()[1] if len(o.split()) > 1 else "?").split("=")[0] + ("" if "throw" not in f else "=" + f["throw"]))
        what = cls = None
        if not o.startswith(want):
            what, cls = "constructor answered %r, the documented checks give %r" % (o, want), "ctor-classification"
        elif o.startswith("ctor ok") and f.get("hasun") == "1" and (f["compound"] != "1" or f["inf"] == f["un"]):
            # F450 at the layout level: the "uninformed" subspace IS the informed one
            what = ("the constructor accepts %s and takes subspace %s both as the informed and as the uninformed part: createFullState overwrites "
                    "the informed sample, getInformedMeasure counts the subspace twice" % (" ".join(ln.split()[5:]), f["inf"]))
            cls = "single-subspace-compound-overwritten"
        elif o.startswith("ctor ok") and f["compound"] == "1" and d[6] in SE_TYPES and d[7][int(f["inf"])] != "rv":
            # F451: an SE-typed compound with two rotation subspaces: the "informed" index stays at its default and points at a rotation
            what = ("the constructor accepts the %s-typed compound space (%s) although it has no real-vector subspace: the informed subspace is subspace %s, "
                    "a rotation — PHSs over raw angles exclude states that can improve the solution" % (d[6], ", ".join(d[7]), f["inf"]))
            cls = "se-typed-without-real-vector-subspace"
        elif o.startswith("ctor ok") and f.get("hasun") != ("1" if (f["compound"] == "1" and f["inf"] != f["un"]) else "0"):
            what, cls = "uninformed part present=%s for %r" % (f.get("hasun"), o), "ctor-classification"
        if what:
            if ck.report({"engine": "phs", "class": cls, "sampler": "direct", "what": what}, script=[script[0], ln], observed=[o], expected=[want]):
                ck.log("constructor oracle failure on %s: %s" % (ln, what[:160]))
                bad += 1
        dd = None if i < len(model) and model[i] == o else "model answers %r" % (model[i] if i < len(model) else "<missing>")
        if dd is not None:
            ck.disagreements += 1
            ck.report({"engine": "phs", "class": "correspondence", "what": "ctor: implementation %r, %s" % (o, dd)}, script=[script[0], ln],
                      expected=[model[i] if i < len(model) else "<missing>"], observed=[o], found_input=(what is not None),
                      obligation="correspondence phs (constructor classification)")
            bad += 1
        if bad >= 3:
            return bad
    bad += run_sup(ck, hbin, cmpst, rng.fork("gluesup"), orders=GLUE_DIM_ORDERS, tag="sup-glue")
    return bad


# ---------------------------------------------------------------------------------- InformedStateSampler: allocation and the uninformed calls
def run_wrappers(ck, hbin, cmpst, rng):
    """InformedStateSampler(probDefn, maxNumberCalls, costFunc) must wrap what the OBJECTIVE allocates (path length -> the direct sampler,
    the base-class default -> the rejection sampler) with maxNumberCalls forwarded; sampleUniformNear / sampleGaussian are "not informed":
    exactly the wrapper's own default sampler (seeded twin), never the informed sampler, result inside the bounds (and within the distance)."""
    bad = 0
    for si in range(2 if ck.tier == "quick" else 10):
        r = rng.fork("wrap%d" % si)
        P = gen_problem(r, "rv")
        lo, hi, n = P["lo"], P["hi"], P["n"]
        script = [HDR % (1 + r.below(10 ** 6))] + prob_lines(P)
        want = []
        for sk in ("direct", "rej"):
            script.append("mk %s %d %s" % (sk, r.choice([1, 5, 100]), f2bits(0.0)))
            want.append(None)
            for obj, kind in (("pl", "direct"), ("int", "rej")):
                it = r.choice([0, 1, 7, 100, 4096])
                script.append("issalloc %s %d" % (obj, it))
                want.append("issalloc kind=%s iters=%d has=%d" % (kind, it, 1 if kind == "direct" else 0))
            for j in range(8):
                near = [r.choice([lo, hi, lo + (hi - lo) * r.unit()]) if r.chance(1, 3) else lo + (hi - lo) * r.unit() for _ in range(n)]
                par = r.choice([0.0, 1e-300, 1e-9 * (hi - lo), 0.1 * (hi - lo), hi - lo, 1e6 * (hi - lo)])
                op = "issn" if j % 2 == 0 else "issg"
                script.append("%s %d %s %s" % (op, 1 + r.below(10 ** 6), f2bits(par), vb(near)))
                want.append("%s fwd=1 within=1 inb=1" % op)
        impl, rc, err, model = ck.run_pair(hbin, DRIVER, script)
        impl = impl or []
        ck.traces_validated += 1
        ck.count("scripts:wrappers")
        if rc != 0 or len(impl) != len(script) - 1:
            ck.report({"engine": "phs", "class": "harness-failure", "what": "wrapper run stopped early"}, script=script[:len(impl) + 2],
                      observed=impl[-2:] + [str(rc), (err or "")[-800:]])
            return bad + 1
        for i, w_ in enumerate([None] * 3 + want):   # 3 problem lines (space / starts / goals) precede
            if w_ is None:
                continue
            o = impl[i]
            ln = script[1 + i]
            ck.case(("wrap", si, ln), True)
            ck.count("op:" + ln.split()[0])
            if o != w_:
                ck.report({"engine": "phs", "class": "informed-state-sampler-wrapper", "what": "%s answered %r, expected %r" % (ln.split()[0], o, w_)},
                          script=script[:i + 2], observed=[o], expected=[w_])
                ck.log("wrapper oracle failure on %s: %s" % (ln[:60], o))
                bad += 1
            elif i >= len(model) or model[i] != o:
                ck.disagreements += 1
                ck.report({"engine": "phs", "class": "correspondence", "what": "wrapper: implementation %r, model %r" % (o, model[i] if i < len(model) else "<missing>")},
                          script=script[:i + 2], expected=[model[i] if i < len(model) else "<missing>"], observed=[o], found_input=False,
                          obligation="correspondence phs (InformedStateSampler wrapper)")
                bad += 1
            if bad >= 3:
                return bad
    return bad


# ---------------------------------------------------------------------------------- the check
def corpus():
    d = os.path.join(core.VERIF, "corpus", "C15")
    out = []
    if os.path.isdir(d):
        for f in sorted(os.listdir(d)):
            if f.endswith(".txt"):
                out.append((f, [l.rstrip("\n") for l in open(os.path.join(d, f)) if l.strip() and not l.startswith("#")]))
    return out


def sample_lines_fail(script, out):
    """success oracle on the `s …` lines of a run with one or more bulk ops on ONE sampler object: every successful
    sample must be in bounds with the library heuristic strictly below the bound OF ITS OWN bulk op (the current
    bound).  Returns (script line index of the bulk op, sample index within it, what) for the first failure, else None."""
    ops = [(i, l.split()) for i, l in enumerate(script) if l.split()[0] in ("bulk", "bulk3")]
    seg = 0
    idx = -1
    for ln in out:
        if ln.endswith(" done") and ln.split()[0] in ("bulk", "bulk3"):
            seg += 1
            idx = -1
            continue
        if not ln.startswith("s ") or seg >= len(ops):
            continue
        idx += 1
        if ln == "s ok=0":
            continue
        li, t = ops[seg]
        cs = t[1] if t[0] == "bulk" else t[2]
        c = math.inf if cs == "inf" else bits2f(cs)
        minc = bits2f(t[1]) if t[0] == "bulk3" else None
        _, d = fields(ln)
        hc = bits2f(d["hc"])
        if d["inb"] != "1":
            return li, idx, "successful sample is outside the space bounds (satisfiesBounds=0): %r" % (fvec(d["x"]),)
        if c < math.inf and not hc < c:
            return li, idx, "successful sample has heuristic cost %r >= the current maxCost %r (bulk op #%d of the script)" % (hc, c, seg + 1)
        if minc is not None and hc < minc:
            return li, idx, "successful sample has heuristic cost %r < minCost %r" % (hc, minc)
    return None


def glue_lines_fail(script, out):
    """oracle on `ctor` and `sup`/`sup3` lines of a script (used by replay): a constructor that takes ONE subspace both as the informed and
    as the uninformed part; a successful PHS-branch sample whose informed part (the sampler's own getInformedSubstate of the returned
    state) has a focal-sum minimum that is not below a bound above the smallest focal distance.  Returns (line number, what) or None."""
    n = None
    starts = goals = None
    for i, ln in enumerate(script[1:]):
        t = ln.split()
        o = out[i] if i < len(out) else ""
        _, d = fields(o)
        if t[0] == "space":
            n = int(t[2]) if t[1] in ("rv", "crv") else (3 if t[1] == "se3" else 2)
        elif t[0] in ("starts", "goals") and n:
            vs = [[bits2f(x) for x in t[2 + k * n: 2 + (k + 1) * n]] for k in range(int(t[1]))]
            if t[0] == "starts":
                starts = vs
            else:
                goals = vs
        elif t[0] == "ctor" and o.startswith("ctor ok") and d.get("hasun") == "1" and d.get("compound") == "1" and d.get("inf") == d.get("un"):
            return i + 1, "the constructor takes subspace %s both as the informed and as the uninformed part (createFullState overwrites the informed sample)" % d["inf"]
        elif t[0] == "ctor" and o.startswith("ctor ok") and d.get("compound") == "1" and t[7] in SE_TYPES and t[8:][int(d["inf"])] != "rv":
            return i + 1, "the constructor accepts an SE-typed compound space without a real-vector subspace (informed subspace %s is a rotation)" % d["inf"]
        elif t[0] in ("sup", "sup3") and d.get("found") == "1" and starts and goals and d.get("~xi", "-") != "-":
            c = bits2f(t[2] if t[0] == "sup" else t[3])
            x = fvec(d["~xi"])
            h = min(focal(x, s_, g_) for s_ in starts for g_ in goals)
            if c > min(dist(s_, g_) for s_ in starts for g_ in goals) and not h < c:
                return i + 1, "sampleUniform returned true with a state whose informed part %r has heuristic cost %r >= maxCost %r" % (x, h, c)
    return None


def truncate_at(script, li, idx):
    """script up to the failing bulk op, whose sample count becomes idx+1 (earlier bulk ops stay: they are history)"""
    s2 = list(script[:li + 1])
    s2[-1] = " ".join(s2[-1].split()[:-1] + [str(idx + 1)])
    return s2


def run_corpus(ck, hbin, cmpst):
    """corpus scripts are pair scripts (no harness-only ops) whose implementation output must equal the
    model's (tolerantly); a line `#expect <text>` is not used: the oracle is the lock-step itself."""
    bad = 0
    for name, script in corpus():
        if any(l.split()[0] in ("bulk", "bulk3", "keep", "probe", "sprobe", "surf") for l in script[1:]):
            # harness-only reproduction of a recorded finding: must run to completion (its verdict is the bulk oracle's)
            out, rc, err = ck.run_bin(hbin, script)
            ck.traces_validated += 1
            ck.count("scripts:corpus-harness-only")
            if rc != 0 or not out:
                ck.report({"engine": "phs", "class": "harness-failure", "what": "corpus %s: harness failed" % name}, script=script,
                          observed=(out or [])[-3:] + [str(rc), (err or "")[-800:]])
                bad += 1
                continue
            f = sample_lines_fail(script, out)
            if f is not None:
                li, idx, what = f
                s2 = truncate_at(script, li, idx)
                ck.report({"engine": "phs", "class": "corpus-regression", "corpus": name, "what": what}, script=s2, observed=[what],
                          expected=["success => satisfiesBounds and heuristic cost < maxCost"])
                ck.log("corpus %s: %s" % (name, what))
                bad += 1
            continue
        script = [script[0] + HDR[len("phs seed=%d"):]] + script[1:]
        impl, rc, err, model = ck.run_pair(hbin, DRIVER, script)
        impl = impl or []
        ck.traces_validated += 1
        ck.count("scripts:corpus")
        if rc != 0 or len(impl) != len(script) - 1:
            ck.report({"engine": "phs", "class": "harness-failure", "what": "corpus %s: harness stopped early" % name}, script=script,
                      observed=impl[-3:] + [str(rc), (err or "")[-800:]])
            bad += 1
            continue
        for i, ln in enumerate(script[1:]):
            ck.case((name, ln), True)
            d = cmpst.line(impl[i], model[i] if i < len(model) else "<missing>", 1e3)
            if d is not None:
                ck.disagreements += 1
                ck.report({"engine": "phs", "class": "correspondence", "what": "corpus %s: %s" % (name, d)}, script=script[:i + 2],
                          expected=[model[i] if i < len(model) else "<missing>"], observed=[impl[i]], found_input=False,
                          obligation="correspondence phs (corpus %s, %s)" % (name, ln.split()[0]))
                bad += 1
                break
    return bad


def setup(ck):
    ck.build_harness("phs", ["phs.cpp"], link_ompl=True)


def run(ck):
    ck.rule = ("one case = one protocol operation on the real code with its oracle (PHS lock-step: transform / point / measure ops; "
               "sampler lock-step: scripted rejection-loop calls) or one bulk sampling configuration; non-trivial = it evaluates the "
               "geometry, a decision of the sampler, or returns at least one successful sample; distinct by operation text / configuration")
    ck.trusted += ["harness/phs.cpp opens private/protected of the informed-sampler headers for its own translation unit; the rotation is "
                   "recovered through transform() (Eigen's SVD is not modelled: its orthonormality and first column are checked per instance at 1e-9)",
                   "model abstractions: left-to-right sums for Eigen reductions, half-integer Gamma recurrence for tgamma, pow as repeated product "
                   "(compared at 1e-12 relative), one Draw record per loop iteration, satisfiesBounds as an oracle",
                   "the samplers' private RNG draws are not injected: the PHS-sampling branch is checked by the oracle on sampled outputs, "
                   "the rejection loops by scripted base-sampler draws"]
    ck.assumptions += ["start and goal are separated by more than the library's 1e-9 circle tolerance; the cost bound is finite and above the focal distance "
                       "(an infinite bound falls back to the base sampler, checked as such; a bound at or below the focal distance samples the focal segment and is outside the property)",
                       "uniformity is proved for the construction (linear image of the uniform ball, 1/k overlap rejection), not for the RNG; the chi-square figures are tests",
                       "the base samplers stay inside the bounds (property C08)"]
    ck.lean_build(LEAN_TARGETS)
    ck.audit(roots=["Drv.Phs"])
    if ck.tier == "thorough" and ck.lean_ok:
        ck.leanchecker(["OmplModel.Props.C15"])
    hbin = ck.build_harness("phs", ["phs.cpp"], link_ompl=True)
    cmpst = Cmp()
    bad = run_corpus(ck, hbin, cmpst)
    quick = ck.tier == "quick"
    if bad < 3:
        bad += run_phs_scripts(ck, hbin, ck.rng.fork("phs"), 3 if quick else 12, [2, 3, 4, 5, 6, 7, 8], 3 if quick else 5, cmpst)
    if bad < 3:
        # one object, consecutive diameters a few ulps / 1e-16 apart (a dropped or approximate "did it change?" test shows here)
        bad += run_phs_scripts(ck, hbin, ck.rng.fork("ulp"), 1 if quick else 4, [2, 3, 5], 5 if quick else 8, cmpst, tag="phs-ulp", gen=gen_ulp_script)
    nsm = 24 if quick else 150
    for i in range(nsm):
        if bad >= 3:
            break
        bad += smp_lockstep(ck, hbin, ck.rng.fork("smp%d" % i), "smp", cmpst)
    # F36: a PHS erased by a low bound is never restored for a later higher bound
    for i in range(2 if quick else 6):
        if bad >= 3:
            break
        bad += smp_lockstep(ck, hbin, ck.rng.fork("nonmono%d" % i), "smp", cmpst, nonmonotone=True)
    if bad < 3:
        bad += run_exact(ck, hbin, cmpst)
    if bad < 3:
        bad += run_sup(ck, hbin, cmpst, ck.rng.fork("sup"))
    if bad < 3:
        bad += run_glue(ck, hbin, cmpst, ck.rng.fork("glue"))
    if bad < 3:
        bad += run_wrappers(ck, hbin, cmpst, ck.rng.fork("wrappers"))
    if bad < 3:
        bad += run_warm(ck, hbin, ck.rng.fork("warm"))
    if bad < 3:
        bad += run_ordered(ck, hbin, cmpst, ck.rng.fork("ordered"))
    if bad < 3:
        bad += run_seq(ck, hbin, cmpst, ck.rng.fork("seq"))
    if bad < 3:
        bad += run_keep(ck, hbin, ck.rng.fork("keep"))
    if bad < 3:
        bad += run_bulk(ck, hbin, ck.rng.fork("bulk"))
    tot = cmpst.exact + cmpst.approx
    ck.extra_cov["model_variant_selected_from_tree"] = {"restore_from_allPhsPtrs (fix 09980379c)": R36, "early_return_when_no_phs_can_improve (fix 5852532a8)": R130,
                                                      "no_uninformed_part_when_indices_coincide (fix 1d61cd7e5)": R450,
                                                      "se_typed_compound_needs_rv_and_so (repair of F451)": R451}
    ck.extra_cov["float_fields_compared"] = tot
    ck.extra_cov["float_fields_bit_exact"] = cmpst.exact
    ck.extra_cov["bit_exact_rate"] = round(cmpst.exact / float(tot), 4) if tot else None
    ck.drift_events = cmpst.approx + cmpst.flagdrift
    ck.extra_cov["boundary_flag_drift"] = cmpst.flagdrift
    return 0


def replay(ck, data):
    hbin = ck.build_harness("phs", ["phs.cpp"], link_ompl=True)
    script = data["script"]
    harness_only = any(l.split()[0] in ("bulk", "bulk3", "keep", "probe", "sprobe", "surf") for l in script[1:])
    impl, rc, err = ck.run_bin(hbin, script)
    impl = impl or []
    model = []
    if not harness_only:
        ck.lean_build([DRIVER])
        model = ck.run_bin(ck.driver(DRIVER), script)[0] or []
    shown = 0
    for i, ln in enumerate(script[1:]):
        if ln.startswith(("bulk", "keep")):
            break
        print("%-60s impl: %s" % (ln[:60], impl[i] if i < len(impl) else "<missing>"))
        if model and i < len(model) and (i >= len(impl) or impl[i] != model[i]):
            print("%-60s model: %s" % ("", model[i]))
        shown = i + 1
    rec = data.get("record", {})
    if harness_only:
        samples = [l for l in impl if l.startswith("s ")]
        print("… %d sample lines; last: %s" % (len(samples), samples[-1] if samples else "<none>"))
        for l in impl:
            if l.startswith("keep "):
                print(l)
        if any(l.split()[0] in ("bulk", "bulk3") for l in script[1:]):
            f = sample_lines_fail(script, impl)
            if f is not None:
                print("PROPERTY FAILS at script line %d, sample %d: %s" % f)
                return 1
            print("every successful sample is in bounds with heuristic cost below the bound: no failure on the current tree")
            return 0 if rc == 0 else 1
    print("recorded failure: %s" % rec.get("what"))
    gf = glue_lines_fail(script, impl)
    if gf is not None:
        print("PROPERTY FAILS at line %d: %s" % gf)
        return 1
    if not harness_only and model:
        cm = Cmp()
        for i, ln in enumerate(script[1:]):
            a = impl[i] if i < len(impl) else "<missing>"
            if "used=-1" in a:
                print("PROPERTY FAILS at line %d: the real call did not consume this call's own draws (dimension = PHS dimension)" % (i + 1))
                return 1
            dd = cm.line(a, model[i] if i < len(model) else "<missing>", 1e3, mtol=1e-6, xabs=1e-9)
            if dd is not None:
                print("FAILS at line %d (%s): implementation and model differ: %s" % (i + 1, ln.split()[0], dd))
                return 1
        print("implementation and model agree on every line: no failure on the current tree")
        return 0 if rc == 0 else 1
    if rc != 0:
        print("harness exit code %s: %s" % (rc, (err or "")[-800:]))
        return 1
    print("see the lines above; re-run `python3 run.py check C15` for the verdict on the current tree")
    return 0 if harness_only else (1 if rec.get("class") else 0)


MANIFEST = {
    "engine": "phs",
    "category": "proof",
    "design_ref": "DESIGN.md 2.15",
    "text": "Lean 4 theorems (every dimension): the prolate-hyperspheroid map x = R diag(c/2, r, ..., r) u + centre with orthonormal R whose "
            "first column is the focal axis sends the unit sphere onto focal sum = c, the closed ball into focal sum <= c, the open ball onto EXACTLY "
            "the set of focal sum < c (nothing that can help is excluded); in the plane the rotation is computed by the model itself (no hypothesis); "
            "the coded prolateHyperspheroidMeasure / unitNBallMeasure / nBallMeasure equal the closed forms and the reported measure IS the Lebesgue volume "
            "of {x : d(x,f1)+d(x,f2) < c} (Mathlib); the PHS state is a function of the current diameter only; the 1/k overlap rejection equalises the density "
            "on a finite partition; a true return of the modelled PathLengthDirectInfSampler (2- and 3-argument forms, both branches, any number of "
            "start/goal pairs), RejectionInfSampler, OrderedInfSampler (with its persistent queue) and the InformedStateSampler wrapper implies the returned "
            "state passed the bounds test and has minCost <= heuristic < maxCost within the iteration cap (arithmetic-free loop theorems + corollaries over R). "
            "Tied to the code by lock-step runs of the real classes against the compiled model: ProlateHyperspheroid ops (dims 2-8, incl. successive diameters "
            "1 ulp apart on one object), updatePhsDefinitions / heuristic / inclusion counts / informed measures, the rejection loops with scripted base-sampler "
            "draws, the PHS-sampling branch (multi-PHS selection, 1/k rejection, re-test) with the sampler's private RNG draws replayed through an identically "
            "seeded twin, the ordered sampler's queue, the wrapper; RNG::uniformProlateHyperspheroid[Surface] with replayed draws; SE(2)/SE(3) in the raw-draw lock-step (rotation "
            "sub-sampler twinned too); the circle branch (start = goal); bounds at/below the focal distance; a start added after construction; plus an oracle on "
            "~10^6 sampled outputs per quick run. Round 10: the two constructors' checks and the state-space classification (informedIdx_ / uninformedIdx_, nine exceptions), "
            "createFullState / getInformedSubstate and the PHS list order are modelled and lock-stepped on every (space type x subspace list x wrapper x problem) combination and on "
            "single-subspace compound, swapped-order SE(2), Dubins and Reeds-Shepp spaces; uniformity of the construction is a measure-theoretic theorem "
            "(vol(T^-1 A & ball) vol(PHS) = vol(A & PHS) vol(ball) for every set A); the diameter invariant of updatePhsDefinitions is derived, not assumed.",
    "note": "level: proof for geometry, measure and decision logic; sampled outputs for RNG uniformity (chi-square tests with loose thresholds), coverage and the "
            "compound-space (SE2/SE3) sampling paths. Trusted: Lean kernel, the three standard axioms, the hand-written model outside what the correspondence "
            "explored, Eigen's SVD for n >= 3 (orthonormality, first column and det = +1 checked per instance at 1e-9; n = 2 recomputed by the model), IEEE rounding "
            "(modelled, not verified), the harness. The model variant (PHS list restored from allPhsPtrs_; early false when no PHS can improve) is selected from the source of the tree under test; "
            "F36 and F130 are fixed in /repo, a revert of either is a VIOLATION. F450 (compound space with a single real-vector subspace: informed sample overwritten, subspace measure counted twice) is fixed in /repo (1d61cd7e5); the model follows, "
            "the old glue is kept as createFullStateOld for the witness. Open finding F451 (low severity, outside the quantifier): an SE-typed compound whose two subspaces are both "
            "rotations is accepted; witness se_typed_two_rotations_accepted_fails, repaired classification proved (classification_repaired_informed_is_real_vector) and selected "
            "automatically once notes/C15-fix-F451.diff is applied.",
    "technique": "Lean 4 proof (inner-product-space geometry, determinant/Haar measure of a linear image, Gamma recurrence, finite mixing argument, induction "
                 "over the sampler loops) + differential correspondence incl. RNG-twin replay + sampled-output oracle",
}
