"""C09 — copies and persisted data reproduce states and planner graphs exactly.

Obligations: theorems of lean/OmplModel/Props/C09.lean (kernel-checked, audited).
Correspondence: harness/copy.cpp (real libompl: StateSpace copy/clone/serialize/reals/copyStateData,
StateStorage, base+control PlannerDataStorage) vs the Lean model (drv_copy), line by line, on everything
before " # " of each output line.
Spec oracle (independent of the model, evaluated on the implementation's output only): a flat Python
specification of images / reals / value addresses / partial copies / graph bookkeeping, plus the verdicts
of the byte-level corruption sweep the harness ran on the real loaders (every truncation offset, flipped
marker, other space signature, archive of the other kind) and the LeakSanitizer report.
"""
import concurrent.futures
import math
import os
import re
import struct

from lib import core

DRIVER = "drv_copy"
LEAN_TARGETS = ["OmplModel.Props.C09", DRIVER]
# code under test that is compiled INTO the harness (ASan + UBSan incl. -fsanitize=vptr) instead of being taken from the
# uninstrumented libompl.so: the executable's definitions interpose the library's, so every call (also from inside the
# library) runs the instrumented copy.  Out-of-bounds offsets in (de)serialize, bad downcasts (F32), ... are then reported
# by the sanitizers at the faulty statement instead of showing up (or not) as wrong values.
INSTRUMENTED = ["src/ompl/base/src/StateSpace.cpp", "src/ompl/base/src/StateStorage.cpp"]
# (not the leaf spaces: their translation units instantiate Eigen allocation helpers whose layout depends on the
#  alignment flags libompl was built with; mixing the two copies makes Eigen free with the wrong scheme)


def harness_sources():
    return ["copy.cpp"] + [os.path.join(core.REPO, p) for p in INSTRUMENTED]


MODE = {"wc": "ub"}     # set by run(): "fixed" when the code under test shows the repaired behaviour of F32
ENGINE = "copy"


# ------------------------------------------------------------------------------------------ space trees
# ('R', nm, n) ('S2', nm) ('S3', nm) ('T', nm) ('D', nm) ('C', nm, [kids]) ('W', nm, kid)
def kids(sp):
    return sp[2] if sp[0] == 'C' else [sp[2]] if sp[0] == 'W' else []


def sp_tokens(sp):
    k = sp[0]
    if k == 'R':
        return ['R', str(sp[1]), str(sp[2])]
    if k == 'C':
        out = ['C', str(sp[1]), str(len(sp[2]))]
        for c in sp[2]:
            out += sp_tokens(c)
        return out
    if k == 'W':
        return ['W', str(sp[1])] + sp_tokens(sp[2])
    return [k, str(sp[1])]


def is_comp(sp):
    return sp[0] == 'C' or (sp[0] == 'W' and is_comp(sp[2]))


def has_wc(sp):
    if sp[0] == 'W':
        return is_comp(sp[2]) or has_wc(sp[2])
    return any(has_wc(c) for c in kids(sp))


def wc_below_compound(sp, below=False):
    """a wrapper around a compound space used as a component of a compound (finding F32)"""
    if sp[0] == 'W':
        if below and is_comp(sp[2]):
            return True
        return wc_below_compound(sp[2], below)
    if sp[0] == 'C':
        return any(wc_below_compound(c, True) for c in sp[2])
    return False


def zero_ext(sp):
    if sp[0] == 'R':
        return sp[2] == 0
    if sp[0] == 'W':
        return zero_ext(sp[2])
    if sp[0] == 'C':
        return not sp[2] or any(zero_ext(c) for c in sp[2])
    return False


def shape(sp):
    """atom kinds in serialization order"""
    k = sp[0]
    if k == 'R':
        return ['f'] * sp[2]
    if k in ('S2', 'T'):
        return ['f']
    if k == 'S3':
        return ['f'] * 4
    if k == 'D':
        return ['i']
    out = []
    for c in kids(sp):
        out += shape(c)
    return out


def ser_len(sp):
    return sum(8 if a == 'f' else 4 for a in shape(sp))


def dim(sp):
    k = sp[0]
    return {'R': sp[2] if k == 'R' else 0, 'S2': 1, 'S3': 3, 'T': 1, 'D': 1}.get(k, None) if k not in 'CW' else sum(dim(c) for c in kids(sp))


def real_addrs(sp):
    """state-tree paths of all doubles, in order (child indices, 0 through a wrapper, atom index last)"""
    k = sp[0]
    if k == 'R':
        return [[i] for i in range(sp[2])]
    if k in ('S2', 'T'):
        return [[0]]
    if k == 'S3':
        return [[0], [1], [2], [3]]
    if k == 'D':
        return []
    if k == 'W':
        return [[0] + a for a in real_addrs(sp[2])]
    out = []
    for i, c in enumerate(sp[2]):
        out += [[i] + a for a in real_addrs(c)]
    return out


def spec_locs(sp, chain=()):
    """(chain, index) of every double: chain = compound component indices down to the owning non-compound node"""
    if sp[0] == 'C':
        out = []
        for i, c in enumerate(sp[2]):
            out += spec_locs(c, chain + (i,))
        return out
    return [(chain, j) for j in range(len(real_addrs(sp)))]


def spec_subs(sp, chain=()):
    out = {sp[1]: chain}
    if sp[0] == 'C':
        for i, c in enumerate(sp[2]):
            out.update(spec_subs(c, chain + (i,)))
    return out


TYPE = {'R': 1, 'S2': 2, 'S3': 3, 'T': 6, 'D': 7, 'C': 0, 'W': 0}


def sig_body(sp):
    out = [TYPE[sp[0]], dim(sp)]
    if sp[0] == 'C':
        for c in sp[2]:
            out += sig_body(c)
    return out


def spec_sig(sp):
    while sp[0] == 'W':
        sp = sp[2]
    b = sig_body(sp)
    return [len(b)] + b


def unwrap(sp):
    """a top-level wrapper exposes the wrapped space's location tables"""
    while sp[0] == 'W':
        sp = sp[2]
    return sp


def chain_str(c):
    return ".".join(map(str, c)) if c else "e"


def names_of(sp):
    """node names reachable through genuine compound nodes (what copyStateData can match)"""
    out = [sp[1]]
    if sp[0] == 'C':
        for c in sp[2]:
            out += names_of(c)
    return out


def find_node(sp, nm, off=0):
    """(node, atom offset) of the node named nm, or None"""
    if sp[1] == nm:
        return sp, off
    if sp[0] == 'C':
        for c in sp[2]:
            r = find_node(c, nm, off)
            if r:
                return r
            off += len(shape(c))
    return None


def covered(D, S):
    if S[1] in names_of(D):
        return True
    return S[0] == 'C' and all(covered(D, c) for c in S[2])


def spec_csd(D, d, S, s):
    """specification of copyStateData(destS, dest, sourceS, source): every dest node whose name occurs in the
    source receives the source's values; nothing else changes; ALL iff the source is covered, NO iff disjoint."""
    d = list(d)
    snames = set(names_of(S))

    def go(x, off):
        if x[1] in snames:
            node, soff = find_node(S, x[1])
            n = len(shape(x))
            d[off:off + n] = s[soff:soff + n]
            return
        if x[0] == 'C':
            for c in x[2]:
                go(c, off)
                off += len(shape(c))
    go(D, 0)
    # an empty compound source component has no data: the code counts it as "all of it copied" (0 of 0 components)
    dn = set(names_of(D))
    some = any(y[1] in dn or (y[0] == 'C' and not y[2]) for y in subtrees(S))
    res = 2 if covered(D, S) else (1 if some else 0)
    return res, d


def spec_csdn(D, d, S, s, names):
    d = list(d)
    cnt = 0
    for nm in names:
        a, b = find_node(D, nm), find_node(S, nm)
        if a and b:
            n = len(shape(a[0]))
            d[a[1]:a[1] + n] = s[b[1]:b[1] + n]
            cnt += 1
    return (2 if cnt == len(names) else 1 if cnt else 0), d


def sp_covers(a, b):
    """StateSpaceCovers(a, b)"""
    if b[1] in names_of(a):
        return True
    return b[0] == 'C' and all(sp_covers(a, c) for c in b[2])


def common_names(D, S):
    return sorted(set(spec_subs(D)) & set(spec_subs(S)))


def ctrl_sig(tok):
    """ControlSpace::computeSignature of a protocol token: ["c:"] comp ("+" comp)*, comp = r<d> | d"""
    forced = tok.startswith("c:")
    comps = (tok[2:] if forced else tok).split("+")
    bodies = [[2, 1] if c == "d" else [1, int(c[1:])] for c in comps]
    if len(bodies) == 1 and not forced:
        body = bodies[0]
    else:
        body = [0, sum(b[1] for b in bodies)] + [x for b in bodies for x in b]
    return [len(body)] + body


def atom_bytes(a):
    if a[0] == 'f':
        return struct.pack("<Q", int(a[1:]))
    return struct.pack("<i", int(a[1:]))


def image_hex(atoms):
    b = b"".join(atom_bytes(a) for a in atoms)
    return b.hex() if b else "-"


def join_or(xs, sep=","):
    return sep.join(xs) if xs else "-"


# ------------------------------------------------------------------------------------------ generators
class Names:
    def __init__(self):
        self.n = 0

    def fresh(self):
        self.n += 1
        return self.n


def gen_leaf(r, names, allow_zero=True):
    k = r.below(10)
    if k < 4:
        lo = 0 if allow_zero and r.chance(1, 5) else 1
        return ('R', names.fresh(), r.range(lo, 4))
    return [('S2',), ('S3',), ('T',), ('D',), ('D',), ('S2',)][k - 4] + (names.fresh(),)


def gen_inner(r, names, depth, allow_zero=True):
    """a node below a compound: wrappers only around non-compound spaces"""
    k = r.below(10)
    if depth <= 0 or k < 5:
        return gen_leaf(r, names, allow_zero)
    if k < 7:
        x = gen_leaf(r, names, allow_zero)
        if MODE["wc"] == "fixed" and depth > 0 and r.chance(1, 2):
            # a wrapper around a compound as a component (well defined once F32 is repaired: the wrapper is opaque)
            x = ('C', names.fresh(), [gen_inner(r, names, depth - 1, allow_zero) for _ in range(r.range(1 if not allow_zero else 0, 3))])
        for _ in range(r.range(1, 2)):
            x = ('W', names.fresh(), x)
        return x
    n = r.range(0 if allow_zero else 1, 4)
    nm = names.fresh()
    return ('C', nm, [gen_inner(r, names, depth - 1, allow_zero) for _ in range(n)])


def gen_space(r, names, allow_zero=True):
    k = r.below(10)
    if k < 1:
        return gen_leaf(r, names, allow_zero)
    if k < 3:
        # top-level wrapper (setup() is needed: no zero-extent part inside)
        x = gen_inner(r, names, 2, False) if r.chance(1, 2) else ('C', names.fresh(), [gen_inner(r, names, 1, False) for _ in range(r.range(1, 3))])
        return ('W', names.fresh(), x)
    nm = names.fresh()
    return ('C', nm, [gen_inner(r, names, 2, allow_zero) for _ in range(r.range(0 if allow_zero else 1, 4))])


SPECIAL = [0, 1 << 63, 0x7FF0000000000000, 0xFFF0000000000000, 0x7FF8000000000000, 0x7FF0000000000001, 1,
           0x000FFFFFFFFFFFFF, 0x3FF0000000000000, 0xBFF0000000000000, 0x7FEFFFFFFFFFFFFF, 0x400921FB54442D18,
           0xC00921FB54442D18]


def fbits(x):
    return struct.unpack("<Q", struct.pack("<d", x))[0]


def gen_atoms(r, sp, regular):
    """regular: finite values, unit quaternions, in-bounds ints (equalStates must then hold for copies)"""
    k = sp[0]
    if k == 'R':
        return ["f%d" % (fbits(r.uniform(-1, 1)) if regular else rand_bits(r)) for _ in range(sp[2])]
    if k == 'S2':
        return ["f%d" % (fbits(r.uniform(-3.1, 3.1)) if regular else rand_bits(r))]
    if k == 'T':
        return ["f%d" % (fbits(r.uniform(-10, 10)) if regular else rand_bits(r))]
    if k == 'S3':
        if regular:
            q = [r.uniform(-1, 1) for _ in range(4)]
            n = math.sqrt(sum(x * x for x in q)) or 1.0
            q = [x / n for x in q] if n > 1e-3 else [0.0, 0.0, 0.0, 1.0]
            return ["f%d" % fbits(x) for x in q]
        return ["f%d" % rand_bits(r) for _ in range(4)]
    if k == 'D':
        return ["i%d" % (r.range(-5, 5) if regular else r.choice([-2147483648, 2147483647, -1, 0, r.range(-10 ** 9, 10 ** 9)]))]
    out = []
    for c in kids(sp):
        out += gen_atoms(r, c, regular)
    return out


def rand_bits(r):
    return r.choice(SPECIAL) if r.chance(1, 3) else r.next()


def subtrees(sp):
    out = [sp]
    if sp[0] == 'C':
        for c in sp[2]:
            out += subtrees(c)
    return out


def gen_related(r, names, A):
    """a space related to A by shared (same-named, same-shaped) nodes; returns (kind, space)"""
    k = r.below(6)
    subs = [x for x in subtrees(A)]
    if k == 0:
        return "same", A
    if k == 1 and len(subs) > 1:
        return "subspace", r.choice(subs[1:])
    if k == 2:
        extra = [gen_inner(r, names, 1) for _ in range(r.range(0, 2))]
        cs = extra + [A]
        r.shuffle(cs)
        if r.chance(1, 2):
            return "superspace", ('C', names.fresh(), cs)
        return "superspace-nested", ('C', names.fresh(), [gen_leaf(r, names), ('C', names.fresh(), cs)])
    if k == 3:
        return "disjoint", gen_space(r, names)
    # same-named components regrouped: a selection of disjoint subtrees of A (no node inside another), reordered,
    # mixed with fresh ones
    pick = []
    cand = subs[1:] if len(subs) > 1 else subs
    r.shuffle(cand)
    for c in cand:
        nn = set(names_of_all(c))
        if all(not (nn & set(names_of_all(p))) for p in pick):
            pick.append(c)
        if len(pick) >= 3:
            break
    pick += [gen_leaf(r, names) for _ in range(r.range(0, 2))]
    r.shuffle(pick)
    return "common-components", ('C', names.fresh(), pick)


def gen_equal_dim(r, names):
    """two spaces sharing several components of EQUAL dimension under different names (pos/vel/acc, SE3 parts listed
    separately, ...) together with components of other dimensions; the shared nodes are the same named trees"""
    kind = r.below(4)
    if kind == 0:       # k same-dimension real vectors
        n = r.range(1, 3)
        shared = [('R', names.fresh(), n) for _ in range(r.range(2, 4))]
    elif kind == 1:     # dimension-1 zoo: SO2, Time, Discrete, R1
        shared = [r.choice([('S2',), ('T',), ('D',)]) + (names.fresh(),) if r.chance(2, 3) else ('R', names.fresh(), 1)
                  for _ in range(r.range(2, 4))]
    elif kind == 2:     # dimension 3: R3 and SO3 (the parts of SE3), plus a second R3
        shared = [('R', names.fresh(), 3), ('S3', names.fresh()), ('R', names.fresh(), 3)][:r.range(2, 3)]
    else:               # equal-dimension compounds: two [R1, SO2]-like pairs
        shared = [('C', names.fresh(), [('R', names.fresh(), 1), ('S2', names.fresh())]) for _ in range(2)]
        shared.append(('R', names.fresh(), 2))
    other_a = [gen_leaf(r, names, False) for _ in range(r.range(0, 2))]
    other_b = [gen_leaf(r, names, False) for _ in range(r.range(0, 2))]
    a_parts = shared + other_a
    r.shuffle(a_parts)
    if kind == 2 and r.chance(1, 2):
        # SE3-like: the parts grouped in a sub-compound on one side, listed separately on the other
        a_parts = [('C', names.fresh(), shared[:2])] + shared[2:] + other_a
    keep = list(shared)
    r.shuffle(keep)
    keep = keep[:max(2, r.range(2, len(keep)))]
    b_parts = keep + other_b
    r.shuffle(b_parts)
    if r.chance(1, 3):
        b_parts = [('C', names.fresh(), b_parts[:2])] + b_parts[2:]
    return ('C', names.fresh(), a_parts), ('C', names.fresh(), b_parts)


def names_of_all(sp):
    out = [sp[1]]
    for c in kids(sp):
        out += names_of_all(c)
    return out


def rename_tree(sp, old, new):
    """first node in pre-order carrying the name"""
    done = [False]

    def go(x):
        if done[0]:
            return x
        if x[1] == old:
            done[0] = True
            return (x[0], new) + tuple(x[2:])
        if x[0] == 'C':
            return ('C', x[1], [go(c) for c in x[2]])
        if x[0] == 'W':
            return ('W', x[1], go(x[2]))
        return x
    return go(sp)


def no_wrapper_top(sp):
    return sp[0] != 'W'


class Script:
    def __init__(self, spaced=False):
        self.lines = ["copy wc=" + MODE["wc"] + (" names=spaced" if spaced else "")]
        self.meta = []       # parallel to lines[1:]: dict describing the op for the oracle

    def add(self, line, **meta):
        self.lines.append(line)
        self.meta.append(meta)


def gen_state_script(r):
    """spaces, states, reals conversions and partial copies"""
    sc = Script(spaced=r.chance(1, 4))
    names = Names()
    spaces = {}
    states = {}
    nsp = nst = 0

    def add_space(sp):
        nonlocal nsp
        nsp += 1
        spaces[nsp] = sp
        sc.add("space %d %s" % (nsp, " ".join(sp_tokens(sp))), op="space", sp=sp)
        return nsp

    def add_state(spid, regular):
        nonlocal nst
        nst += 1
        at = gen_atoms(r, spaces[spid], regular)
        states[nst] = (spid, at)
        sc.add(("state %d %d %d %s" % (nst, spid, len(at), " ".join(at))).strip(), op="state", sp=spaces[spid], atoms=at, regular=regular)
        return nst

    for _ in range(r.range(2, 4)):
        A = gen_space(r, names)
        a = add_space(A)
        sa = [add_state(a, r.chance(2, 3)) for _ in range(r.range(1, 3))]
        nre = len(real_addrs(A))
        for s in sa:
            if r.chance(1, 2):
                rs = [rand_bits(r) for _ in range(nre)]
                sc.add(("fromreals %d %d %s" % (s, nre, " ".join(map(str, rs)))).strip(), op="fromreals", sid=s, reals=rs)
            if r.chance(1, 2):
                sc.add("sreals %d" % s, op="sreals", sid=s)
            if r.chance(1, 3):
                k = r.choice([0, 1, nre, max(0, nre - 1), nre + 2])      # fewer, exactly, more values than the state has
                rs = [rand_bits(r) for _ in range(k)]
                sc.add(("sfrom %d %d %s" % (s, k, " ".join(map(str, rs)))).strip(), op="sfrom", sid=s, reals=rs)
        if has_wc(A) and MODE["wc"] != "fixed":
            continue
        for _ in range(r.range(1, 3)):
            kind, B = gen_related(r, names, A)
            if (has_wc(B) and MODE["wc"] != "fixed") or (B[0] == 'W' and zero_ext(B)):
                continue
            b = a if kind == "same" else add_space(B)
            sb = add_state(b, r.chance(2, 3))
            for (d, s) in ((r.choice(sa), sb), (sb, r.choice(sa))):
                if r.chance(1, 4):
                    sc.add("sop %d %d %s" % (d, s, r.choice(["shl", "shr"])), op="sop", d=d, s=s, rel=kind)
                elif r.chance(2, 3):
                    sc.add("csd %d %d" % (d, s), op="csd", d=d, s=s, rel=kind)
                elif no_wrapper_top(A) and no_wrapper_top(B):
                    if r.chance(1, 2):
                        sc.add("common %d %d" % (d, s), op="common", d=d, s=s, rel=kind)
                    else:
                        pool = names_of(A) + names_of(B) + [names.fresh()]
                        ns = [r.choice(pool) for _ in range(r.range(0, 3))]
                        sc.add(("csdn %d %d %d %s" % (d, s, len(ns), " ".join(map(str, ns)))).strip(), op="csdn", d=d, s=s, names=ns, rel=kind)
    # shared components of equal dimension (the std::set ordering of getCommonSubspaces must keep them apart):
    # fresh, different destination contents for each of the three ways to copy, in both directions
    for _ in range(r.range(1, 2)):
        A, B = gen_equal_dim(r, names)
        a, b = add_space(A), add_space(B)
        for (x, y) in ((a, b), (b, a)):
            src = add_state(y, r.chance(1, 2))
            for how in ("common", "csd", "csdn"):
                dst = add_state(x, False)      # sentinel contents (arbitrary bit patterns): an untouched component shows
                if how == "common":
                    sc.add("common %d %d" % (dst, src), op="common", d=dst, s=src, rel="equal-dimension")
                elif how == "csd":
                    sc.add("csd %d %d" % (dst, src), op="csd", d=dst, s=src, rel="equal-dimension")
                else:
                    ns = common_names(spaces[x], spaces[y])
                    r.shuffle(ns)
                    ns = ns[:r.range(0, len(ns))] + ([names.fresh()] if r.chance(1, 4) else [])
                    sc.add(("csdn %d %d %d %s" % (dst, src, len(ns), " ".join(map(str, ns)))).strip(), op="csdn", d=dst, s=src, names=ns, rel="equal-dimension")
        # history: one shared component is renamed in A after both spaces were set up and used; from then on it is no
        # longer common (fresh destination, all three ways to copy)
        shared = [n for n in common_names(spaces[a], spaces[b]) if find_node(spaces[a], n)[0][0] != 'C']
        if shared and r.chance(2, 3):
            old, new_nm = r.choice(shared), names.fresh()
            spaces[a] = rename_tree(spaces[a], old, new_nm)
            sc.add("rename %d %d %d" % (a, old, new_nm), op="rename", sp=spaces[a], spid=a)
            src = add_state(b, False)
            for how in ("common", "csd"):
                dst = add_state(a, False)
                sc.add("%s %d %d" % (how, dst, src), op=how, d=dst, s=src, rel="renamed-after-setup")
    # boundary: two components of one space carry the SAME name (same shape).  copyStateData is specified for unique names
    # only, so here the implementation is compared with the model (std::map last-wins vs first child found) but not with
    # the Python specification
    if r.chance(1, 3) and MODE["wc"]:
        n1, k = names.fresh(), r.range(1, 2)
        A = ('C', names.fresh(), [('R', n1, k), gen_leaf(r, names, False), ('R', n1, k)])
        B = ('C', names.fresh(), [gen_leaf(r, names, False), ('R', n1, k)])
        a, b = add_space(A), add_space(B)
        for (x, y) in ((a, b), (b, a)):
            src = add_state(y, False)
            for how in ("common", "csd", "csdn"):
                dst = add_state(x, False)
                if how == "csdn":
                    sc.add("csdn %d %d 1 %d" % (dst, src, n1), op="csdn", d=dst, s=src, names=[n1], rel="duplicate-names")
                else:
                    sc.add("%s %d %d" % (how, dst, src), op=how, d=dst, s=src, rel="duplicate-names")
    return sc


def edit_first(sp, nm, f):
    """apply f to the first node in pre-order (also below wrappers) named nm; returns (tree, found)"""
    if sp[1] == nm:
        return f(sp), True
    if sp[0] == 'C':
        out, done = [], False
        for c in sp[2]:
            if done:
                out.append(c)
            else:
                c2, done = edit_first(c, nm, f)
                out.append(c2)
        return ('C', sp[1], out), done
    if sp[0] == 'W':
        c2, done = edit_first(sp[2], nm, f)
        return ('W', sp[1], c2), done
    return sp, False


def find_any(sp, nm):
    for x in subtrees_all(sp):
        if x[1] == nm:
            return x
    return None


def apply_edits(sp, toks, locked, dimnames):
    """the structure after the edit list of an `evolve` line (independent of the model): returns (sp, locked, dimnames)"""
    locked = set(locked)
    dimnames = {k: dict(v) for k, v in dimnames.items()}
    i = 0
    while i < len(toks):
        e = toks[i]
        i += 1
        if e in ("setup", "compute"):
            continue
        if e in ("dim", "dimn"):
            nm = int(toks[i])
            i += 1
            node = find_any(sp, nm)
            if e == "dimn":
                dimnames.setdefault(nm, {})[node[2]] = int(toks[i])
                i += 1
            sp, _ = edit_first(sp, nm, lambda x: ('R', x[1], x[2] + 1))
        elif e == "sub":
            nm = int(toks[i])
            c, i = parse_sp(toks, i + 1)
            if nm not in locked:
                sp, _ = edit_first(sp, nm, lambda x: ('C', x[1], list(x[2]) + [c]))
        elif e == "name":
            old, new = int(toks[i]), int(toks[i + 1])
            i += 2
            sp, _ = edit_first(sp, old, lambda x: (x[0], new) + tuple(x[2:]))
            if old in locked:
                locked.discard(old)
                locked.add(new)
            if old in dimnames:
                dimnames[new] = dimnames.pop(old)
        elif e == "lock":
            locked.add(int(toks[i]))
            i += 1
        elif e == "w":
            i += 2
        else:
            raise ValueError("edit " + e)
    return sp, locked, dimnames


def spec_value_names(sp, dimnames):
    """getValueLocationsByName as name -> state-tree path of the double: every space reachable through genuine compounds (below
    the top-level wrappers) that holds at least one double names its first one; named dimensions of real vector spaces"""
    prefix = []
    while sp[0] == 'W':
        prefix.append(0)
        sp = sp[2]
    out = {}

    def go(x, path):
        ra = real_addrs(x)
        if ra:
            out[x[1]] = path + ra[0]
            if x[0] == 'R':
                for idx, dn in dimnames.get(x[1], {}).items():
                    out[dn] = path + [idx]
        if x[0] == 'C':
            for i, c in enumerate(x[2]):
                go(c, path + [i])
    go(sp, prefix)
    return out


def gen_evolve_script(r):
    """space-evolution histories: a space is set up and used, then CHANGES (addDimension, addSubspace at top level / in a nested
    compound / below a wrapper, setName, lock + refused addSubspace, setSubspaceWeight, intermediate setups) and is set up again;
    then the whole battery runs on the evolved space: images, clone/copy/deserialize, reals both ways, ScopedState, partial
    copies in both directions with a space that shares the ADDED component, common subspaces, storage with the new signature"""
    sc = Script(spaced=r.chance(1, 5))
    names = Names()
    spaces, states = {}, {}
    nst = 0
    kind = r.below(6)
    if kind == 0:
        A = ('R', names.fresh(), r.range(1, 3))
    elif kind == 1:
        A = ('W', names.fresh(), ('C', names.fresh(), [gen_inner(r, names, 1, False) for _ in range(r.range(1, 3))]))
    else:
        kids_ = [gen_inner(r, names, 2, False) for _ in range(r.range(1, 3))]
        if r.chance(1, 2):
            kids_.insert(r.below(len(kids_) + 1), ('C', names.fresh(), [gen_leaf(r, names, False), ('C', names.fresh(), [gen_leaf(r, names, False)])]))
        if r.chance(1, 2):
            kids_.append(('R', names.fresh(), r.range(1, 2)))
        A = ('C', names.fresh(), kids_)
    added = r.choice([('R', names.fresh(), r.range(1, 3)), ('S2', names.fresh()), ('S3', names.fresh()),
                      ('C', names.fresh(), [('R', names.fresh(), 2), ('S2', names.fresh())]), ('D', names.fresh())])
    # B shares the component that will be ADDED to A and (sometimes) one subtree A has from the start; those nodes are never
    # edited, so that equally named spaces stay structurally equal (copyStateData matches by name only)
    keep = r.choice(subtrees(A)[1:]) if A[0] == 'C' and len(subtrees(A)) > 1 and r.chance(1, 2) else None
    B = ('C', names.fresh(), [gen_leaf(r, names, False), added] + ([keep] if keep else []))
    protected = set(names_of_all(added)) | (set(names_of_all(keep)) if keep else set())

    def add_space(i, sp):
        spaces[i] = sp
        sc.add("space %d %s" % (i, " ".join(sp_tokens(sp))), op="space", sp=sp)

    def add_state(spid, regular):
        nonlocal nst
        nst += 1
        at = gen_atoms(r, spaces[spid], regular)
        states[nst] = spid
        sc.add(("state %d %d %d %s" % (nst, spid, len(at), " ".join(at))).strip(), op="state", sp=spaces[spid], atoms=at, regular=regular)
        return nst

    def battery(tag):
        A_ = spaces[1]
        nre = len(real_addrs(A_))
        sa = [add_state(1, r.chance(1, 2)) for _ in range(2)]
        for s_ in sa:
            if r.chance(2, 3):
                rs = [rand_bits(r) for _ in range(nre)]
                sc.add(("fromreals %d %d %s" % (s_, nre, " ".join(map(str, rs)))).strip(), op="fromreals", sid=s_, reals=rs)
            if r.chance(1, 2):
                sc.add("sreals %d" % s_, op="sreals", sid=s_)
            if r.chance(1, 3):
                k = r.choice([1, nre, nre + 1])
                rs = [rand_bits(r) for _ in range(k)]
                sc.add(("sfrom %d %d %s" % (s_, k, " ".join(map(str, rs)))).strip(), op="sfrom", sid=s_, reals=rs)
        sb = add_state(2, False)
        for (d, s_) in ((add_state(1, False), sb), (add_state(2, False), r.choice(sa))):
            sc.add("csd %d %d" % (d, s_), op="csd", d=d, s=s_, rel=tag)
        if no_wrapper_top(A_):
            for (dsp, ssp) in ((1, 2), (2, 1)):
                d, s_ = add_state(dsp, False), add_state(ssp, False)
                sc.add("common %d %d" % (d, s_), op="common", d=d, s=s_, rel=tag)
                ns = common_names(spaces[dsp], spaces[ssp])
                r.shuffle(ns)
                ns = ns[:r.range(0, len(ns))]
                d2 = add_state(dsp, False)
                sc.add(("csdn %d %d %d %s" % (d2, s_, len(ns), " ".join(map(str, ns)))).strip(), op="csdn", d=d2, s=s_, names=ns, rel=tag)
        else:
            d = add_state(1, False)
            sc.add("sop %d %d %s" % (d, sb, r.choice(["shl", "shr"])), op="sop", d=d, s=sb, rel=tag)
        if ser_len(A_) > 0 and r.chance(2, 3):
            sids = [r.choice(sa) for _ in range(r.range(1, 3))]
            sc.add("ss 1 2 %d %d %s" % (r.below(1 << 30), len(sids), " ".join(map(str, sids))), op="ss", sids=sids, sp=A_, sp2=spaces[2])

    add_space(1, A)
    add_space(2, B)
    battery("before-evolution")
    locked, dimnames = set(), {}
    for round_ in range(r.range(1, 2)):
        cur = spaces[1]
        toks = []
        tmp = cur
        have_added = added[1] in names_of_all(tmp)
        for _ in range(r.range(1, 4)):
            nodes = [x for x in subtrees_all(tmp) if x[1] not in protected]
            rs_ = [x for x in nodes if x[0] == 'R']
            cs_ = [x for x in nodes if x[0] == 'C']
            if not nodes:
                break
            y = r.below(100)
            step = None
            if y < 30 and rs_:
                n = r.choice(rs_)
                step = ["dimn", str(n[1]), str(names.fresh())] if r.chance(1, 3) else ["dim", str(n[1])]
            elif y < 65 and cs_:
                n = r.choice(cs_)
                if not have_added and n[1] not in locked:
                    child, have_added = added, True
                else:
                    child = gen_inner(r, names, 1, False)
                step = ["sub", str(n[1])] + sp_tokens(child)
            elif y < 78:
                n = r.choice(nodes)
                step = ["name", str(n[1]), str(names.fresh())]
            elif y < 86 and cs_:
                n = r.choice(cs_)
                step = ["lock", str(n[1])]
                if r.chance(2, 3):
                    step += ["sub", str(n[1])] + sp_tokens(gen_leaf(r, names, False))     # refused: the space is locked
            elif y < 93 and cs_:
                n = r.choice(cs_)
                step = ["w", str(n[1]), str(r.below(len(n[2]) + 1))]
            elif r.chance(1, 2):
                step = [r.choice(["setup", "compute"])]
            if step:
                toks += step
                tmp, locked, dimnames = apply_edits(tmp, step, locked, dimnames)
        toks.append("setup" if r.chance(3, 4) or tmp[0] == 'W' else "compute")
        spaces[1] = tmp
        sc.add("evolve 1 %s" % " ".join(toks), op="evolve", sp=tmp, dimnames={k: dict(v) for k, v in dimnames.items()}, spid=1)
        for k in [k for k, v in states.items() if v == 1]:
            del states[k]
        battery("after-evolution")
    return sc


def gen_storage_script(r, big=False, quick=True):
    sc = Script()
    names = Names()
    zero_ok = (not big) and r.chance(1, 8)       # a space whose states serialize to 0 bytes (R^0, empty compounds)
    while True:
        A = gen_space(r, names, allow_zero=r.chance(1, 2))
        if ser_len(A) > 0 or (zero_ok and A[0] != 'W'):
            break
    if zero_ok and r.chance(1, 2):
        A = r.choice([('R', names.fresh(), 0), ('C', names.fresh(), []), ('C', names.fresh(), [('R', names.fresh(), 0), ('C', names.fresh(), [])])])
    while True:
        B = gen_space(r, names)
        if ser_len(B) > 0:
            break
    if r.chance(1, 6):
        B = ('C', names.fresh(), [A]) if A[0] != 'C' else ('C', names.fresh(), list(A[2]) + [('R', names.fresh(), 1)])
    sc.add("space 1 %s" % " ".join(sp_tokens(A)), op="space", sp=A)
    sc.add("space 2 %s" % " ".join(sp_tokens(B)), op="space", sp=B)
    k = (r.range(120, 200) if quick else r.range(300, 500)) if big else r.choice([0, 1, 1, 2, 3, 5, 8])
    ndist = min(k, 12)
    for i in range(ndist):
        at = gen_atoms(r, A, r.chance(1, 2))
        sc.add(("state %d 1 %d %s" % (i + 1, len(at), " ".join(at))).strip(), op="state", sp=A, atoms=at, regular=False)
    sids = [r.range(1, ndist) for _ in range(k)] if ndist else []
    sc.add(("ss 1 2 %d %d %s" % (r.below(1 << 30), k, " ".join(map(str, sids)))).strip(), op="ss", sids=sids, sp=A, sp2=B)
    if ser_len(A) > 0 and not big:
        sc.add(("ssm 1 %d %d %s" % (r.below(1 << 30), k, " ".join(map(str, sids)))).strip(), op="ssm", sids=sids, sp=A)
    return sc


def gen_pd_script(r, big=False, quick=True, keyed=None):
    """a PlannerData history ending in dump / store / load / corruption sweep.  `keyed` scripts also address vertices by
    state (addEdge(v1, v2), removeVertex(v), removeEdge(v1, v2), markStartState, tagState, vertexIndex), add vertices after
    removals, clear() and re-use the object, decoupleFromPlanner() in mid-history, change the caller's state objects while the
    graph is coupled to them (aliasing), and extractStateStorage()."""
    sc = Script()
    names = Names()
    if keyed is None:
        keyed = r.chance(1, 2)
    while True:
        A = gen_space(r, names, allow_zero=r.chance(1, 3))
        if ser_len(A) > 0:
            break
    while True:
        B = gen_space(r, names)
        if ser_len(B) > 0:
            break
    sc.add("space 1 %s" % " ".join(sp_tokens(A)), op="space", sp=A)
    sc.add("space 2 %s" % " ".join(sp_tokens(B)), op="space", sp=B)
    cdim = r.range(1, 3) if r.chance(2, 5) else None
    nst = (r.range(20, 30) if quick else r.range(40, 70)) if big else (r.range(0, 9) if quick or not keyed else r.range(0, 14))
    for i in range(nst):
        at = gen_atoms(r, A, r.chance(1, 2))
        sc.add(("state %d 1 %d %s" % (i + 1, len(at), " ".join(at))).strip(), op="state", sp=A, atoms=at, regular=False)
    sc.add("pdnew 1 %s" % ("-" if cdim is None else cdim), op="pdnew", cdim=cdim)
    style = r.below(4)   # 0: ascending goals only, 1: anything, 2: many starts/goals, 3: start==goal allowed
    order = list(range(1, nst + 1))
    r.shuffle(order)
    # the generator's own picture of the graph (only to aim the operations; the oracle keeps its own bookkeeping):
    # per vertex the state id it points to (None once decoupled), the edge set by index
    verts = []
    edges = set()
    # PlannerData::removeVertex deletes a self-loop's edge object twice (out-edge pass and in-edge pass) and crashes; that is a
    # defect of graph editing, not of copying/persisting, so vertices carrying a self-loop are not removed (see notes/C09.md)
    nre = len(real_addrs(A))
    can_alias = nre > 0 and (MODE["wc"] == "fixed" or not has_wc(A))

    edgeless = r.chance(1, 3)      # vertices only: a truncation inside the vertex block is then the only way to fail

    def idx_of(sid):
        return verts.index(sid) if sid in verts else None

    def ctrl_tail():
        return " %d %d %s" % (fbits(r.uniform(0, 2)), cdim, " ".join(str(fbits(r.uniform(-1, 1)) if r.chance(3, 4) else rand_bits(r)) for _ in range(cdim)))

    def weight():
        return fbits(r.uniform(0, 10)) if r.chance(4, 5) else rand_bits(r)

    def edge(a, b):
        if edgeless:
            return
        line = "pde %d %d %d" % (a, b, weight())
        if cdim is not None:
            line += ctrl_tail()
        sc.add(line, op="pde")
        if a < len(verts) and b < len(verts):
            edges.add((a, b))

    def add_vertex(sid, ty, tag=None):
        if tag is None:
            tag = r.choice([0, 1, -1, 7, 2147483647, -2147483648, r.range(-1000, 1000)])
        sc.add("pdv %d %d %s" % (sid, tag, ty), op="pdv")
        if sid not in verts:
            verts.append(sid)
        return tag

    def remove_index(v):
        nonlocal edges
        if v < len(verts):
            del verts[v]
            edges = {(a - (a > v), b - (b > v)) for a, b in edges if a != v and b != v}

    for sid in order:
        ty = "p"
        x = r.below(10)
        if style == 2:
            ty = r.choice(["s", "g", "g", "p"])
        elif x < 2:
            ty = "s"
        elif x < 4:
            ty = "g"
        tag = add_vertex(sid, ty)
        nv = len(verts)
        if r.chance(1, 10):
            add_vertex(r.choice(order), r.choice("psg"), tag)   # same state again (or a later one early)
            nv = len(verts)
        for _ in range(r.below(3)):
            if nv:
                edge(r.below(nv + (1 if r.chance(1, 8) else 0)), r.below(nv))
    nv = len(verts)
    ops = r.range(0, 2 * nv + 2) + ((r.range(4, 14) if quick else r.range(8, 40)) if keyed else 0)     # thorough: longer histories
    for _ in range(ops):
        nv = len(verts)
        x = r.below(100)
        if keyed and r.chance(2, 3) and nst:
            y = r.below(100)
            sid = r.range(1, nst)
            if y < 20 and not edgeless:
                # addEdge(v1, v2, ...): vertices that are missing (never added, removed, or only present as decoupled clones)
                # are added on the way
                s2 = sid if r.chance(1, 8) else r.range(1, nst)
                line = "pdes %d %d %d %d %d" % (sid, r.range(-9, 9), s2, r.range(-9, 9), weight())
                if cdim is not None:
                    line += ctrl_tail()
                sc.add(line, op="pdes")
                for q in (sid, s2):
                    if q not in verts:
                        verts.append(q)
                edges.add((verts.index(sid), verts.index(s2)))
            elif y < 30:
                add_vertex(sid, r.choice("ppsg") if style != 0 else r.choice("pps"))
            elif y < 40:
                which = "s" if style == 0 else r.choice("sg")
                sc.add("pdmarks %d %s" % (sid, which), op="pdmarks")
            elif y < 47:
                sc.add("pdtags %d %d" % (sid, r.range(-50, 50)), op="pdtags")
            elif y < 57:
                sc.add("pdidx %d" % sid, op="pdidx")
            elif y < 69:
                v = idx_of(sid)
                if v is not None and (v, v) in edges:
                    continue
                sc.add("pdrmvs %d" % sid, op="pdrmvs")
                if v is not None:
                    remove_index(v)
            elif y < 77:
                s2 = r.range(1, nst)
                a, b = idx_of(sid), idx_of(s2)
                if cdim is not None and a is not None and b is not None and (a, b) not in edges:
                    # control::PlannerData::removeEdge(v1, v2) casts getEdge()'s NO_EDGE to PlannerDataEdgeControl when both
                    # vertices exist but the edge does not (out of C09's scope, see notes): not generated
                    continue
                sc.add("pdrmes %d %d" % (sid, s2), op="pdrmes")
                edges.discard((a, b))
            elif y < 85 and can_alias:
                # the caller changes a state object: a vertex that still points to it must show the new value, a decoupled
                # one (and everything loaded from an archive) must not
                rs = [rand_bits(r) for _ in range(nre)]
                sc.add(("fromreals %d %d %s" % (sid, nre, " ".join(map(str, rs)))).strip(), op="fromreals", sid=sid, reals=rs)
            elif y < 91:
                sc.add("pddecouple", op="pddecouple")
                verts[:] = [None] * len(verts)
            elif y < 95:
                sc.add("pddump", op="pddump")
                sc.add("pdextract %d" % r.below(1 << 30), op="pdextract")
            elif y < 100 and r.chance(1, 2):
                sc.add("pdclear", op="pdclear")
                del verts[:]
                edges.clear()
            continue
        if x < 40 and nv:
            a, b = r.below(nv), r.below(nv)
            if r.chance(1, 6):
                b = a                      # self loop
            edge(a, b)
            if r.chance(1, 6):
                edge(a, b)                 # parallel edge (refused)
        elif x < 55 and nv:
            which = r.choice("sg")
            if style == 0 and which == "g":
                continue
            sc.add("pdmark %d %s" % (r.below(nv + 1), which), op="pdmark")
        elif x < 65 and nv:
            sc.add("pdtag %d %d" % (r.below(nv + 1), r.range(-50, 50)), op="pdtag")
        elif x < 80 and nv:
            v = r.below(nv + 1)
            if (v, v) in edges:
                continue
            sc.add("pdrmv %d" % v, op="pdrmv")
            remove_index(v)
        elif x < 90 and nv:
            a, b = r.below(nv + 1), r.below(nv + 1)
            sc.add("pdrme %d %d" % (a, b), op="pdrme")
            edges.discard((a, b))
        elif style == 3 and nv:
            v = r.below(nv)
            sc.add("pdmark %d s" % v, op="pdmark")
            sc.add("pdmark %d g" % v, op="pdmark")
    if r.chance(1, 2):
        sc.add("pdcross", op="pdcross")
    sc.add("pddump", op="pddump")
    if keyed or r.chance(1, 4):
        sc.add("pdextract %d" % r.below(1 << 30), op="pdextract")
    sc.add("pdstore 2 %d" % r.below(1 << 30), op="pdstore", sp=A, sp2=B)
    if r.chance(1, 2):
        sc.add("pdreload", op="pdreload")
    if cdim is not None:
        # the same archive offered to PlannerData objects over other CONTROL spaces (other dimension, discrete, compound),
        # with the same and with another state space: accepted exactly when both signatures match
        toks = ["r%d" % (cdim + 1), "d", "c:r%d" % cdim, "r%d+d" % cdim, "d+d", "r1+r%d" % cdim] + (["r%d" % (cdim - 1)] if cdim > 1 else [])
        r.shuffle(toks)
        toks = ["r%d" % cdim] + toks[:r.range(2, 4)]
        r.shuffle(toks)
        sc.add("pdctl 2 %d %s" % (len(toks), " ".join(toks)), op="pdctl", toks=toks, cdim=cdim, sp=A, sp2=B)
    if keyed and can_alias and nst and r.chance(1, 2):
        # after the store: change a state object and dump again (the in-memory graph follows if still coupled)
        sid = r.range(1, nst)
        rs = [rand_bits(r) for _ in range(nre)]
        sc.add(("fromreals %d %d %s" % (sid, nre, " ".join(map(str, rs)))).strip(), op="fromreals", sid=sid, reals=rs)
        sc.add("pddump", op="pddump")
    if r.chance(1, 2):
        sc.add("pdcross", op="pdcross")
        sc.add("pddump", op="pddump")
    return sc


def gen_wc_probe():
    """the dedicated probe of finding F32 (undefined behaviour in the real code: run once, alone)"""
    sc = Script()
    A = ('C', 1, [('W', 2, ('C', 3, [('R', 4, 2), ('S2', 5)])), ('S2', 6)])
    sc.add("space 1 %s" % " ".join(sp_tokens(A)), op="space", sp=A)
    at = ["f%d" % fbits(x) for x in (0.25, -0.5, 1.0, 2.0)]
    sc.add("state 1 1 4 %s" % " ".join(at), op="state", sp=A, atoms=at, regular=True)
    return sc


def gen_wrapper_names_probe():
    """the dedicated probe of finding F105 (names overload of copyStateData on a top-level wrapper around a compound)"""
    sc = Script()
    A = ('W', 1, ('C', 2, [('R', 3, 2), ('S2', 4)]))
    sc.add("space 1 %s" % " ".join(sp_tokens(A)), op="space", sp=A)
    a = ["f%d" % fbits(x) for x in (0.25, -0.5, 1.0)]
    b = ["f%d" % fbits(x) for x in (0.75, 0.5, -2.0)]
    sc.add("state 1 1 3 %s" % " ".join(a), op="state", sp=A, atoms=a, regular=True)
    sc.add("state 2 1 3 %s" % " ".join(b), op="state", sp=A, atoms=b, regular=True)
    sc.add("csdnu 1 2 1 3", op="csdnu", d=1, s=2, names=[3], rel="top-level-wrapper")
    return sc


# ------------------------------------------------------------------------------------------ spec oracle
def kv(line):
    out = {}
    for tok in line.split():
        if "=" in tok:
            k, _, v = tok.partition("=")
            out[k] = v
    return out


def std_binary_search(xs, x):
    first, n = 0, len(xs)
    while n > 0:
        half = n // 2
        if xs[first + half] < x:
            first += half + 1
            n -= half + 1
        else:
            n = half
    return first < len(xs) and not (x < xs[first])


class PDSpec:
    """independent bookkeeping of what the script asked PlannerData to hold"""

    def __init__(self, cdim):
        self.cdim = cdim
        self.verts = []      # dict(sid, tag, img, start, goal)
        self.edges = []      # (src, dst, rest-of-record string) in insertion order

    def index_of(self, sid):
        """the vertex that points to the caller's state object `sid` (a decoupled vertex points to its own clone)"""
        for i, v in enumerate(self.verts):
            if v["sid"] == sid:
                return i
        return None

    def refresh(self, states):
        """a coupled vertex shows what its state object holds now"""
        for v in self.verts:
            if v["sid"] is not None:
                v["img"] = image_hex(states[v["sid"]][1])

    def add(self, sid, tag, states):
        idx = self.index_of(sid)
        if idx is None:
            self.verts.append({"sid": sid, "tag": tag, "img": image_hex(states[sid][1]), "start": False, "goal": False})
            idx = len(self.verts) - 1
        return idx

    def remove(self, v):
        del self.verts[v]
        self.edges = [(a - (a > v), b - (b > v), r_) for a, b, r_ in self.edges if a != v and b != v]


def oracle(sc, impl, rc, err):
    """returns list of (line_index, record dict, message) failures; record carries the keys known findings match on"""
    fails = []
    spaces, states = {}, {}
    pd = None
    last_dump = None
    n_expected = len(sc.lines) - 1
    died_at = len(impl) if len(impl) < n_expected else None
    for i, meta in enumerate(sc.meta):
        line = sc.lines[i + 1]
        if i >= len(impl):
            break
        full = impl[i]
        out, _, extra = full.partition(" # ")
        t = line.split()
        op = meta.get("op")
        f = kv(out)
        x = kv(extra)

        def fail(what, msg, **rec):
            r = {"engine": ENGINE, "what": what, "op": op}
            r.update(rec)
            fails.append((i, r, msg))

        if out == "bad-op":
            fail("bad-op", "bad-op on a well-formed line: " + line[:80])
            continue
        if op in ("csd", "csdn", "common", "sop") and meta.get("rel") == "duplicate-names":
            # outside the specification (names are not unique): follow the implementation, the model is compared line by line
            dsp = states[meta["d"]][0]
            states[meta["d"]] = (dsp, [] if f.get("atoms", "-") == "-" else f["atoms"].split(","))
            continue
        if op in ("space", "rename", "evolve"):
            sp = meta["sp"]
            spaces[int(t[1])] = sp
            if op == "evolve":
                # the states of the old structure were released
                states = {k: v for k, v in states.items() if v[0] != int(t[1])}
            cls = "wrapper-of-compound-in-compound" if wc_below_compound(sp) else "plain"
            exp = {
                "sig": join_or(list(map(str, spec_sig(sp)))),
                "len": str(ser_len(sp)), "dim": str(dim(sp)), "nreals": str(len(real_addrs(sp))),
                "locs": join_or(["%s:%d" % (chain_str(c), j) for c, j in spec_locs(unwrap(sp))], ";"),
                "va": ";".join([chain_str(a) for a in real_addrs(sp)] + ["null"]),
            }
            exp["subs"] = join_or(["%d:%s" % (nm, chain_str(c)) for nm, c in sorted(spec_subs(unwrap(sp)).items())], ";")
            for k2, v in exp.items():
                if f.get(k2) != v:
                    what = {"nreals": "reals-lost", "locs": "reals-lost", "va": "value-address"}.get(k2, "space-" + k2)
                    fail(what, "%s=%s, specification says %s%s" % (k2, f.get(k2), v, " (after the space changed and was set up again)" if op == "evolve" else ""),
                         space_class=cls if op != "evolve" else "evolved-after-setup")
                    break
            else:
                if op == "evolve":
                    want = spec_value_names(sp, meta.get("dimnames", {}))
                    want_s = join_or(["%d:%s" % (k, chain_str(v)) for k, v in sorted(want.items())], ";")
                    if x.get("vn") != want_s:
                        fail("value-names", "getValueLocationsByName/getValueAddressAtName after the space changed and was set up again: %s; the current "
                             "structure has %s" % (x.get("vn", "")[:150], want_s[:150]), space_class="evolved-after-setup")
        elif op == "state":
            sp, at = meta["sp"], meta["atoms"]
            states[int(t[1])] = (int(t[2]), list(at))
            cls = "wrapper-of-compound-in-compound" if wc_below_compound(sp) else "plain"
            img = image_hex(at)
            reals = join_or([a[1:] for a in at if a[0] == 'f'])
            for k2, v, what in (("img", img, "serialize"), ("clone", img, "clone"), ("copy", img, "copy"),
                                ("deser", join_or(at), "deserialize"), ("reals", reals, "reals-lost")):
                if f.get(k2) != v:
                    fail(what, "%s=%s, specification says %s" % (k2, f.get(k2, "")[:120], v[:120]), space_class=cls)
                    break
            else:
                if meta["regular"] and (x.get("eq") != "1" or x.get("ceq") != "1"):
                    fail("equalStates", "a clone/copy of a regular state is not equalStates to the original (%s)" % extra)
        elif op == "fromreals":
            spid, at = states[meta["sid"]]
            rs = iter(meta["reals"])
            new = [("f%d" % next(rs)) if a[0] == 'f' else a for a in at]
            states[meta["sid"]] = (spid, new)
            if f.get("atoms") != join_or(new) or f.get("reals") != join_or(list(map(str, meta["reals"]))):
                fail("reals-roundtrip", "after copyFromReals: %s; specification says atoms=%s" % (out[:160], join_or(new)[:120]))
        elif op in ("csd", "csdn", "csdnu"):
            (dsp, d), (ssp, s) = states[meta["d"]], states[meta["s"]]
            if op == "csd":
                res, nd = spec_csd(spaces[dsp], d, spaces[ssp], s)
            elif op == "csdnu":
                res, nd = spec_csdn(unwrap(spaces[dsp]), d, unwrap(spaces[ssp]), s, meta["names"])
            else:
                res, nd = spec_csdn(spaces[dsp], d, spaces[ssp], s, meta["names"])
            states[meta["d"]] = (dsp, nd)
            if f.get("atoms") != join_or(nd):
                fail("copyStateData-transfer", "dest after %s is %s; specification says %s (relation %s)" % (op, f.get("atoms", "")[:120], join_or(nd)[:120], meta["rel"]))
            elif f.get("res") != str(res):
                fail("copyStateData-result", "result code %s; specification says %d (relation %s)" % (f.get("res"), res, meta["rel"]))
        elif op == "common":
            (dsp, d), (ssp, s) = states[meta["d"]], states[meta["s"]]
            D, S = spaces[dsp], spaces[ssp]
            common = common_names(D, S)
            res, nd = spec_csdn(D, d, S, s, common)
            states[meta["d"]] = (dsp, nd)
            got = [] if f.get("names", "-") == "-" else list(map(int, f["names"].split(",")))
            node = lambda nm: find_node(D, nm)[0]
            lost = [n for n in common if n not in got and not any(m != n and sp_covers(node(m), node(n)) for m in got)]
            if any(n not in common for n in got):
                fail("common-subspaces", "getCommonSubspaces returned %s, common names are %s" % (got, common))
            elif lost:
                fail("common-subspaces", "getCommonSubspaces returned %s: the common subspace(s) %s (of %s) are neither returned nor covered by a returned one" % (got, lost, common), rel=meta["rel"])
            elif any(a != b and sp_covers(node(a), node(b)) and not sp_covers(node(b), node(a)) for a in got for b in got):
                fail("common-subspaces", "getCommonSubspaces returned %s with one element covered by another" % got)
            elif f.get("atoms") != join_or(nd):
                fail("copyStateData-transfer", "dest after the common-subspace copy is %s; specification says %s (relation %s)" % (f.get("atoms", "")[:120], join_or(nd)[:120], meta["rel"]))
            elif f.get("res") != "2":
                fail("copyStateData-result", "result code %s after copying the common subspaces; specification says 2" % f.get("res"))
        elif op == "sop":
            (dsp, d), (ssp, s) = states[meta["d"]], states[meta["s"]]
            res, nd = spec_csd(spaces[dsp], d, spaces[ssp], s)
            states[meta["d"]] = (dsp, nd)
            if f.get("atoms") != join_or(nd):
                fail("copyStateData-transfer", "dest after the ScopedState operator is %s; specification says %s (relation %s)" % (f.get("atoms", "")[:120], join_or(nd)[:120], meta["rel"]))
        elif op == "sreals":
            at = states[meta["sid"]][1]
            want = join_or([a[1:] for a in at if a[0] == 'f'])
            if f.get("reals") != want:
                fail("reals-lost", "ScopedState::reals() = %s, the state's doubles are %s" % (f.get("reals", "")[:120], want[:120]), space_class="plain")
        elif op == "sfrom":
            spid, at = states[meta["sid"]]
            rs = list(meta["reals"])
            new, k = [], 0
            for a in at:
                if a[0] == 'f' and k < len(rs):
                    new.append("f%d" % rs[k])
                    k += 1
                else:
                    new.append(a)
            states[meta["sid"]] = (spid, new)
            if f.get("atoms") != join_or(new):
                fail("reals-roundtrip", "after ScopedState::operator=(reals) with %d values: %s; specification says %s" % (len(rs), f.get("atoms", "")[:120], join_or(new)[:120]))
        elif op == "ssm":
            imgs = [image_hex(states[s][1]) for s in meta["sids"]]
            md = [join_or([str((i * 7 + j * 3) % 11) for j in range(i % 3)], ".") for i in range(len(imgs))]
            if f.get("n") != str(len(imgs)) or f.get("imgs") != join_or(imgs, ";") or f.get("md") != join_or(md, ";") or out.endswith(" ERR"):
                fail("states-roundtrip", "GraphStateStorage store/load: %s" % out[:160])
            elif f.get("rbm") != ",".join("%d/%d" % (k, k) for k in range(len(imgs) + 1)):
                # a prefix that ends after k complete state records (k = all: just before the metadata block) must leave k states
                # and k metadata entries
                fail("metadata-inconsistent", "GraphStateStorage after loading the record prefixes holds states/metadata %s" % f.get("rbm"),
                     call="StateStorageWithMetadata::loadMetadata", shape="record-prefix")
            else:
                tr = x.get("trunc", "0/1/?").split("/")
                inc = re.match(r"^(\d+)(?:/(\d+):(\d+)states/(\d+)metadata)?$", x.get("inconsistent", "0"))
                if tr[1] != "0":
                    fail("truncation", "GraphStateStorage::load on a truncated stream: %s of %s offsets wrong, first %s" % (tr[1], tr[0], tr[2] if len(tr) > 2 else "?"),
                         call="StateStorageWithMetadata::load", kind=(tr[2].split(":")[1] if len(tr) > 2 and ":" in tr[2] else "?"))
                elif not inc or inc.group(1) != "0":
                    # as coded: loadStates has added ALL states (with default metadata), loadMetadata clears metadata_ and then fails
                    ns, nm = (int(inc.group(3)), int(inc.group(4))) if inc and inc.group(3) else (-1, -1)
                    fail("metadata-inconsistent", "after a load truncated at offset %s the storage holds %d states but %d metadata entries (%s such offsets): "
                         "getMetadata(i) is out of range for stored states" % (inc.group(2) if inc else "?", ns, nm, inc.group(1) if inc else "?"),
                         call="StateStorageWithMetadata::loadMetadata",
                         shape=("all-states-fewer-metadata" if ns == len(imgs) and 0 <= nm < ns else "other"))
        elif op == "ss":
            imgs = [image_hex(states[s][1]) for s in meta["sids"]]
            same_sig = spec_sig(meta["sp"]) == spec_sig(meta["sp2"])
            if f.get("n") != str(len(imgs)) or f.get("imgs") != join_or(imgs, ";") or x.get("clean") != "1":
                fail("states-roundtrip", "StateStorage store/load returned n=%s (stored %d) clean=%s" % (f.get("n"), len(imgs), x.get("clean")))
            elif f.get("marker") != "rej":
                fail("marker-accepted", "StateStorage::load with a wrong marker: %s" % f.get("marker"), call="StateStorage::load")
            elif f.get("sig") != ("same" if same_sig else "rej"):
                fail("signature-accepted", "StateStorage::load of another space's archive: %s" % f.get("sig"), call="StateStorage::load")
            elif f.get("hist") != "ok":
                fail("storage-history", "one StateStorage object re-used (junk state, full load, truncated load, full load, second store): %s" % f.get("hist"), call="StateStorage::load")
            elif f.get("rb") != (join_or(list(map(str, range(len(imgs))))) if ser_len(meta["sp"]) > 0 else "-"):
                fail("truncation", "states present after loading the record prefixes: %s" % f.get("rb"), call="StateStorage::load")
            else:
                tr = x.get("trunc", "0/1/?").split("/")
                if tr[1] != "0":
                    fail("truncation", "StateStorage::load on a truncated stream: %s of %s offsets wrong, first %s" % (tr[1], tr[0], tr[2] if len(tr) > 2 else "?"),
                         call="StateStorage::load", kind=(tr[2].split(":")[1] if len(tr) > 2 and ":" in tr[2] else "?"))
        elif op == "pdnew":
            pd = PDSpec(meta["cdim"])
        elif op == "pdv":
            sid, tag, ty = int(t[1]), int(t[2]), t[3]
            idx = pd.add(sid, tag, states)
            if ty == "s":
                pd.verts[idx]["start"] = True
            if ty == "g":
                pd.verts[idx]["goal"] = True
            if f.get("idx") != str(idx):
                fail("planner-data", "addVertex returned %s, expected %d" % (f.get("idx"), idx))
        elif op == "pdmark":
            idx = int(t[1])
            ok = idx < len(pd.verts)
            if ok:
                pd.verts[idx]["start" if t[2] == "s" else "goal"] = True
            if f.get("ok") != ("1" if ok else "0"):
                fail("planner-data", "mark returned %s" % f.get("ok"))
        elif op == "pdtag":
            idx = int(t[1])
            ok = idx < len(pd.verts)
            if ok:
                pd.verts[idx]["tag"] = int(t[2])
            if f.get("ok") != ("1" if ok else "0"):
                fail("planner-data", "tagState returned %s" % f.get("ok"))
        elif op == "pde":
            a, b = int(t[1]), int(t[2])
            ok = a < len(pd.verts) and b < len(pd.verts) and not any(e[0] == a and e[1] == b for e in pd.edges)
            if ok:
                rest = [t[3]]
                if pd.cdim is not None:
                    rest += [t[4], b"".join(struct.pack("<Q", int(u)) for u in t[6:]).hex()]
                pd.edges.append((a, b, rest))
            if f.get("ok") != ("1" if ok else "0"):
                fail("planner-data", "addEdge(%d,%d) returned %s, expected %d" % (a, b, f.get("ok"), ok))
        elif op == "pdrmv":
            v = int(t[1])
            ok = v < len(pd.verts)
            if ok:
                pd.remove(v)
            if f.get("ok") != ("1" if ok else "0"):
                fail("planner-data", "removeVertex returned %s" % f.get("ok"))
        elif op in ("pdmarks", "pdtags", "pdidx", "pdrmvs"):
            idx = pd.index_of(int(t[1]))
            if op == "pdidx":
                if f.get("idx") != ("none" if idx is None else str(idx)):
                    fail("state-index-map", "vertexIndex(state %s) = %s, the vertex that points to it is %s" % (t[1], f.get("idx"), idx), call=op)
                continue
            if idx is not None:
                if op == "pdmarks":
                    pd.verts[idx]["start" if t[2] == "s" else "goal"] = True
                elif op == "pdtags":
                    pd.verts[idx]["tag"] = int(t[2])
                else:
                    pd.remove(idx)
            if f.get("ok") != ("1" if idx is not None else "0"):
                fail("state-index-map", "%s on state %s returned %s; that state %s" % (op, t[1], f.get("ok"), "is vertex %d" % idx if idx is not None else "is not a vertex"), call=op)
        elif op == "pdes":
            a = pd.add(int(t[1]), int(t[2]), states)
            b = pd.add(int(t[3]), int(t[4]), states)
            ok = not any(e[0] == a and e[1] == b for e in pd.edges)
            if ok:
                rest = [t[5]]
                if pd.cdim is not None:
                    rest += [t[6], b"".join(struct.pack("<Q", int(u)) for u in t[8:]).hex()]
                pd.edges.append((a, b, rest))
            if f.get("ok") != ("1" if ok else "0") or f.get("nv") != str(len(pd.verts)):
                fail("state-index-map", "addEdge(v1, v2) on states %s, %s returned %s with %s vertices; expected %d with %d vertices (edge %d -> %d)"
                     % (t[1], t[3], f.get("ok"), f.get("nv"), ok, len(pd.verts), a, b), call=op)
        elif op == "pdrmes":
            a, b = pd.index_of(int(t[1])), pd.index_of(int(t[2]))
            ok = a is not None and b is not None and any(e[0] == a and e[1] == b for e in pd.edges)
            if ok:
                pd.edges = [e for e in pd.edges if not (e[0] == a and e[1] == b)]
            if f.get("ok") != ("1" if ok else "0"):
                fail("state-index-map", "removeEdge(v1, v2) on states %s, %s returned %s, expected %d" % (t[1], t[2], f.get("ok"), ok), call=op)
        elif op == "pdclear":
            pd = PDSpec(pd.cdim)
        elif op == "pddecouple":
            pd.refresh(states)
            for v in pd.verts:
                v["sid"] = None          # the vertex owns a clone now: no state object of the caller is this vertex any more
        elif op == "pdextract":
            pd.refresh(states)
            want = join_or(["%s:%s" % (v["img"], join_or([str(e[1]) for e in pd.edges if e[0] == i], ".")) for i, v in enumerate(pd.verts)], ";")
            if f.get("n") != str(len(pd.verts)) or f.get("X") != want:
                fail("extract-state-storage", "extractStateStorage: per vertex (state image : out-neighbours) n=%s %s; the graph is n=%d %s"
                     % (f.get("n"), f.get("X", "")[:150], len(pd.verts), want[:150]), call=op)
            elif f.get("rt") != "same":
                fail("extract-state-storage", "the extracted GraphStateStorage does not survive store/load: rt=%s" % f.get("rt"), call=op)
        elif op == "pdrme":
            a, b = int(t[1]), int(t[2])
            ok = any(e[0] == a and e[1] == b for e in pd.edges)
            pd.edges = [e for e in pd.edges if not (e[0] == a and e[1] == b)]
            if f.get("ok") != ("1" if ok else "0"):
                fail("planner-data", "removeEdge returned %s" % f.get("ok"))
        elif op in ("pddump", "pdstore"):
            if op == "pdstore" and f.get("ok") != "1":
                fail("graph-roundtrip", "store/load of a valid graph failed: %s" % full[:120])
                continue
            pd.refresh(states)
            problems = judge_graph(pd, f, last_dump if op == "pdstore" else None, loaded=(op == "pdstore"))
            for what, msg, rec in problems:
                fail(what, ("loaded graph: " if op == "pdstore" else "in-memory graph: ") + msg, **rec)
            if op == "pddump":
                last_dump = f
            elif not problems:
                same_sig = spec_sig(meta["sp"]) == spec_sig(meta["sp2"])
                if f.get("marker") != "rej":
                    fail("marker-accepted", "PlannerDataStorage::load with a wrong marker: %s" % f.get("marker"), call="PlannerDataStorage::load")
                elif f.get("sig") != ("same" if same_sig else "rej"):
                    fail("signature-accepted", "PlannerDataStorage::load of another space's archive: %s" % f.get("sig"), call="PlannerDataStorage::load")
                elif f.get("restore") != "same":
                    fail("graph-roundtrip", "store(load(store(g))) does not reproduce the archive byte for byte", call="PlannerDataStorage::store")
                else:
                    tr = x.get("trunc", "0/1/?").split("/")
                    if tr[1] != "0":
                        fail("truncation", "PlannerDataStorage::load on a truncated stream: %s of %s offsets wrong, first %s" % (tr[1], tr[0], tr[2] if len(tr) > 2 else "?"),
                             call="PlannerDataStorage::load", kind=(tr[2].split(":")[1] if len(tr) > 2 and ":" in tr[2] else "?"))
        elif op == "pdctl":
            want = []
            for tk in meta["toks"]:
                cs_ok = ctrl_sig(tk) == ctrl_sig("r%d" % meta["cdim"])
                want.append("s%s:%s" % (tk, "acc" if cs_ok else "rej"))
                want.append("o%s:%s" % (tk, "acc" if cs_ok and spec_sig(meta["sp"]) == spec_sig(meta["sp2"]) else "rej"))
            got = [] if f.get("t", "-") == "-" else f["t"].split(",")
            badv = [g for g, w in zip(got, want) if g != w] if len(got) == len(want) else ["length"]
            if badv:
                fail("control-signature", "control archive offered to other (state space, control space) pairs: %s; must be accepted exactly when both "
                     "signatures match (and then reproduce controls and durations): expected %s" % (",".join(badv), ",".join(w for g, w in zip(got, want) if g != w)),
                     call="control::PlannerDataStorage::load")
        elif op == "pdreload":
            if f.get("ok") != "1" or x.get("threw") == "1":
                fail("reload-used-planner-data", "load() into a PlannerData that held another graph failed: %s" % full[:100], call="pdreload")
            else:
                pd.refresh(states)
                for what, msg, rec in judge_graph(pd, f, last_dump, loaded=True):
                    if what == "goal-marks-lost":      # the store side of it (F31): same as for pdstore
                        fail(what, "loaded graph: " + msg, **rec)
                    else:
                        fail("reload-used-planner-data", "load() into a PlannerData that held another graph before (load() calls pd.clear()): " + msg, call="pdreload")
        elif op == "pdcross":
            if f.get("cross") != "rej":
                fail("wrong-kind-archive", "an archive of the other kind (geometric/control marker) must make load() return false with an "
                     "OMPL error and no escaping exception: %s" % full[:80],
                     call="pdcross", how=("exception" if x.get("threw") == "1" else "died" if f.get("cross") == "" else "accepted"))
    if died_at is not None:
        meta = sc.meta[died_at] if died_at < len(sc.meta) else {}
        partial = impl[died_at] if died_at < len(impl) else ""
        rec = {"engine": ENGINE, "what": "crash", "op": meta.get("op"), "call": meta.get("op")}
        if meta.get("op") == "csdnu":
            rec["what"] = "substate-of-wrapper"
            rec["call"] = "csdnu"
            # as coded: StateSpace::getSubstateAtLocation walks the wrapper's StateType as a CompoundState
            rec["how"] = "bad-downcast-to-CompoundState" if re.search(r"downcast of address \S+ which does not point to an object of type 'CompoundState'", err or "") else "other"
        if meta.get("op") in ("space", "state") and wc_below_compound(meta.get("sp", ('R', 0, 0))):
            rec["what"] = "reals-lost"
            rec["space_class"] = "wrapper-of-compound-in-compound"
        fails.append((died_at, rec, "the harness died at op %d (%s), rc=%s: %s" % (died_at, sc.lines[died_at + 1][:60] if died_at + 1 < len(sc.lines) else "?", rc,
                                                                              (err or "").strip().splitlines()[1][:200] if len((err or "").strip().splitlines()) > 1 else "")))
    # LeakSanitizer: only objects lost inside a failing load() are a known finding
    if err and "LeakSanitizer" in err:
        blocks = re.split(r"\n(?=(?:Direct|Indirect) leak of )", err)
        # as coded: the objects lost are those allocated inside loadStates / loadVertices / loadEdges (scratch buffer, states,
        # controls, the vertex/edge object boost created for the record being read) when the archive_exception skips their cleanup
        other = [b for b in blocks[1:] if not re.search(r"StateStorage::loadStates|PlannerDataStorage::loadVertices|PlannerDataStorage::loadEdges", b)]
        if other:
            fails.append((len(impl), {"engine": ENGINE, "what": "leak", "where": "other"}, "memory leaked outside a failing load(): " + other[0][:400]))
        else:
            fails.append((len(impl), {"engine": ENGINE, "what": "leak", "where": "failed-load"},
                          "load() of a truncated/rejected archive leaks its scratch objects (%d leak sites)" % (len(blocks) - 1)))
    elif rc not in (0,) and died_at is None:
        fails.append((len(impl), {"engine": ENGINE, "what": "crash", "op": "exit"}, "harness exit code %s: %s" % (rc, (err or "")[-300:])))
    return fails


def judge_graph(pd, f, orig_dump, loaded):
    """compare a dumped graph with the bookkeeping of the script (isomorphism; identity tried first)"""
    out = []
    V = [] if f.get("V", "-") == "-" else [v.split(",") for v in f["V"].split(";")]
    E = [] if f.get("E", "-") == "-" else [e.split(",") for e in f["E"].split(";")]
    starts = set() if f.get("starts", "-") == "-" else set(map(int, f["starts"].split(",")))
    goals = set() if f.get("goals", "-") == "-" else set(map(int, f["goals"].split(",")))
    if len(V) != len(pd.verts) or f.get("nv") != str(len(pd.verts)):
        return [("graph-roundtrip" if loaded else "planner-data", "%s vertices, expected %d" % (f.get("nv"), len(pd.verts)), {})]
    if len(E) != len(pd.edges) or f.get("ne") != str(len(pd.edges)):
        return [("graph-roundtrip" if loaded else "planner-data", "%s edges, expected %d" % (f.get("ne"), len(pd.edges)), {})]
    n = len(V)
    lab_have = [(int(v[0]), v[3]) for v in V]
    lab_want = [(v["tag"], v["img"]) for v in pd.verts]
    e_have = sorted((int(e[0]), int(e[1]), tuple(e[2:])) for e in E)

    def edges_under(perm):      # perm: want index -> have index
        return sorted((perm[a], perm[b], tuple(r_)) for a, b, r_ in pd.edges)

    perm = None
    ident = list(range(n))
    if lab_have == lab_want and edges_under(ident) == e_have:
        perm = ident
    else:
        # backtracking over label-compatible assignments (graphs are small; labels are nearly unique)
        cand = [[j for j in range(n) if lab_have[j] == lab_want[i]] for i in range(n)]
        if all(cand) and n <= 12:
            import itertools
            for p in itertools.product(*cand):
                if len(set(p)) == n and edges_under(list(p)) == e_have:
                    perm = list(p)
                    break
    if perm is None:
        return [("graph-roundtrip" if loaded else "planner-data", "vertices (tag, state) / edges (endpoints, weight, control) are not those stored: V=%s E=%s" % (f.get("V", "")[:100], f.get("E", "")[:100]), {})]
    want_s = {perm[i] for i, v in enumerate(pd.verts) if v["start"]}
    want_g = {perm[i] for i, v in enumerate(pd.verts) if v["goal"]}
    if not loaded:
        # the in-memory lists must hold exactly the marked vertices (membership queries are judged after reload)
        if starts != want_s or goals != want_g:
            out.append(("planner-data", "start/goal index lists %s/%s, marked %s/%s" % (sorted(starts), sorted(goals), sorted(want_s), sorted(want_g)), {}))
        return out
    flag_s = {i for i, v in enumerate(V) if v[1] == "1"}
    flag_g = {i for i, v in enumerate(V) if v[2] == "1"}
    if flag_s != starts or flag_g != goals:
        # the loaded graph's own lists and queries disagree (loaded lists are built in ascending order, so they must agree)
        out.append(("graph-roundtrip", "loaded graph: isStart/isGoal flags %s/%s differ from its index lists %s/%s" % (sorted(flag_s), sorted(flag_g), sorted(starts), sorted(goals)), {}))
        return out
    extra = (starts - want_s) | (goals - want_g)
    if extra or (want_s - starts):
        out.append(("start-goal-marks", "start marks %s (stored %s), goal marks %s (stored %s)" % (sorted(starts), sorted(want_s), sorted(goals), sorted(want_g)), {"cause": "other"}))
        return out
    lost = want_g - goals
    if lost:
        raw = [] if orig_dump is None or orig_dump.get("goals", "-") == "-" else list(map(int, orig_dump["goals"].split(",")))
        inv = {perm[i]: i for i in range(n)}
        causes = set()
        for g in lost:
            o = inv[g]
            if pd.verts[o]["start"] and g in starts:
                causes.add("start-and-goal-vertex")     # as coded: such a vertex comes back as a start (and only that)
            elif not std_binary_search(raw, o):
                causes.add("unsorted-goal-list")
            else:
                causes.add("other")
        for c in sorted(causes):
            out.append(("goal-marks-lost", "goal marks of vertices %s are lost by store/load (stored goals, in marking order: %s)" % (sorted(lost), raw), {"cause": c}))
    return out


# ------------------------------------------------------------------------------------------ the check
def strip(lines):
    return [l.partition(" # ")[0] for l in lines]


def run_one(ck, hbin, sc, leak_stacks):
    # allocator_may_return_null=1: an absurd allocation (garbage container length in a foreign archive) throws
    # std::bad_alloc as it does without ASan, instead of aborting the process
    env = {"ASAN_OPTIONS": "detect_leaks=1:abort_on_error=0:exitcode=99:allocator_may_return_null=1" + (":fast_unwind_on_malloc=0" if leak_stacks else "")}
    if ck.tier == "quick":
        env.update({"C09_TRUNC_EXHAUSTIVE": "1500", "C09_TRUNC_SAMPLES": "150"})
    for attempt in range(2):
        impl, rc, err = ck.run_bin(hbin, sc.lines, timeout=(60 if ck.tier == "quick" else 300), env=env)
        # a timeout, or no output at all without a sanitizer report (libompl.so being relinked by a concurrent build of
        # the shared cache, loader errors): an infrastructure hiccup, not a verdict -> retry, then give up loudly
        if impl is None or (not impl and rc not in (0, 98, 99) and "Sanitizer" not in (err or "")):
            ck.count("harness-retry")
            continue
        break
    else:
        raise RuntimeError("the harness could not be run (rc=%s): %s" % (rc, (err or "")[-300:]))
    if not leak_stacks and "LeakSanitizer" in (err or ""):
        # the sweep runs with the fast unwinder (6-7x cheaper: every malloc of ~60 000 truncated loads records a stack);
        # a leak report is reproduced once with full stacks, which the oracle needs to say where the block was lost
        ck.count("leak-rerun-with-full-stacks")
        return run_one(ck, hbin, sc, True)
    model, rc2, err2 = ck.run_bin(ck.driver(DRIVER), sc.lines, timeout=120)
    if rc2 != 0:
        raise RuntimeError("model driver failed (rc=%s): %s" % (rc2, (err2 or "")[-500:]))
    return impl or [], rc, err or "", model or []


def judge(ck, hbin, sc, tag, compare=True, leak_stacks=False, res=None):
    impl, rc, err, model = res if res is not None else run_one(ck, hbin, sc, leak_stacks)
    ck.traces_validated += 1
    ck.count("scripts:" + tag)
    ck.count("ops", len(sc.lines) - 1)
    nontrivial = False
    for m, o in zip(sc.meta, impl):
        ck.count("op:" + str(m.get("op")))
        if m.get("op") == "space":
            sp = m["sp"]
            if sp[0] == 'W':
                ck.count("space:top-level-wrapper")
            if any(x[0] == 'W' for x in subtrees_all(sp)[1:]):
                ck.count("space:nested-wrapper")
            if any((x[0] == 'R' and x[2] == 0) or (x[0] == 'C' and not x[2]) for x in subtrees_all(sp)):
                ck.count("space:zero-length-component")
            if depth(sp) >= 3:
                ck.count("space:depth>=3")
        if m.get("op") in ("csd", "csdn", "common"):
            ck.count("csd-relation:" + m["rel"])
            res = kv(o).get("res")
            ck.count("csd-result:" + str(res))
            nontrivial = True
        if m.get("op") in ("ss", "pdstore"):
            x = kv(o.partition(" # ")[2])
            tr = x.get("trunc", "0/0").split("/")
            ck.count("truncation-offsets-tested", int(tr[0]))
            ck.count("archive-bytes", int(x.get("bytes", 0)))
            nontrivial = True
    ck.case(tuple(sc.lines), nontrivial)
    ck.sample({"generator": tag, "script": sc.lines[:8] + (["…(%d more lines)" % (len(sc.lines) - 8)] if len(sc.lines) > 8 else [])})
    fails = oracle(sc, impl, rc, err)
    ok = True
    for idx, rec, msg in fails:
        new = ck.report(rec, script=sc.lines[:idx + 2], expected=model[:idx + 1][-3:], observed=(impl[:idx + 1][-3:] + [err[-1500:]]), engine=ENGINE)
        if new:
            ck.log("property failure (%s): %s" % (tag, msg[:300]))
            ok = False
        else:
            ck.count("known-finding-hit:" + rec.get("what", "?"))
    hard = [f for f in fails if f[1].get("what") in ("crash", "wrong-kind-archive", "reals-lost", "substate-of-wrapper") and len(impl) < len(sc.lines) - 1]
    if compare and not hard:
        d = ck.first_diff(strip(impl), model)
        if d is not None and not [f for f in fails if f[0] == d]:
            ck.disagreements += 1
            if ok:
                ck.report({"engine": ENGINE, "what": "model/implementation disagreement"}, script=sc.lines[:d + 2],
                          expected=model[d:d + 1], observed=strip(impl)[d:d + 1], found_input=False, engine=ENGINE,
                          obligation="correspondence copy: StateSpace/StateStorage/PlannerDataStorage vs OmplModel.Model.Copy (line %d: %s)" % (d, sc.lines[d + 1][:80]))
                ck.log("correspondence disagreement at line %d (%s), oracle passes" % (d, sc.lines[d + 1][:60]))
                ok = False
    return ok


def subtrees_all(sp):
    out = [sp]
    for c in kids(sp):
        out += subtrees_all(c)
    return out


def depth(sp):
    return 1 + max([depth(c) for c in kids(sp)] + [0])


def corpus():
    d = os.path.join(core.VERIF, "corpus", "C09")
    out = []
    if os.path.isdir(d):
        for fn in sorted(os.listdir(d)):
            if fn.endswith(".txt"):
                out.append((fn, [l.rstrip("\n") for l in open(os.path.join(d, fn)) if l.strip()]))
    return out


def script_from_lines(lines):
    """rebuild the oracle's metadata from a plain script (corpus files, replays)"""
    sc = Script()
    if lines and lines[0].startswith("copy wc="):
        sc.lines[0] = lines[0]
    elif lines and "names=spaced" in lines[0]:
        sc.lines[0] += " names=spaced"
    spaces = {}
    cdim = None
    rel = "corpus"
    for line in lines[1:]:
        t = line.split()
        op = t[0]
        if op == "space":
            sp, _ = parse_sp(t, 2)
            spaces[int(t[1])] = sp
            sc.add(line, op=op, sp=sp)
        elif op == "rename":
            spaces[int(t[1])] = rename_tree(spaces[int(t[1])], int(t[2]), int(t[3]))
            sc.add(line, op=op, sp=spaces[int(t[1])], spid=int(t[1]))
        elif op == "evolve":
            if not hasattr(sc, "evo"):
                sc.evo = {}
            lk, dn = sc.evo.get(int(t[1]), (set(), {}))
            spaces[int(t[1])], lk, dn = apply_edits(spaces[int(t[1])], t[2:], lk, dn)
            sc.evo[int(t[1])] = (lk, dn)
            sc.add(line, op=op, sp=spaces[int(t[1])], spid=int(t[1]), dimnames={k: dict(v) for k, v in dn.items()})
        elif op == "state":
            sc.add(line, op=op, sp=spaces[int(t[2])], atoms=t[4:], regular=False)
        elif op == "fromreals":
            sc.add(line, op=op, sid=int(t[1]), reals=list(map(int, t[3:])))
        elif op == "csd":
            sc.add(line, op=op, d=int(t[1]), s=int(t[2]), rel=rel)
        elif op == "csdn":
            sc.add(line, op=op, d=int(t[1]), s=int(t[2]), names=list(map(int, t[4:])), rel=rel)
        elif op == "common":
            sc.add(line, op=op, d=int(t[1]), s=int(t[2]), rel=rel)
        elif op == "csdnu":
            sc.add(line, op=op, d=int(t[1]), s=int(t[2]), names=list(map(int, t[4:])), rel=rel)
        elif op == "sop":
            sc.add(line, op=op, d=int(t[1]), s=int(t[2]), rel=rel)
        elif op == "sreals":
            sc.add(line, op=op, sid=int(t[1]))
        elif op == "sfrom":
            sc.add(line, op=op, sid=int(t[1]), reals=list(map(int, t[3:])))
        elif op == "ssm":
            sc.add(line, op=op, sids=list(map(int, t[4:])), sp=spaces[int(t[1])])
        elif op == "ss":
            sc.add(line, op=op, sids=list(map(int, t[5:])), sp=spaces[int(t[1])], sp2=spaces[int(t[2])])
        elif op == "pdnew":
            cdim = None if t[2] == "-" else int(t[2])
            sc.add(line, op=op, cdim=cdim)
            sc.pdspace = spaces[int(t[1])]
        elif op == "pdstore":
            sc.add(line, op=op, sp=sc.pdspace, sp2=spaces[int(t[1])])
        elif op == "pdctl":
            sc.add(line, op=op, toks=t[3:], cdim=cdim, sp=sc.pdspace, sp2=spaces[int(t[1])])
        else:
            sc.add(line, op=op)
    return sc


def parse_sp(t, i):
    k = t[i]
    nm = int(t[i + 1])
    if k == 'R':
        return ('R', nm, int(t[i + 2])), i + 3
    if k == 'C':
        n = int(t[i + 2])
        i += 3
        cs = []
        for _ in range(n):
            c, i = parse_sp(t, i)
            cs.append(c)
        return ('C', nm, cs), i
    if k == 'W':
        c, i = parse_sp(t, i + 2)
        return ('W', nm, c), i
    return (k, nm), i + 2


def setup(ck):
    ck.build_harness(ENGINE, harness_sources(), link_ompl=True, extra=["-fsanitize=vptr"])


def run(ck):
    ck.rule = ("scripts over random nested spaces (depth <= 3, zero-length components, wrappers): state scripts (serialize/"
               "deserialize/clone/copy/reals/copyStateData (both overloads, and getCommonSubspaces + copy) between related spaces incl. "
               "several shared components of equal dimension), StateStorage scripts and PlannerData scripts (a third without edges) "
               "(geometric and control; half of them histories through the by-state API — addEdge(v1,v2), removeVertex(v), removeEdge(v1,v2), "
               "markStartState, tagState, vertexIndex — with vertices added after removals, clear() and re-use, decoupleFromPlanner() in "
               "mid-history, the caller's state objects changed while the graph points to them, extractStateStorage()) "
               "each ending in store -> load -> corruption sweep; space-evolution scripts (setup, use, addDimension/addSubspace/setName/lock, "
               "setup again, the same battery on the evolved space); a script is non-trivial if it performs a "
               "partial copy or a storage round trip with its truncation sweep; distinct by script text")
    ck.trusted += ["harness/copy.cpp fills and dumps states with its own typed walk over the state tree; it identifies a "
                   "getValueAddressAtIndex pointer by comparing it with the addresses of that walk",
                   "boost::archive byte framing is not modelled: record-level theorems + byte-level truncation enumeration on the real loaders",
                   "the Python specification in checks/c09.py (flat enumeration of atoms, name-based partial copy, graph bookkeeping)"]
    ck.assumptions += ["spaces with the same name have the same structure (copyStateData matches by name only); names are unique within a space",
                       "a WrapperStateSpace around a compound space is only used at top level by the random generators (below a compound it is "
                       "undefined behaviour in the current code: finding F32, probed once per run); copyStateData is not called on spaces "
                       "containing a wrapper of a compound",
                       "equalStates of a copy is demanded only for regular states (finite values, unit quaternions); for arbitrary bit patterns "
                       "(NaN, non-unit quaternions) the byte image must be identical",
                       "'rejected and reported' = PlannerDataStorage::load returns false and logs an OMPL error without an exception escaping; "
                       "StateStorage::load (void) logs an OMPL error and holds only fully-read states, each equal to the stored one"]
    ck.lean_build(LEAN_TARGETS)
    ck.audit(roots=["Drv.Copy"])
    if ck.tier == "thorough" and ck.lean_ok:
        ck.leanchecker(["OmplModel.Props.C09"])
    hbin = ck.build_harness(ENGINE, harness_sources(), link_ompl=True, extra=["-fsanitize=vptr"])
    bad = 0
    # the probe of F32 (wrapper around a compound below a compound): once, alone.  On the current code it is undefined
    # behaviour (the instrumented StateSpace.cpp reports the bad downcast), a known finding, and such spaces stay out of
    # the random stream; when the code under test shows the repaired behaviour the whole run switches to `wc=fixed`:
    # model and generators then include those spaces.
    MODE["wc"] = "ub"
    probe = gen_wc_probe()
    pimpl, prc, perr, pmodel = run_one(ck, hbin, probe, False)
    if not oracle(probe, pimpl, prc, perr):
        MODE["wc"] = "fixed"
        ck.notes.append("the code under test treats a wrapper around a compound as an opaque leaf (F32 repaired): wc=fixed")
        judge(ck, hbin, gen_wc_probe(), "probe-wrapper-of-compound")
    else:
        judge(ck, hbin, probe, "probe-wrapper-of-compound", compare=False, res=(pimpl, prc, perr, pmodel))
    ck.count("mode:wc=" + MODE["wc"])
    # the probe of F105: once, alone (undefined behaviour today; compared with the model when it runs through)
    judge(ck, hbin, gen_wrapper_names_probe(), "probe-names-overload-on-wrapper")
    for name, lines in corpus():
        if not judge(ck, hbin, script_from_lines(lines), "corpus"):
            bad += 1
    quick = ck.tier == "quick"
    jobs = []
    for i in range(90 if quick else 500):
        jobs.append(("state", gen_state_script(ck.rng.fork("state%d" % i))))
    for i in range(40 if quick else 300):
        # setup -> use -> addDimension / addSubspace (any depth) / setName / lock / weights -> setup -> the whole battery again
        jobs.append(("space-evolution", gen_evolve_script(ck.rng.fork("evo%d" % i))))
    for i in range(50 if quick else 300):
        jobs.append(("states-archive", gen_storage_script(ck.rng.fork("ss%d" % i))))
    for i in range(60 if quick else 300):
        jobs.append(("planner-data-archive", gen_pd_script(ck.rng.fork("pd%d" % i), keyed=False)))
    for i in range(70 if quick else 400):
        # histories through the by-state API, clear()/re-use, decoupleFromPlanner(), aliased state objects, extractStateStorage()
        jobs.append(("planner-data-keyed-history", gen_pd_script(ck.rng.fork("pdk%d" % i), quick=quick, keyed=True)))
    for i in range(1 if quick else 6):
        jobs.append(("states-archive-large", gen_storage_script(ck.rng.fork("ssbig%d" % i), big=True, quick=quick)))
        jobs.append(("planner-data-archive-large", gen_pd_script(ck.rng.fork("pdbig%d" % i), big=True, quick=quick)))
    with concurrent.futures.ThreadPoolExecutor(max_workers=min(6, os.cpu_count() or 4)) as ex:
        futs = [ex.submit(run_one, ck, hbin, sc, False) for _, sc in jobs]
        results = [fu.result() for fu in futs]
    for (tag, sc), res in zip(jobs, results):
        if bad >= 4:
            break
        if not judge(ck, hbin, sc, tag, res=res):
            bad += 1
    return 0


def replay(ck, data):
    hbin = ck.build_harness(ENGINE, harness_sources(), link_ompl=True, extra=["-fsanitize=vptr"])
    ck.lean_build([DRIVER])
    lines = data["script"]
    sc = script_from_lines(lines)
    impl, rc, err, model = run_one(ck, hbin, sc, True)
    for i, ln in enumerate(lines[1:]):
        print("%-50s impl: %s" % (ln[:50], impl[i][:300] if i < len(impl) else "<missing>"))
        if i < len(model) and (i >= len(impl) or strip(impl)[i] != model[i]):
            print("%-50s model: %s" % ("", model[i][:300]))
    fails = oracle(sc, impl, rc, err)
    real = []
    for idx, rec, msg in fails:
        k = ck.known_finding(rec)
        if k is not None:
            print("known finding %s at op %d: %s" % (k["id"], idx, msg[:200]))
        else:
            real.append((idx, rec, msg))
            print("PROPERTY FAILS at op %d: %s  %s" % (idx, msg[:400], rec))
    if real:
        return 1
    if ck.first_diff(strip(impl), model) is not None:
        print("model and implementation disagree (no property failure in this script)")
        return 1
    print("no failure on the current tree")
    return 0


MANIFEST = {
    "engine": "copy",
    "category": "proof",
    "design_ref": "DESIGN.md 2.9",
    "text": "Lean 4 theorems, by mutual structural induction over arbitrarily nested space trees (compounds, wrappers, zero-length "
            "components), about an executable model of OMPL's state copy / clone / serialize / deserialize (running offsets as coded), "
            "getValueAddressAtIndex (the compound double loop, literally) and the value-location enumeration, copyToReals/copyFromReals, ScopedState reals()/operator=(reals)/<</>>, "
            "both copyStateData overloads (state transferred = exactly the common subspaces; complete ALL/SOME/NO result code incl. the "
            "empty-compound corner), getCommonSubspaces (std::set ordering and the erase loop as coded: no common subspace is lost), "
            "computeSignature, and of the StateStorage / PlannerDataStorage (geometric and control) archives at record granularity with "
            "PlannerData's start/goal bookkeeping (binary searches as coded): round trips for every graph the operations can build, marker / "
            "state-space AND control-space signature / other-kind rejection (accepted exactly when both signatures match), every proper record prefix is an error (also for edge-less graphs). Tied to libompl by "
            "line-by-line differential runs of the real code against the compiled model, an independent Python specification evaluated on "
            "the implementation's outputs, an exhaustive byte-level truncation sweep of the real loaders, and StateSpace.cpp/StateStorage.cpp "
            "compiled into the harness under ASan/UBSan/vptr/LSan. The open finding F31 and the repaired F29/F32 are kept as kernel-checked witnesses about the old code; the model "
            "follows the repaired code (wrapper = opaque leaf, F32; sorted goal list, F29) and keeps the pre-repair variant only as the "
            "detection path of a probe that turns a reverted repair into a VIOLATION.",
    "covers": "modelled+proved (round 10b): a space object with a history (addDimension/addSubspace at any depth/setName/lock/weights, repeated setup): after "
              "setup the value locations, substate table and reals round trip are those of the current structure (locations_history_independent, "
              "reals_roundtrip_after_history), driven by the `evolve` op with the full battery before and after; "
              "modelled+proved (round 10): PlannerData's state->index map (vertexIndex/addVertex/addStartVertex/addGoalVertex/addEdge(v1,v2)/"
              "removeVertex(v)/removeEdge(v1,v2)/markStartState/markGoalState/tagState/clear/decoupleFromPlanner: KBuilt histories round-trip, the map "
              "stays exact, a decoupled or loaded graph is a copy), GraphStateStorage store/load with its metadata block (every record prefix is "
              "reported and leaves one metadata entry per state; F108 witness about the old code), extractStateStorage (isomorphic for every "
              "enumeration order of the pointer-keyed map); "
              "modelled+proved: serialize/deserialize/serLen/copyState/cloneState, addrAtIndex, valueLocations(+repaired variant), reals round "
              "trip, csd/csdNames state and result code, commonSubspaces, signature shape, storeStates/loadStates, storeGraph/loadGraph, "
              "PlannerData add/mark/remove invariants, binary search; compared only: equalStates of copies, boost byte framing (enumerated), "
              "substate map as printed, control-space images, the decoupled-control bookkeeping of control::PlannerData (who frees which clone: ASan/LSan only), duplicate-name spaces (model vs code only); sampled: the scripts (325 quick / 1825 thorough) and the truncation offsets of "
              "archives larger than the exhaustive cap",
    "note": "Trusted: Lean kernel, the three standard axioms, the hand-written model outside the scripts the correspondence explored, the "
            "harness (own typed state walk; global operator new/delete replaced by malloc/free wrappers so that an absurd allocation throws "
            "std::bad_alloc under ASan), boost::archive framing (enumerated, not modelled). Spaces with equal names are assumed structurally "
            "equal; names are unique within a space. Known finding: F31 only; fixed (kept as regressions, a revert is a VIOLATION; any LeakSanitizer block on a load path is a VIOLATION): F29, F30, F32, F33, F105, F106, F107, F108.",
    "technique": "Lean 4 proof (mutual structural induction over the space tree) + differential correspondence + byte-level fault enumeration",
}
