// C01 harness: runs ONE real geometric (or multilevel) planner from the current tree on one problem and prints
// everything the spec oracle `pathIsReal` (checks/c01.py) needs.  One process per run.
//
// input (one directive per line, doubles as u64 bit patterns, states in the spaces.h grammar):
//    planners                         header
//    space <space grammar>            (spaces.h + dubins/rs of planning.h)
//    boxes <pdim> <k> (<lo>*pdim <hi>*pdim)*k
//    res <frac>                       setStateValidityCheckingResolution
//    start <state>                    repeatable; may be invalid / out of bounds on purpose
//    goal <state>     thr <t>         GoalState (wrapped, see RecGoal) + threshold
//    planner <name>                   a name of geometricPlannerNames(), or QRRT/QRRTStar/QMP/QMPStar (R^3 over R^2)
//    range <r> | interm <0|1> | goalbias <b>      optional planner parameters (only where the planner has them)
//    seed <n>                         RNG::setSeed(n), called before anything else is created
//    budget <evals> <pollcap>         run: stop when #isValid calls >= evals or #ptc polls >= pollcap (no wall clock)
//                                     lockstep: stop at ptc evaluation evals+1 (= after `evals` RRT iterations)
//    mode run|lockstep                lockstep: RRT with NearestNeighborsLinear, recording sampler + goal, tree dump
//    trace <0|1>                      print every recorded validity query
//    watchdog <seconds>               re-arm the watchdog alarm (kills a hung run; never influences an answer)
//    go
//
// output: see the `std::cout <<` lines of report(); every line starts with a keyword.  The harness reports OMPL's own
// answers (satisfiesBounds, equalStates, distanceGoal, isSatisfied) next to the raw numbers; the oracle recomputes what
// it can from the raw numbers and uses OMPL's answers only where stated in checks/c01.py.
#include "common/planning.h"
#include <ompl/base/PlannerData.h>
#include <ompl/base/goals/GoalSampleableRegion.h>
#include <ompl/datastructures/NearestNeighborsLinear.h>
#include <ompl/multilevel/planners/qrrt/QRRT.h>
#include <ompl/multilevel/planners/qrrt/QRRTStar.h>
#include <ompl/multilevel/planners/qmp/QMP.h>
#include <ompl/multilevel/planners/qmp/QMPStar.h>
#include <ompl/geometric/planners/rrt/VFRRT.h>
#include <ompl/geometric/planners/experience/LightningRetrieveRepair.h>
#include <ompl/tools/lightning/LightningDB.h>
#include <ompl/base/DiscreteMotionValidator.h>
#include <ompl/util/RandomNumbers.h>
#include <csignal>
#include <map>
#include <sstream>
#include <iomanip>
#include <unistd.h>

namespace ob = ompl::base;
namespace og = ompl::geometric;
namespace om = ompl::multilevel;

// ------------------------------------------------------------------------------------------------ one-way region
// A direction-SENSITIVE motion validator on a symmetric space: the discrete validator, and in addition a motion that
// moves in -x direction and touches the box [lo, hi] (first two reals) is invalid.  checkMotion(a, b) != checkMotion(b, a):
// a planner must validate every motion in the direction its reported path travels it.
class OneWayValidator : public ob::MotionValidator
{
public:
    OneWayValidator(const ob::SpaceInformationPtr &si, std::vector<double> lo, std::vector<double> hi)
      : ob::MotionValidator(si), inner_(si), lo_(std::move(lo)), hi_(std::move(hi))
    {
    }
    bool blocked(const ob::State *s1, const ob::State *s2) const
    {
        std::vector<double> a, b;
        si_->getStateSpace()->copyToReals(a, s1);
        si_->getStateSpace()->copyToReals(b, s2);
        if (!(b[0] < a[0]))
            return false;
        double t0 = 0.0, t1 = 1.0;  // slab test of the segment a -> b against the closed box
        for (unsigned d = 0; d < 2; ++d)
        {
            const double da = b[d] - a[d];
            if (da == 0.0)
            {
                if (a[d] < lo_[d] || a[d] > hi_[d])
                    return false;
                continue;
            }
            double u0 = (lo_[d] - a[d]) / da, u1 = (hi_[d] - a[d]) / da;
            if (u0 > u1)
                std::swap(u0, u1);
            t0 = std::max(t0, u0);
            t1 = std::min(t1, u1);
            if (t0 > t1)
                return false;
        }
        return true;
    }
    bool checkMotion(const ob::State *s1, const ob::State *s2) const override
    {
        if (blocked(s1, s2))
        {
            invalid_++;
            return false;
        }
        return inner_.checkMotion(s1, s2);
    }
    bool checkMotion(const ob::State *s1, const ob::State *s2, std::pair<ob::State *, double> &lastValid) const override
    {
        if (blocked(s1, s2))
        {
            lastValid.second = 0.0;
            if (lastValid.first != nullptr)
                si_->copyState(lastValid.first, s1);
            invalid_++;
            return false;
        }
        return inner_.checkMotion(s1, s2, lastValid);
    }

private:
    ob::DiscreteMotionValidator inner_;
    std::vector<double> lo_, hi_;
};

// ------------------------------------------------------------------------------------------------ recording
struct DrawLog
{
    std::mutex m;
    std::vector<std::pair<char, std::vector<double>>> draws;  // 'u' sampleUniform, 'n' near, 's' gaussian, 'g' goal
    void add(char k, std::vector<double> r)
    {
        std::lock_guard<std::mutex> g(m);
        draws.emplace_back(k, std::move(r));
    }
};

// wraps the space's default sampler and records what it returns
class RecSampler : public ob::StateSampler
{
public:
    RecSampler(const ob::StateSpace *sp, ob::StateSamplerPtr inner, std::shared_ptr<DrawLog> log)
      : ob::StateSampler(sp), inner_(std::move(inner)), log_(std::move(log))
    {
    }
    void sampleUniform(ob::State *s) override
    {
        inner_->sampleUniform(s);
        rec('u', s);
    }
    void sampleUniformNear(ob::State *s, const ob::State *near, double d) override
    {
        inner_->sampleUniformNear(s, near, d);
        rec('n', s);
    }
    void sampleGaussian(ob::State *s, const ob::State *mean, double sd) override
    {
        inner_->sampleGaussian(s, mean, sd);
        rec('s', s);
    }

private:
    void rec(char k, const ob::State *s)
    {
        std::vector<double> r;
        space_->copyToReals(r, s);
        log_->add(k, r);
    }
    ob::StateSamplerPtr inner_;
    std::shared_ptr<DrawLog> log_;
};

// a GoalSampleableRegion that delegates to a GoalState and records every sampleGoal (lock-step mode)
class RecGoal : public ob::GoalSampleableRegion
{
public:
    RecGoal(const ob::SpaceInformationPtr &si, std::shared_ptr<ob::GoalSampleableRegion> inner, std::shared_ptr<DrawLog> log)
      : ob::GoalSampleableRegion(si), inner_(std::move(inner)), log_(std::move(log))
    {
    }
    double distanceGoal(const ob::State *st) const override
    {
        return inner_->distanceGoal(st);
    }
    void sampleGoal(ob::State *st) const override
    {
        inner_->sampleGoal(st);
        std::vector<double> r;
        si_->getStateSpace()->copyToReals(r, st);
        log_->add('g', r);
    }
    unsigned int maxSampleCount() const override
    {
        return inner_->maxSampleCount();
    }

private:
    std::shared_ptr<ob::GoalSampleableRegion> inner_;
    std::shared_ptr<DrawLog> log_;
};

// RRT with its protected tree readable (derived class, no source hook)
class PeekRRT : public og::RRT
{
public:
    using og::RRT::RRT;
    // insertion order of NearestNeighborsLinear == order of list()
    std::string dumpTree() const
    {
        std::vector<Motion *> ms;
        if (nn_)
            nn_->list(ms);
        std::map<const Motion *, size_t> idx;
        for (size_t i = 0; i < ms.size(); ++i)
            idx[ms[i]] = i;
        std::string s = "tree n=" + std::to_string(ms.size());
        for (auto *m : ms)
        {
            s += " " + (m->parent ? std::to_string(idx.at(m->parent)) : std::string("-1")) + ":";
            std::vector<double> r;
            si_->getStateSpace()->copyToReals(r, m->state);
            for (size_t i = 0; i < r.size(); ++i)
                s += (i ? "," : "") + vp::bits(r[i]);
        }
        return s;
    }
    // index (insertion order) of lastGoalMotion_, -1 if null / not in the tree
    long lastGoalIndex() const
    {
        if (lastGoalMotion_ == nullptr || !nn_)
            return -1;
        std::vector<Motion *> ms;
        nn_->list(ms);
        for (size_t i = 0; i < ms.size(); ++i)
            if (ms[i] == lastGoalMotion_)
                return (long)i;
        return -2;  // dangling: points outside the tree
    }
};

// RRTConnect with its two protected trees readable
class PeekRRTConnect : public og::RRTConnect
{
public:
    using og::RRTConnect::RRTConnect;
    std::string dumpTree(bool start) const
    {
        std::vector<Motion *> ms;
        const auto &t = start ? tStart_ : tGoal_;
        if (t)
            t->list(ms);
        std::map<const Motion *, size_t> idx;
        for (size_t i = 0; i < ms.size(); ++i)
            idx[ms[i]] = i;
        std::string s = std::string(start ? "treeS" : "treeG") + " n=" + std::to_string(ms.size());
        auto bitsOf = [&](const ob::State *st) {
            std::vector<double> r;
            si_->getStateSpace()->copyToReals(r, st);
            std::string o;
            for (size_t i = 0; i < r.size(); ++i)
                o += (i ? "," : "") + vp::bits(r[i]);
            return o;
        };
        for (auto *m : ms)
            s += " " + (m->parent ? std::to_string(idx.at(m->parent)) : std::string("-1")) + ":" + bitsOf(m->state) + ":" +
                 bitsOf(m->root);
        return s;
    }
    bool startTreeFlag() const
    {
        return startTree_;
    }
};

// ---- LazyPRM lock-step: vertex numbering through the nearest-neighbour hooks, the A* result read from the graph's
// predecessor map at the first callback after the search (isValid / motionCost), roadmap dump through a derived class
class PeekLazyPRM;
struct LazyHook
{
    std::map<void *, size_t> idOf;
    size_t next = 0;
    bool astarActive = false;
    bool inHeuristic = false;
    PeekLazyPRM *planner = nullptr;
    std::shared_ptr<DrawLog> log;
    void afterAstar();
};
static LazyHook g_lazy;

template <class T>
class RecNN : public ompl::NearestNeighborsLinear<T>
{
public:
    void add(const T &d) override
    {
        g_lazy.idOf[(void *)d] = g_lazy.next++;
        ompl::NearestNeighborsLinear<T>::add(d);
    }
    bool remove(const T &d) override
    {
        g_lazy.idOf.erase((void *)d);
        return ompl::NearestNeighborsLinear<T>::remove(d);
    }
};

class PeekLazyPRM : public og::LazyPRM
{
public:
    using og::LazyPRM::LazyPRM;
    // after setup(): the linear structure with hooks, its distance function, and a fresh default strategy bound to it
    void installNN()
    {
        nn_ = std::make_shared<RecNN<Vertex>>();
        nn_->setDistanceFunction([this](const Vertex a, const Vertex b) { return distanceFunction(a, b); });
        setDefaultConnectionStrategy();
    }
    static std::string bitsOf(const ob::SpaceInformationPtr &si, const ob::State *st)
    {
        std::vector<double> r;
        si->getStateSpace()->copyToReals(r, st);
        std::string o;
        for (size_t i = 0; i < r.size(); ++i)
            o += (i ? "," : "") + vp::bits(r[i]);
        return o;
    }
    void capturePath()
    {
        auto prev = boost::get(boost::vertex_predecessor, g_);
        for (Vertex g : goalM_)
        {
            if (prev[g] == g)
                continue;
            std::vector<double> ids;
            Vertex pos = g;
            for (;;)
            {
                auto it = g_lazy.idOf.find((void *)pos);
                ids.push_back(it == g_lazy.idOf.end() ? -1.0 : (double)it->second);
                if (prev[pos] == pos || ids.size() > 100000)
                    break;
                pos = prev[pos];
            }
            std::reverse(ids.begin(), ids.end());
            g_lazy.log->add('a', ids);
            return;
        }
        g_lazy.log->add('a', {});
    }
    std::string dump() const
    {
        std::map<unsigned long, size_t> canon;
        std::string vs, es;
        size_t nv = 0, ne = 0;
        foreachVertex([&](Vertex v) {
            unsigned long c = vertexComponentProperty_[v];
            if (!canon.count(c))
            {
                size_t k = canon.size();
                canon[c] = k;
            }
            vs += " " + std::to_string(g_lazy.idOf.at((void *)v)) + ":" + bitsOf(si_, stateProperty_[v]) + ":" +
                  std::to_string(vertexValidityProperty_[v] & VALIDITY_TRUE) + ":" + std::to_string(canon[c]);
            ++nv;
        });
        boost::graph_traits<Graph>::edge_iterator ei, eend;
        for (boost::tie(ei, eend) = boost::edges(g_); ei != eend; ++ei)
        {
            es += " " + std::to_string(g_lazy.idOf.at((void *)boost::source(*ei, g_))) + "-" +
                  std::to_string(g_lazy.idOf.at((void *)boost::target(*ei, g_))) + ":" +
                  std::to_string(edgeValidityProperty_[*ei] & VALIDITY_TRUE) + ":" + vp::bits(weightProperty_[*ei].value());
            ++ne;
        }
        return "roadmap nv=" + std::to_string(nv) + " ne=" + std::to_string(ne) + vs + " |" + es;
    }
    std::string misc() const
    {
        std::string s = "misc iterations=" + std::to_string(iterations_) + " startm=";
        for (size_t i = 0; i < startM_.size(); ++i)
            s += (i ? "," : "") + std::to_string(g_lazy.idOf.at((void *)startM_[i]));
        s += " goalm=";
        for (size_t i = 0; i < goalM_.size(); ++i)
            s += (i ? "," : "") + std::to_string(g_lazy.idOf.at((void *)goalM_[i]));
        return s;
    }
    // connected-component bookkeeping against real connectivity: number of vertex pairs (u, v), u's id class == v's,
    // that are NOT connected in the graph (0 = sound), and pairs connected but with different ids
    std::pair<size_t, size_t> componentAudit() const
    {
        std::vector<Vertex> vs;
        foreachVertex([&](Vertex v) { vs.push_back(v); });
        std::map<Vertex, size_t> real;
        size_t nreal = 0;
        for (Vertex v : vs)
        {
            if (real.count(v))
                continue;
            std::vector<Vertex> q{v};
            real[v] = nreal;
            while (!q.empty())
            {
                Vertex n = q.back();
                q.pop_back();
                boost::graph_traits<Graph>::adjacency_iterator a, last;
                for (boost::tie(a, last) = boost::adjacent_vertices(n, g_); a != last; ++a)
                    if (!real.count(*a))
                    {
                        real[*a] = nreal;
                        q.push_back(*a);
                    }
            }
            ++nreal;
        }
        size_t sameIdNotConn = 0, connDiffId = 0;
        for (size_t i = 0; i < vs.size(); ++i)
            for (size_t j = i + 1; j < vs.size(); ++j)
            {
                bool sameId = vertexComponentProperty_[vs[i]] == vertexComponentProperty_[vs[j]];
                bool conn = real[vs[i]] == real[vs[j]];
                if (sameId && !conn)
                    ++sameIdNotConn;
                if (!sameId && conn)
                    ++connDiffId;
            }
        return {sameIdNotConn, connDiffId};
    }

private:
    template <class F>
    void foreachVertex(F f) const
    {
        boost::graph_traits<Graph>::vertex_iterator vi, vend;
        for (boost::tie(vi, vend) = boost::vertices(g_); vi != vend; ++vi)
            f(*vi);
    }
};

void LazyHook::afterAstar()
{
    if (astarActive && !inHeuristic)
    {
        astarActive = false;
        if (planner)
            planner->capturePath();
    }
}

// path-length objective that tells the hook when an A* search is running / over
class RecObjective : public ob::PathLengthOptimizationObjective
{
public:
    using ob::PathLengthOptimizationObjective::PathLengthOptimizationObjective;
    ob::Cost motionCostHeuristic(const ob::State *s1, const ob::State *s2) const override
    {
        g_lazy.astarActive = true;
        g_lazy.inHeuristic = true;
        ob::Cost c = ob::PathLengthOptimizationObjective::motionCostHeuristic(s1, s2);
        g_lazy.inHeuristic = false;
        return c;
    }
    ob::Cost motionCost(const ob::State *s1, const ob::State *s2) const override
    {
        g_lazy.afterAstar();
        return ob::PathLengthOptimizationObjective::motionCost(s1, s2);
    }
};

// the recording checker, telling the hook about the first validity query after an A* search
class HookedChecker : public vp::RecordingValidityChecker
{
public:
    using vp::RecordingValidityChecker::RecordingValidityChecker;
    // `boundsblind 1`: a validity checker that does collision checking only and leaves the bounds to the library (allowed by
    // the StateValidityChecker documentation when interpolation cannot leave the bounds).  The base class still records the
    // query (with its own bounds-aware verdict); the ANSWER the planner gets ignores the bounds.
    bool boundsBlind = false;
    bool isValid(const ob::State *state) const override
    {
        g_lazy.afterAstar();
        const bool v = vp::RecordingValidityChecker::isValid(state);
        if (boundsBlind && !v)
        {
            std::vector<double> r;
            si_->getStateSpace()->copyToReals(r, state);
            return !env().collides(r);
        }
        return v;
    }
};

// ------------------------------------------------------------------------------------------------ configuration
struct Config
{
    std::vector<std::string> space;
    std::vector<std::string> boxes;
    double res = 0.01;
    std::vector<std::vector<std::string>> starts;
    std::vector<std::string> goal;
    std::vector<std::vector<std::string>> moreGoals;  // further `goal` lines: the goal becomes a GoalStates
    double thr = std::numeric_limits<double>::epsilon();
    std::string planner = "RRT";
    bool hasRange = false, hasBias = false, hasInterm = false;
    double range = 0, bias = 0.05;
    bool interm = false;
    unsigned long seed = 0, budget = 1000, pollcap = 100000;
    std::string mode = "run";
    bool trace = false;
    std::vector<double> oneway;  // lo0 lo1 hi0 hi1 of the one-way box (empty: none)
    bool costThrInf = true;  // LazyPRM lock-step: cost threshold of the objective (inf = LazyPRM's own default)
    std::vector<std::string> calls;  // mode run: calls made on the planner / problem definition BEFORE the judged solve
    bool boundsBlind = false;       // the validity checker does not look at the bounds
    std::vector<std::string> hist;  // mode history: the calls made on ONE RRT object / problem definition
};

static std::string dstr(double d)
{
    std::ostringstream os;
    os << std::setprecision(17) << d;
    return os.str();
}

static std::string commaBits(const std::vector<double> &r)
{
    std::string s;
    for (size_t i = 0; i < r.size(); ++i)
        s += (i ? "," : "") + vp::bits(r[i]);
    return s;
}

static ob::PlannerPtr makePlanner(const std::string &n, const ob::SpaceInformationPtr &si,
                                  std::vector<ob::SpaceInformationPtr> &sis, const ob::ProblemDefinitionPtr &pdef)
{
    if (n == "Lightning")
    {
        // experience database: the straight line start -> goal and two detours through random via points (none of them
        // validated: retrieve-repair has to repair whatever is invalid)
        auto db = std::make_shared<ompl::tools::LightningDB>(si->getStateSpace());
        const ob::State *s0 = pdef->getStartState(0);
        const ob::State *g = pdef->getGoal()->as<ob::GoalState>()->getState();
        auto sampler = si->allocStateSampler();
        for (int k = 0; k < 3; ++k)
        {
            og::PathGeometric path(si);
            path.append(s0);
            if (k > 0)
            {
                ob::State *via = si->allocState();
                sampler->sampleUniform(via);
                path.append(via);
                si->freeState(via);
            }
            path.append(g);
            path.interpolate(8);
            double t = 0;
            db->addPath(path, t);
        }
        return std::make_shared<og::LightningRetrieveRepair>(si, db);
    }
    if (n == "pRRT")
    {
        auto p = std::make_shared<og::pRRT>(si);
        p->setThreadCount(2);
        return p;
    }
    if (n == "pSBL")
    {
        auto p = std::make_shared<og::pSBL>(si);
        p->setThreadCount(2);
        return p;
    }
    if (n == "CForest")
    {
        auto p = std::make_shared<og::CForest>(si);
        p->setNumThreads(2);
        return p;
    }
    if (n == "AnytimePathShortening")
    {
        auto p = std::make_shared<og::AnytimePathShortening>(si);
        p->setDefaultNumPlanners(2);
        return p;
    }
    if (n == "SST")
    {
        // the defaults (selection radius 5, pruning radius 3) exceed the test boxes: one witness, no growth
        auto p = std::make_shared<og::SST>(si);
        p->setSelectionRadius(0.1 * si->getMaximumExtent());
        p->setPruningRadius(0.04 * si->getMaximumExtent());
        return p;
    }
    if (n == "VFRRT")
    {
        // a constant vector field pointing along +x
        const unsigned dim = si->getStateDimension();
        og::VFRRT::VectorField vf = [dim](const ob::State *) {
            Eigen::VectorXd v = Eigen::VectorXd::Zero(dim);
            v[0] = 1.0;
            return v;
        };
        return std::make_shared<og::VFRRT>(si, vf, 0.7, 1.0, 100);
    }
    if (n == "QRRT")
        return std::make_shared<om::QRRT>(sis);
    if (n == "QRRTStar")
        return std::make_shared<om::QRRTStar>(sis);
    if (n == "QMP")
        return std::make_shared<om::QMP>(sis);
    if (n == "QMPStar")
        return std::make_shared<om::QMPStar>(sis);
    return vp::makeGeometricPlanner(n, si);
}

static bool isMultilevel(const std::string &n)
{
    return n == "QRRT" || n == "QRRTStar" || n == "QMP" || n == "QMPStar";
}

static void onAbort(int)
{
    const char msg[] = "aborted\n";
    fflush(stdout);
    if (write(1, msg, sizeof msg - 1) < 0)
    {
    }
    _exit(134);
}

// ------------------------------------------------------------------------------------------------ one run
static int runOnce(const Config &c)
{
    ompl::RNG::setSeed(c.seed);  // before anything that could own an RNG exists
    vp::quietLogs();
    std::signal(SIGABRT, onAbort);

    size_t i = 0;
    ob::StateSpacePtr space = vp::parseSpaceX(c.space, i);
    if (i != c.space.size())
        throw vp::ParseError("space tail");
    vp::Env env;
    i = 0;
    env.parse(c.boxes, i);
    if (i != c.boxes.size())
        throw vp::ParseError("boxes tail");

    const bool lock = c.mode == "lockstep";
    auto draws = std::make_shared<DrawLog>();
    if (lock)
        space->setStateSamplerAllocator([draws](const ob::StateSpace *sp) -> ob::StateSamplerPtr {
            return std::make_shared<RecSampler>(sp, sp->allocDefaultStateSampler(), draws);
        });

    auto si = std::make_shared<ob::SpaceInformation>(space);
    auto hooked = std::make_shared<HookedChecker>(si, env, true);
    hooked->boundsBlind = c.boundsBlind;
    std::shared_ptr<vp::RecordingValidityChecker> vc = hooked;
    si->setStateValidityChecker(vc);
    si->setStateValidityCheckingResolution(c.res);
    if (c.oneway.size() == 4)
        si->setMotionValidator(std::make_shared<OneWayValidator>(
            si, std::vector<double>{c.oneway[0], c.oneway[1]}, std::vector<double>{c.oneway[2], c.oneway[3]}));
    si->setup();

    // multilevel: R^3 problem over its R^2 projection (same boxes restricted to the first two coordinates)
    std::vector<ob::SpaceInformationPtr> sis;
    std::shared_ptr<vp::RecordingValidityChecker> vcBase;
    if (isMultilevel(c.planner))
    {
        auto *rv = dynamic_cast<ob::RealVectorStateSpace *>(space.get());
        auto *se2 = dynamic_cast<ob::SE2StateSpace *>(space.get());
        if ((!(rv && rv->getDimension() == 3) && !se2) || env.pdim > 2)
        {
            std::cout << "not-applicable\n";
            return 0;
        }
        const ob::RealVectorBounds &tb = se2 ? se2->getBounds() : rv->getBounds();
        auto base = std::make_shared<ob::RealVectorStateSpace>(2);
        ob::RealVectorBounds b(2);
        for (unsigned d = 0; d < 2; ++d)
        {
            b.low[d] = tb.low[d];
            b.high[d] = tb.high[d];
        }
        base->setBounds(b);
        auto siB = std::make_shared<ob::SpaceInformation>(base);
        vcBase = std::make_shared<vp::RecordingValidityChecker>(siB, env, c.trace);
        siB->setStateValidityChecker(vcBase);
        siB->setStateValidityCheckingResolution(c.res);
        siB->setup();
        sis.push_back(siB);
        sis.push_back(si);
    }

    auto pdef = std::make_shared<ob::ProblemDefinition>(si);
    std::vector<ob::State *> startStates;
    for (const auto &st : c.starts)
    {
        ob::State *s = si->allocState();
        size_t k = 0;
        vp::parseStateInto(space.get(), s, st, k);
        if (k != st.size())
            throw vp::ParseError("start tail");
        pdef->addStartState(s);
        startStates.push_back(s);
    }
    ob::State *goalState = si->allocState();
    {
        size_t k = 0;
        vp::parseStateInto(space.get(), goalState, c.goal, k);
        if (k != c.goal.size())
            throw vp::ParseError("goal tail");
    }
    std::shared_ptr<ob::GoalSampleableRegion> gs;
    if (c.moreGoals.empty())
    {
        auto g1 = std::make_shared<ob::GoalState>(si);
        g1->setState(goalState);
        gs = g1;
    }
    else
    {
        // several goal states (GoalStates): the first one is `goal`, the others follow in the order given; they may be
        // invalid or out of bounds on purpose
        if (c.planner == "Lightning")
            throw vp::ParseError("Lightning needs a single GoalState");
        auto gN = std::make_shared<ob::GoalStates>(si);
        gN->addState(goalState);
        ob::State *tmpG = si->allocState();
        for (const auto &gt : c.moreGoals)
        {
            size_t k = 0;
            vp::parseStateInto(space.get(), tmpG, gt, k);
            if (k != gt.size())
                throw vp::ParseError("goal tail");
            gN->addState(tmpG);
        }
        si->freeState(tmpG);
        gs = gN;
    }
    gs->setThreshold(c.thr);
    ob::GoalPtr goal = gs;
    if (lock)
    {
        auto rg = std::make_shared<RecGoal>(si, gs, draws);
        rg->setThreshold(c.thr);
        goal = rg;
    }
    pdef->setGoal(goal);
    if (lock && c.planner == "LazyPRM")
    {
        auto obj = std::make_shared<RecObjective>(si);
        if (c.costThrInf)
            obj->setCostThreshold(obj->infiniteCost());
        pdef->setOptimizationObjective(obj);
    }
    else
        pdef->setOptimizationObjective(std::make_shared<ob::PathLengthOptimizationObjective>(si));

    ob::PlannerPtr planner;
    PeekRRT *peek = nullptr;
    PeekRRTConnect *peekC = nullptr;
    PeekLazyPRM *peekL = nullptr;
    if (lock)
    {
        if (c.planner == "RRT")
        {
            auto p = std::make_shared<PeekRRT>(si, c.hasInterm && c.interm);
            peek = p.get();
            planner = p;
        }
        else if (c.planner == "RRTConnect")
        {
            auto p = std::make_shared<PeekRRTConnect>(si, c.hasInterm && c.interm);
            peekC = p.get();
            planner = p;
        }
        else if (c.planner == "LazyPRM")
        {
            auto p = std::make_shared<PeekLazyPRM>(si);
            peekL = p.get();
            g_lazy.planner = peekL;
            g_lazy.log = draws;
            planner = p;
        }
        else
            throw vp::ParseError("lockstep is RRT / RRTConnect / LazyPRM only");
    }
    else
        planner = makePlanner(c.planner, si, sis, pdef);

    auto setParam = [&](const char *name, const std::string &v) {
        if (planner->params().hasParam(name))
            planner->params().setParam(name, v);
    };
    if (peek)
    {
        if (c.hasRange)
            peek->setRange(c.range);
        if (c.hasBias)
            peek->setGoalBias(c.bias);
    }
    else if (peekC)
    {
        if (c.hasRange)
            peekC->setRange(c.range);
    }
    else if (peekL)
    {
        if (c.hasRange)
            peekL->setRange(c.range);
    }
    else
    {
        if (c.hasRange)
            setParam("range", dstr(c.range));
        if (c.hasBias)
            setParam("goal_bias", dstr(c.bias));
        if (c.hasInterm)
            setParam("intermediate_states", c.interm ? "1" : "0");
    }

    // One solve() + the report of what the problem definition holds afterwards.  With `calls ...` the SAME planner object and
    // problem definition go through several of these (resume histories): every call's report is printed between
    // `call <i> begin` / `call <i> end`; the last (unmarked) one is the run's own `budget`.
    std::size_t before = 0;
    ob::PlannerStatus st;
    std::atomic<unsigned long> polls{0};
    bool firstCall = true;
    auto solveAndReport = [&](const unsigned long budgetNow) {
    before = pdef->getSolutionCount();
    std::string err;
    polls = 0;
    st = ob::PlannerStatus();
    const unsigned long baseCalls = vc->calls() + (vcBase ? vcBase->calls() : 0UL);
    try
    {
        if (firstCall)
        {
            planner->setProblemDefinition(pdef);
            if (peek)
                peek->setNearestNeighbors<ompl::NearestNeighborsLinear>();  // clears, installs, calls setup()
            else if (peekC)
                peekC->setNearestNeighbors<ompl::NearestNeighborsLinear>();
            else if (peekL)
            {
                peekL->setup();
                peekL->installNN();
            }
            else
                planner->setup();
        }
        firstCall = false;
        {
            // states sampled before solve() (e.g. ProjectionEvaluator::inferCellSizes during space setup) are not RRT's
            std::lock_guard<std::mutex> g(draws->m);
            draws->draws.clear();
        }
        if (lock)
        {
            auto cnt = std::make_shared<vp::EvalCounter>();
            cnt->fireAt = budgetNow;
            st = planner->solve(vp::evalCountPtc(cnt));
            polls = cnt->evals.load();
        }
        else
        {
            const unsigned long budget = budgetNow, cap = c.pollcap;
            auto *vcp = vc.get();
            auto *vcb = vcBase.get();
            ob::PlannerTerminationCondition ptc([&polls, vcp, vcb, budget, cap, baseCalls] {
                unsigned long p = ++polls;
                return vcp->calls() + (vcb ? vcb->calls() : 0UL) - baseCalls >= budget || p >= cap;
            });
            st = planner->solve(ptc);
        }
    }
    catch (const std::exception &e)
    {
        err = e.what();
        for (char &ch : err)
            if (ch == ' ' || ch == '\n')
                ch = '_';
    }
    const bool threw = !err.empty();
    if (threw)
        std::cout << "exception " << err << "\n";  // the report below still lists whatever the problem definition holds

    // ---- report
    const unsigned long nq = vc->calls();  // before the harness itself asks anything
    auto log = vc->takeLog();
    vc->setRecord(false);

    std::cout << "cfg lvs=" << vp::bits(space->getLongestValidSegmentLength()) << " extent=" << vp::bits(space->getMaximumExtent())
              << " res=" << vp::bits(space->getLongestValidSegmentFraction()) << " nstart=" << c.starts.size()
              << " dim=" << space->getDimension();
    if (planner->params().hasParam("range"))
    {
        double r = 0;
        if (peek)
            r = peek->getRange();
        else if (peekC)
            r = peekC->getRange();
        else if (peekL)
            r = peekL->getRange();
        else
        {
            std::string v;
            planner->params().getParam("range", v);
            try
            {
                r = std::stod(v);
            }
            catch (...)
            {
            }
        }
        std::cout << " range=" << vp::bits(r);
    }
    std::cout << "\n";
    std::cout << "status " << (threw ? "EXCEPTION" : vp::statusName(st)) << " bool=" << (!threw && st ? 1 : 0) << "\n";
    std::cout << "pdef before=" << before << " after=" << pdef->getSolutionCount()
              << " approx=" << (pdef->hasApproximateSolution() ? 1 : 0)
              << " diff=" << vp::bits(pdef->getSolutionDifference()) << " hassol=" << (pdef->hasSolution() ? 1 : 0) << "\n";
    for (size_t k = 0; k < startStates.size(); ++k)
        std::cout << "startinfo " << k << " inb=" << (si->satisfiesBounds(startStates[k]) ? 1 : 0) << " "
                  << vp::showReals(vp::realsOf(space, startStates[k])) << "\n";
    std::cout << "goalinfo thr=" << vp::bits(c.thr) << " " << vp::showReals(vp::realsOf(space, goalState)) << "\n";

    const auto allSols = pdef->getSolutions();  // sorted: the top solution first
    // shown: the top 4, and (resume histories) up to 3 more of the solutions THIS call registered
    std::vector<ob::PlannerSolution> sols;
    for (size_t q = 0; q < allSols.size(); ++q)
        if (q < 4 || (allSols[q].index_ >= (int)before && sols.size() < 7))
            sols.push_back(allSols[q]);
    const size_t maxSols = sols.size();
    for (size_t sidx = 0; sidx < sols.size() && sidx < maxSols; ++sidx)
    {
        const auto &sol = sols[sidx];
        auto *pg = dynamic_cast<og::PathGeometric *>(sol.path_.get());
        if (!pg)
        {
            std::cout << "sol " << sidx << " not-geometric\n";
            continue;
        }
        const auto &sts = pg->getStates();
        int startIdx = -1;
        if (!sts.empty())
            for (size_t k = 0; k < startStates.size(); ++k)
                if (si->equalStates(sts[0], startStates[k]))
                {
                    startIdx = (int)k;
                    break;
                }
        double gdist = -1;
        bool gsat = false;
        if (!sts.empty())
        {
            gdist = gs->distanceGoal(sts.back());
            gsat = goal->isSatisfied(sts.back());
        }
        std::string pname = sol.plannerName_;
        for (char &ch : pname)
            if (ch == ' ')
                ch = '_';
        std::cout << "sol " << sidx << " approx=" << (sol.approximate_ ? 1 : 0) << " diff=" << vp::bits(sol.difference_)
                  << " n=" << sts.size() << " start=" << startIdx << " gdist=" << vp::bits(gdist) << " gsat=" << (gsat ? 1 : 0)
                  << " index=" << sol.index_ << " planner=" << (pname.empty() ? "-" : pname) << "\n";
        for (size_t j = 0; j < sts.size(); ++j)
            std::cout << "st " << sidx << " " << j << " inb=" << (si->satisfiesBounds(sts[j]) ? 1 : 0) << " "
                      << vp::showReals(vp::realsOf(space, sts[j])) << "\n";
        ob::State *tmp = si->allocState();
        for (size_t j = 0; j + 1 < sts.size(); ++j)
        {
            const unsigned n = space->validSegmentCount(sts[j], sts[j + 1]);
            const double d = si->distance(sts[j], sts[j + 1]);
            // interior points of the n-subdivision (what checkMotion(a, b) asks, besides b itself)
            std::cout << "edge " << sidx << " " << j << " n=" << n << " d=" << vp::bits(d);
            for (unsigned q = 1; q < n; ++q)
            {
                space->interpolate(sts[j], sts[j + 1], (double)q / (double)n, tmp);
                std::cout << " " << commaBits(vp::realsOf(space, tmp));
            }
            std::cout << "\n";
            // a four times denser subdivision (interior points)
            const unsigned m = 4 * std::max(n, 1u);
            std::cout << "dense " << sidx << " " << j << " m=" << m;
            for (unsigned q = 1; q < m; ++q)
            {
                space->interpolate(sts[j], sts[j + 1], (double)q / (double)m, tmp);
                std::cout << " " << commaBits(vp::realsOf(space, tmp));
            }
            std::cout << "\n";
        }
        si->freeState(tmp);
    }
    // ---- discipline of the top solution (DESIGN 1.4): for every reported edge, the parameters of the queried-valid states
    // that lie on the edge's curve (attributed by the metric: d(a,x) + d(x,b) == d(a,b), so checks made under another
    // parent segment or in the other direction count) and the longest stretch between consecutive ones
    if (!sols.empty())
        if (auto *pg = dynamic_cast<og::PathGeometric *>(sols[0].path_.get()))
        {
            const auto &sts = pg->getStates();
            std::vector<ob::State *> qs;
            for (auto &q : log)
                if (q.valid)
                {
                    ob::State *x = si->allocState();
                    space->copyFromReals(x, q.reals);
                    qs.push_back(x);
                }
            const double nedges = sts.size() > 1 ? (double)(sts.size() - 1) : 0.0;
            if (nedges * (double)qs.size() > 4e7)
                std::cout << "disc skipped\n";
            else
                for (size_t j = 0; j + 1 < sts.size(); ++j)
                {
                    const double d = si->distance(sts[j], sts[j + 1]);
                    const double tol = 1e-12 * std::max(1.0, d);
                    std::vector<double> ts;
                    for (auto *x : qs)
                    {
                        const double da = si->distance(sts[j], x);
                        if (da > d + tol)
                            continue;
                        const double db = si->distance(x, sts[j + 1]);
                        if (da + db - d <= tol)
                            ts.push_back(d > 0 ? da / d : 0.0);
                    }
                    std::sort(ts.begin(), ts.end());
                    double prev = 0.0, g0 = 0.0, g1 = 0.0, best = -1.0;
                    for (size_t k = 0; k <= ts.size(); ++k)
                    {
                        const double cur = k < ts.size() ? ts[k] : 1.0;
                        if (cur - prev > best)
                        {
                            best = cur - prev;
                            g0 = prev;
                            g1 = cur;
                        }
                        prev = cur;
                    }
                    std::cout << "disc 0 " << j << " k=" << ts.size() << " gap=" << vp::bits(best * d) << " t0=" << vp::bits(g0)
                              << " t1=" << vp::bits(g1) << " d=" << vp::bits(d) << "\n";
                }
            for (auto *x : qs)
                si->freeState(x);
        }
    std::cout << "sols total=" << allSols.size() << " shown=" << std::min(sols.size(), maxSols) << "\n";

    unsigned long nvalid = 0;
    for (auto &q : log)
        nvalid += q.valid ? 1 : 0;
    std::cout << "queries n=" << nq << " polls=" << polls.load() << " recorded=" << log.size() << " valid=" << nvalid << "\n";
    if (c.trace)
    {
        for (auto &q : log)
            std::cout << "q " << (q.valid ? 1 : 0) << " " << vp::showReals(q.reals) << "\n";
        if (vcBase)
            for (auto &q : vcBase->takeLog())
                std::cout << "qb " << (q.valid ? 1 : 0) << " " << vp::showReals(q.reals) << "\n";
    }

    if (isMultilevel(c.planner))
        std::cout << "pdata skipped\n";  // QRRTStarImpl::getPlannerData dereferences a null pointer after short runs (notes/C01.md O4)
    else
    try
    {
        ob::PlannerData pd(si);
        planner->getPlannerData(pd);
        std::cout << "pdata v=" << pd.numVertices() << " e=" << pd.numEdges() << " starts=" << pd.numStartVertices()
                  << " goals=" << pd.numGoalVertices() << "\n";
    }
    catch (const std::exception &e)
    {
        std::cout << "pdata exception\n";
    }
    vc->setRecord(true);
    };  // solveAndReport

    for (size_t k = 0; k < c.calls.size(); ++k)
    {
        const std::string &tok = c.calls[k];
        const size_t colon = tok.find(':');
        const std::string cop = tok.substr(0, colon);
        const std::string arg = colon == std::string::npos ? "" : tok.substr(colon + 1);
        if (lock)
            throw vp::ParseError("calls is for mode run");
        if (cop == "solve" && vp::parseNat(arg))
        {
            std::cout << "call " << k << " begin\n";
            solveAndReport(*vp::parseNat(arg));
            std::cout << "call " << k << " end\n";
        }
        else if (cop == "clear")
            planner->clear();
        else if (cop == "clearsol")
            pdef->clearSolutionPaths();
        else if (cop == "opendoor" && !env.boxes.empty())
        {
            // the LAST box (the generator's door plug) disappears: states inside it become valid
            env.boxes.pop_back();
            vc->setEnv(env);
            if (vcBase)
                vcBase->setEnv(env);
        }
        else
            throw vp::ParseError("calls op");
    }
    solveAndReport(c.budget);

    if (lock)
    {
        {
            std::lock_guard<std::mutex> g(draws->m);
            std::cout << "draws n=" << draws->draws.size() << "\n";
            for (auto &d : draws->draws)
                if (d.first == 'a')
                {
                    std::cout << "astar " << d.second.size();
                    for (double x : d.second)
                        std::cout << " " << (long long)x;
                    std::cout << "\n";
                }
                else
                    std::cout << "draw " << d.first << " " << vp::showReals(d.second) << "\n";
        }
        // canonical lines, textually compared with drv_rrt's
        auto top = pdef->getSolutionPath();
        std::cout << "L status=" << vp::statusName(st) << " bool=" << (st ? 1 : 0) << " added="
                  << (pdef->getSolutionCount() > before ? 1 : 0) << "\n";
        if (peek)
            std::cout << "L " << peek->dumpTree() << "\n";
        else if (peekL)
        {
            std::cout << "L " << peekL->dump() << "\n";
            std::cout << "L " << peekL->misc() << " ngoal=" << planner->getPlannerInputStates().getSampledGoalsCount() << "\n";
            auto audit = peekL->componentAudit();
            std::cout << "L audit sameid_notconnected=" << audit.first << " connected_diffid=" << audit.second << "\n";
        }
        else
        {
            std::cout << "L " << peekC->dumpTree(true) << "\n";
            std::cout << "L " << peekC->dumpTree(false) << "\n";
            std::cout << "L misc ngoal=" << planner->getPlannerInputStates().getSampledGoalsCount()
                      << " starttree=" << (peekC->startTreeFlag() ? 1 : 0) << "\n";
        }
        if (top)
        {
            auto *pg = dynamic_cast<og::PathGeometric *>(top.get());
            std::cout << "L path n=" << pg->getStateCount();
            for (auto *s : pg->getStates())
                std::cout << " " << commaBits(vp::realsOf(space, s));
            std::cout << "\n";
        }
        else
            std::cout << "L path none\n";
        std::cout << "L pdef count=" << pdef->getSolutionCount() << " approx=" << (pdef->hasApproximateSolution() ? 1 : 0)
                  << " diff=" << vp::bits(pdef->getSolutionDifference()) << "\n";
        std::cout << "L nstart=" << planner->getPlannerInputStates().haveMoreStartStates() << "\n";
    }
    std::cout << "done\n";
    for (auto *s : startStates)
        si->freeState(s);
    si->freeState(goalState);
    return 0;
}

// ------------------------------------------------------------------------------------------------ histories (RRT)
// mode history: ONE PeekRRT object and ONE problem definition, driven through the calls of `hist`:
//    solve:<k>  clear  addstart:<b,b,..>  range:<b>  thr:<b>  interm:<0|1>  bias:<b>  setup  clearsol
// After every call a line `H <i> op <token>`; after a solve additionally the recorded draws, status, the whole tree, the path
// this call registered, the problem definition (count, flag, difference, every solution's flag:difference in insertion
// order) and the counters.  `drv_rrt` replays the same history through Model/RRTHistory.lean.
static int runHistory(const Config &c)
{
    ompl::RNG::setSeed(c.seed);
    vp::quietLogs();
    std::signal(SIGABRT, onAbort);
    const bool isC = c.planner == "RRTConnect";
    if (c.planner != "RRT" && !isC)
        throw vp::ParseError("history is RRT / RRTConnect only");
    size_t i = 0;
    ob::StateSpacePtr space = vp::parseSpaceX(c.space, i);
    if (i != c.space.size())
        throw vp::ParseError("space tail");
    vp::Env env;
    i = 0;
    env.parse(c.boxes, i);
    if (i != c.boxes.size())
        throw vp::ParseError("boxes tail");
    auto draws = std::make_shared<DrawLog>();
    space->setStateSamplerAllocator([draws](const ob::StateSpace *sp) -> ob::StateSamplerPtr {
        return std::make_shared<RecSampler>(sp, sp->allocDefaultStateSampler(), draws);
    });
    auto si = std::make_shared<ob::SpaceInformation>(space);
    auto vc = std::make_shared<vp::RecordingValidityChecker>(si, env, false);
    si->setStateValidityChecker(vc);
    si->setStateValidityCheckingResolution(c.res);
    si->setup();
    auto pdef = std::make_shared<ob::ProblemDefinition>(si);
    std::vector<ob::State *> owned;
    auto parseState = [&](const std::vector<std::string> &toks) {
        ob::State *s = si->allocState();
        owned.push_back(s);
        size_t k = 0;
        vp::parseStateInto(space.get(), s, toks, k);
        if (k != toks.size())
            throw vp::ParseError("state tail");
        return s;
    };
    for (const auto &st : c.starts)
        pdef->addStartState(parseState(st));
    ob::State *goalState = parseState(c.goal);
    std::shared_ptr<ob::GoalSampleableRegion> gs;
    if (c.moreGoals.empty())
    {
        auto g1 = std::make_shared<ob::GoalState>(si);
        g1->setState(goalState);
        gs = g1;
    }
    else
    {
        auto gN = std::make_shared<ob::GoalStates>(si);
        gN->addState(goalState);
        for (const auto &gt : c.moreGoals)
            gN->addState(parseState(gt));
        gs = gN;
    }
    gs->setThreshold(c.thr);
    auto rg = std::make_shared<RecGoal>(si, gs, draws);
    rg->setThreshold(c.thr);
    pdef->setGoal(rg);
    pdef->setOptimizationObjective(std::make_shared<ob::PathLengthOptimizationObjective>(si));
    std::shared_ptr<PeekRRT> planner;
    std::shared_ptr<PeekRRTConnect> plannerC;
    ob::PlannerPtr base;
    if (isC)
    {
        plannerC = std::make_shared<PeekRRTConnect>(si, c.hasInterm && c.interm);
        base = plannerC;
        if (c.hasRange)
            plannerC->setRange(c.range);
        plannerC->setProblemDefinition(pdef);
        plannerC->setNearestNeighbors<ompl::NearestNeighborsLinear>();
    }
    else
    {
        planner = std::make_shared<PeekRRT>(si, c.hasInterm && c.interm);
        base = planner;
        if (c.hasRange)
            planner->setRange(c.range);
        if (c.hasBias)
            planner->setGoalBias(c.bias);
        planner->setProblemDefinition(pdef);
        planner->setNearestNeighbors<ompl::NearestNeighborsLinear>();  // clears, installs, calls setup()
    }
    auto rangeNow = [&]() { return isC ? plannerC->getRange() : planner->getRange(); };
    std::cout << "cfg lvs=" << vp::bits(space->getLongestValidSegmentLength()) << " extent=" << vp::bits(space->getMaximumExtent())
              << " res=" << vp::bits(space->getLongestValidSegmentFraction()) << " dim=" << space->getDimension()
              << " range=" << vp::bits(rangeNow()) << "\n";
    auto splitComma = [](const std::string &v) {
        std::vector<std::string> out;
        std::string cur;
        for (char ch : v)
            if (ch == ',')
            {
                out.push_back(cur);
                cur.clear();
            }
            else
                cur += ch;
        out.push_back(cur);
        return out;
    };
    for (size_t k = 0; k < c.hist.size(); ++k)
    {
        const std::string &tok = c.hist[k];
        const size_t colon = tok.find(':');
        const std::string op = tok.substr(0, colon);
        const std::string arg = colon == std::string::npos ? "" : tok.substr(colon + 1);
        const std::string H = "H " + std::to_string(k) + " ";
        std::cout << H << "op " << tok << "\n";
        auto bitsArg = [&]() {
            auto v = vp::parseBits(arg);
            if (!v)
                throw vp::ParseError("hist argument");
            return *v;
        };
        if (op == "solve")
        {
            auto n = vp::parseNat(arg);
            if (!n)
                throw vp::ParseError("hist solve");
            {
                std::lock_guard<std::mutex> g(draws->m);
                draws->draws.clear();
            }
            const std::size_t before = pdef->getSolutionCount();
            auto cnt = std::make_shared<vp::EvalCounter>();
            cnt->fireAt = *n;
            ob::PlannerStatus st;
            std::string err;
            try
            {
                st = base->solve(vp::evalCountPtc(cnt));
            }
            catch (const std::exception &e)
            {
                err = e.what();
                for (char &ch : err)
                    if (ch == ' ' || ch == '\n')
                        ch = '_';
                std::cout << H << "exception " << err << "\n";
            }
            {
                std::lock_guard<std::mutex> g(draws->m);
                std::cout << H << "draws n=" << draws->draws.size() << "\n";
                for (auto &d : draws->draws)
                    std::cout << H << "draw " << d.first << " " << vp::showReals(d.second) << "\n";
            }
            const std::size_t after = pdef->getSolutionCount();
            std::cout << H << "status=" << (err.empty() ? vp::statusName(st) : std::string("EXCEPTION")) << " bool="
                      << (err.empty() && st ? 1 : 0) << " added=" << (after > before ? 1 : 0) << "\n";
            if (isC)
            {
                std::cout << H << plannerC->dumpTree(true) << "\n";
                std::cout << H << plannerC->dumpTree(false) << "\n";
            }
            else
                std::cout << H << planner->dumpTree() << "\n";
            auto sols = pdef->getSolutions();
            std::sort(sols.begin(), sols.end(),
                      [](const ob::PlannerSolution &a, const ob::PlannerSolution &b) { return a.index_ < b.index_; });
            bool shown = false;
            if (after > before)
                for (const auto &sol : sols)
                    if (sol.index_ == (int)before)
                        if (auto *pg = dynamic_cast<og::PathGeometric *>(sol.path_.get()))
                        {
                            std::cout << H << "path n=" << pg->getStateCount();
                            for (auto *s : pg->getStates())
                                std::cout << " " << commaBits(vp::realsOf(space, s));
                            std::cout << "\n";
                            shown = true;
                        }
            if (!shown)
                std::cout << H << "path none\n";
            std::cout << H << "pdef count=" << after << " approx=" << (pdef->hasApproximateSolution() ? 1 : 0)
                      << " diff=" << vp::bits(pdef->getSolutionDifference()) << " before=" << before << " sols=";
            for (size_t q = 0; q < sols.size(); ++q)
                std::cout << (q ? "," : "") << (sols[q].approximate_ ? 1 : 0) << ":" << vp::bits(sols[q].difference_);
            if (sols.empty())
                std::cout << "-";
            std::cout << "\n";
            if (isC)
                std::cout << H << "misc nstart=" << base->getPlannerInputStates().getSeenStartStatesCount()
                          << " ngoal=" << base->getPlannerInputStates().getSampledGoalsCount()
                          << " starttree=" << (plannerC->startTreeFlag() ? 1 : 0) << " range=" << vp::bits(rangeNow()) << "\n";
            else
                std::cout << H << "misc nstart=" << planner->getPlannerInputStates().getSeenStartStatesCount()
                          << " lgm=" << planner->lastGoalIndex() << " range=" << vp::bits(planner->getRange())
                          << " interm=" << (planner->getIntermediateStates() ? 1 : 0) << " thr=" << vp::bits(rg->getThreshold()) << "\n";
        }
        else if (op == "clear")
            base->clear();
        else if (op == "addstart")
            pdef->addStartState(parseState(splitComma(arg)));
        else if (op == "range")
        {
            if (isC)
                plannerC->setRange(bitsArg());
            else
                planner->setRange(bitsArg());
        }
        else if (op == "thr")
        {
            gs->setThreshold(bitsArg());
            rg->setThreshold(bitsArg());
        }
        else if (op == "interm" && (arg == "0" || arg == "1") && !isC)
            planner->setIntermediateStates(arg == "1");
        else if (op == "bias" && !isC)
            planner->setGoalBias(bitsArg());
        else if (op == "setup" && !isC)
            planner->setup();
        else if (op == "clearsol")
            pdef->clearSolutionPaths();
        else
            throw vp::ParseError("hist op");
    }
    std::cout << "done\n";
    for (auto *s : owned)
        si->freeState(s);
    return 0;
}

int main()
{
    alarm(240);  // watchdog only: kills the process, never influences an answer (`watchdog <s>` re-arms it)
    std::string line;
    if (!vp::readLine(line))
        return 2;
    auto hdr = vp::tokens(line);
    if (hdr.size() != 1 || hdr[0] != "planners")
    {
        std::cout << "bad-header\n";
        return 2;
    }
    Config c;
    bool go = false;
    while (vp::readLine(line))
    {
        auto t = vp::tokens(line);
        if (t.empty())
            continue;
        const std::string op = t[0];
        std::vector<std::string> rest(t.begin() + 1, t.end());
        auto f1 = [&]() -> std::optional<double> { return rest.size() == 1 ? vp::parseBits(rest[0]) : std::nullopt; };
        bool ok = true;
        if (op == "space")
            c.space = rest;
        else if (op == "boxes")
            c.boxes = t;
        else if (op == "res" && f1())
            c.res = *f1();
        else if (op == "start")
            c.starts.push_back(rest);
        else if (op == "goal")
        {
            if (c.goal.empty())
                c.goal = rest;
            else
                c.moreGoals.push_back(rest);
        }
        else if (op == "thr" && f1())
            c.thr = *f1();
        else if (op == "planner" && rest.size() == 1)
            c.planner = rest[0];
        else if (op == "range" && f1())
        {
            c.hasRange = true;
            c.range = *f1();
        }
        else if (op == "goalbias" && f1())
        {
            c.hasBias = true;
            c.bias = *f1();
        }
        else if (op == "interm" && rest.size() == 1 && (rest[0] == "0" || rest[0] == "1"))
        {
            c.hasInterm = true;
            c.interm = rest[0] == "1";
        }
        else if (op == "seed" && rest.size() == 1 && vp::parseNat(rest[0]))
            c.seed = *vp::parseNat(rest[0]);
        else if (op == "budget" && rest.size() == 2 && vp::parseNat(rest[0]) && vp::parseNat(rest[1]))
        {
            c.budget = *vp::parseNat(rest[0]);
            c.pollcap = *vp::parseNat(rest[1]);
        }
        else if (op == "mode" && rest.size() == 1 && (rest[0] == "run" || rest[0] == "lockstep" || rest[0] == "history"))
            c.mode = rest[0];
        else if (op == "hist")
            c.hist = rest;
        else if (op == "calls")
            c.calls = rest;
        else if (op == "boundsblind" && rest.size() == 1 && (rest[0] == "0" || rest[0] == "1"))
            c.boundsBlind = rest[0] == "1";
        else if (op == "trace" && rest.size() == 1 && (rest[0] == "0" || rest[0] == "1"))
            c.trace = rest[0] == "1";
        else if (op == "oneway" && rest.size() == 4)
        {
            for (auto &x : rest)
            {
                auto v = vp::parseBits(x);
                if (!v)
                    ok = false;
                else
                    c.oneway.push_back(*v);
            }
        }
        else if (op == "costthr" && rest.size() == 1 && (rest[0] == "inf" || rest[0] == "zero"))
            c.costThrInf = rest[0] == "inf";
        else if (op == "watchdog" && rest.size() == 1 && vp::parseNat(rest[0]))
            alarm((unsigned)*vp::parseNat(rest[0]));
        else if (op == "go" && rest.empty())
        {
            go = true;
            break;
        }
        else
            ok = false;
        if (!ok)
        {
            std::cout << "bad-op " << op << "\n";
            return 2;
        }
    }
    if (!go || c.space.empty() || c.boxes.empty() || c.starts.empty() || c.goal.empty())
    {
        std::cout << "bad-op incomplete\n";
        return 2;
    }
    try
    {
        if (c.mode == "history")
            return runHistory(c);
        return runOnce(c);
    }
    catch (const vp::ParseError &e)
    {
        std::cout << "bad-op " << e.what() << "\n";
        return 2;
    }
    catch (const std::exception &e)
    {
        std::string err = e.what();
        for (char &ch : err)
            if (ch == ' ' || ch == '\n')
                ch = '_';
        std::cout << "exception-setup " << err << "\n";
        std::cout << "done\n";
        return 0;
    }
}
