// C07 harness: drives the real StateSpace::interpolate of libompl (built from the current tree)
// through the line protocol (header `spaceinterp`).
//
//   space <space>                 -> ok      (grammar of common/spaces.h plus, handled here: `spacetime <vmax> <tw> u|b <lo> <hi>
//                                    <space>` = SpaceTimeStateSpace, `empty` = EmptyStateSpace, and at top level only
//                                    `cfw <space>` = CForestStateSpaceWrapper around the space)
//   mutate <space>                -> ok      HISTORY: setup() is called on the current space object, then its bounds and
//                                    weights are changed IN PLACE (setBounds / setSubspaceWeight) to those of <space>
//                                    (same structure); later interpolates use the mutated object
//   sanity                        -> sanity ok | sanity throws <msg>     the library's own StateSpace::sanityChecks()
//   interp <from> <to> <t>        -> r <state> | a1 <state> | a2 <state> | sb b | ef b | et b | sbf b | sbt b
//                                    | dfr <d> | dft <d> | drt <d> | ext <d> | enf b
//        r  = interpolate(from, to, t, out)   with a distinct output state
//        a1 = interpolate(f, to, t, f)        output aliases `from` (f is a copy of from)
//        a2 = interpolate(from, g, t, g)      output aliases `to`   (g is a copy of to)
//        sb = satisfiesBounds(r); ef/et = equalStates(r, from/to); sbf/sbt = satisfiesBounds(from/to)
//        dfr/dft/drt = distance(from, r) / (from, to) / (r, to); ext = getMaximumExtent()
//        per UNIT component (wrappers and plain compounds incl. SE2/SE3 are descended into; R^n, SO2, SO3,
//        time, discrete, torus, Mobius, Klein, sphere are units), in state order, judged with the component's
//        OWN functions (a compound's weighted distance cannot see a zero-weight component):
//        csb = satisfiesBounds(r_c) | cef/cet = equalStates(r_c, from_c/to_c) | cdfr/cdrt = distance(from_c, r_c)
//        / (r_c, to_c) | cext = getMaximumExtent() of the component
//        Before the call with a distinct output every leaf of `out` is filled with an out-of-bounds sentinel
//        (7.77e77 / 77 / (7,7,7,7) / upper+1000, or lower-1000 next to INT_MAX), so a component that interpolate does not write is visible.
//   interp2 <from> <to> <s> <u>   -> s3 <state> | r <state> | direct <state> | ra <state> | d <d> | sbs3 b | ext <d>
//        s3 = interpolate(from,to,s); r = interpolate(s3,to,u); direct = interpolate(from,to,s+(1-s)*u);
//        ra = interpolate(s3',to,u,s3') aliased as StateSpace::sanityChecks does; d = distance(r, direct);
//        cd = per unit component distance(r_c, direct_c), cext as above (s3, r, direct start as sentinels)
//        (distances of out-of-bounds results are taken after enforceBounds on a copy, flagged `enf 1`)
//   CAR-LIKE SPACES (round 10; also inside `cmp` / `wrap` / `cfw`): `dubins <rho> <sym 0|1> <lo>*2 <hi>*2`, `rs <rho> <lo>*2 <hi>*2`,
//        `owen|vana|vanaowen <rho> <maxPitch> <lo> <hi>` (cube bounds); states x y yaw | x y z yaw | x y z pitch yaw.  They are UNIT
//        components; their own distance is not a closeness measure (a pose a hair behind is a full circle away), so for them every
//        distance field is `-` and the oracle measures closeness on the printed values.  `cnp` = per unit 1 when the 3D space's getPath
//        fails for one of the pairs the line interpolates between (interpolate then stays at `from`: C14's F126 / F145).
//   walk <legs> (<from> <to> <k> <t>*k)*legs      top-level car-like space only: the CACHED overloads, one cache object for the whole line
//        Dubins / Reeds-Shepp: interpolate(from, to, t, firstTime, path, state), `firstTime = true` at the start of every leg, the path
//        object is NOT re-initialised (it holds the previous leg's word); Owen / Vana / VanaOwen: interpolate(from, to, t, path, state)
//        with `path = *getPath(from, to)` assigned into the same PathType object at the start of every leg.
//        -> per leg j: c<j> <state> / <state> … (cached overload, distinct sentinel-filled output) | m<j> … (the 4-argument interpolate on
//        fresh states: the reference) | cf<j> … (cached overload, second cache, output == `from` argument: a fresh copy of from every call)
//        | ct<j> … (third cache, output == `to` argument) | sb<j> b… (satisfiesBounds of c) | np<j> b
// `oob-input` when from or to does not satisfy the bounds (outside the property's quantifier).
// States are printed as their leaf values (doubles as u64 bit patterns).  No hooks in /repo.
#include "common/spaces.h"
#include <ompl/util/Exception.h>
#include <ompl/util/RandomNumbers.h>
#include <sanitizer/lsan_interface.h>
#include <optional>
#include <ompl/base/spaces/SpaceTimeStateSpace.h>
#include <ompl/base/spaces/EmptyStateSpace.h>
#include <ompl/geometric/planners/cforest/CForestStateSpaceWrapper.h>
#include <ompl/base/spaces/DubinsStateSpace.h>
#include <ompl/base/spaces/ReedsSheppStateSpace.h>
#include <ompl/base/spaces/OwenStateSpace.h>
#include <ompl/base/spaces/VanaStateSpace.h>
#include <ompl/base/spaces/VanaOwenStateSpace.h>

namespace ob = ompl::base;

static std::string b01(bool b)
{
    return b ? "1" : "0";
}

// SO(2)/SO(3) distance BOOST_ASSERTs satisfiesBounds of both arguments, so distance is never called on
// a state that is out of bounds: such a state (an out-of-bounds interpolation result, reported through
// `sb 0`) is first copied and passed through the space's own enforceBounds (+pi -> -pi, a coordinate a
// few ulps outside a box -> the bound); `enf 1` on the line says that this happened.
static bool containsCar(const ob::StateSpace *sp);
static bool enforced = false;
static std::string dist(const ob::StateSpace *sp, const ob::State *a, const ob::State *b)
{
    if (containsCar(sp))
        return "-";  // a car-like distance is not a closeness measure (and the 3D ones run a root search per call)
    ob::State *ca = nullptr, *cb = nullptr;
    if (!sp->satisfiesBounds(a))
    {
        ca = sp->cloneState(a);
        sp->enforceBounds(ca);
        a = ca;
        enforced = true;
    }
    if (!sp->satisfiesBounds(b))
    {
        cb = sp->cloneState(b);
        sp->enforceBounds(cb);
        b = cb;
        enforced = true;
    }
    std::string out = (sp->satisfiesBounds(a) && sp->satisfiesBounds(b)) ? vp::bits(sp->distance(a, b)) : "-";
    if (ca)
        sp->freeState(ca);
    if (cb)
        sp->freeState(cb);
    return out;
}
static std::string dist(const ob::StateSpacePtr &sp, const ob::State *a, const ob::State *b)
{
    return dist(sp.get(), a, b);
}

static bool isSpecial(const ob::StateSpace *sp)
{
    return dynamic_cast<const ob::TorusStateSpace *>(sp) || dynamic_cast<const ob::MobiusStateSpace *>(sp) ||
           dynamic_cast<const ob::KleinBottleStateSpace *>(sp) || dynamic_cast<const ob::SphereStateSpace *>(sp);
}

static bool isCar(const ob::StateSpace *sp)
{
    return dynamic_cast<const ob::DubinsStateSpace *>(sp) || dynamic_cast<const ob::ReedsSheppStateSpace *>(sp) ||
           dynamic_cast<const ob::OwenStateSpace *>(sp) || dynamic_cast<const ob::VanaStateSpace *>(sp) ||
           dynamic_cast<const ob::VanaOwenStateSpace *>(sp);
}
static bool containsCar(const ob::StateSpace *sp)
{
    if (isCar(sp))
        return true;
    if (auto w = dynamic_cast<const ob::WrapperStateSpace *>(sp))
        return containsCar(w->getSpace().get());
    if (auto c = dynamic_cast<const ob::CompoundStateSpace *>(sp))
        for (unsigned j = 0; j < c->getSubspaceCount(); ++j)
            if (containsCar(c->getSubspace(j).get()))
                return true;
    return false;
}
// does the 3D space find a path for the pair?  (2D spaces always do)
static bool noPath(const ob::StateSpace *sp, const ob::State *a, const ob::State *b)
{
    if (auto o = dynamic_cast<const ob::OwenStateSpace *>(sp))
        return !o->getPath(a, b).has_value();
    if (auto v = dynamic_cast<const ob::VanaStateSpace *>(sp))
        return !v->getPath(a, b).has_value();
    if (auto v = dynamic_cast<const ob::VanaOwenStateSpace *>(sp))
        return !v->getPath(a, b).has_value();
    return false;
}

// forward path lengths of a 2D car-like space for the pairs (a,b) (b,a) (c,b) (b,c), as "l1,l2,l3,l4" (else "-"): lets the oracle
// tell a direction switch of the symmetric Dubins variant / an equally long alternative word from a wrong curve
static std::string carLens(const ob::StateSpace *sp, const ob::State *a, const ob::State *b, const ob::State *c)
{
    if (auto d = dynamic_cast<const ob::DubinsStateSpace *>(sp))
        return vp::bits(d->dubins(a, b).length()) + "," + vp::bits(d->dubins(b, a).length()) + "," +
               vp::bits(d->dubins(c, b).length()) + "," + vp::bits(d->dubins(b, c).length());
    if (auto r = dynamic_cast<const ob::ReedsSheppStateSpace *>(sp))
        return vp::bits(r->reedsShepp(a, b).length()) + "," + vp::bits(r->reedsShepp(b, a).length()) + "," +
               vp::bits(r->reedsShepp(c, b).length()) + "," + vp::bits(r->reedsShepp(b, c).length());
    return "-";
}

// visit the unit components of `sp` with the corresponding sub-states of several parallel states
template <class F>
static void forUnits(const ob::StateSpace *sp, const std::vector<const ob::State *> &sts, F &&f)
{
    if (auto w = dynamic_cast<const ob::WrapperStateSpace *>(sp))
    {
        std::vector<const ob::State *> sub;
        for (auto *s : sts)
            sub.push_back(s->as<ob::WrapperStateSpace::StateType>()->getState());
        forUnits(w->getSpace().get(), sub, f);
        return;
    }
    auto c = dynamic_cast<const ob::CompoundStateSpace *>(sp);
    if (c && !isSpecial(sp) && !isCar(sp))
    {
        for (unsigned j = 0; j < c->getSubspaceCount(); ++j)
        {
            std::vector<const ob::State *> sub;
            for (auto *s : sts)
                sub.push_back(s->as<ob::CompoundState>()->components[j]);
            forUnits(c->getSubspace(j).get(), sub, f);
        }
        return;
    }
    f(sp, sts);
}

// fill every leaf of a state with a distinctive out-of-bounds sentinel
static void poison(const ob::StateSpace *sp, ob::State *st)
{
    if (auto w = dynamic_cast<const ob::WrapperStateSpace *>(sp))
        poison(w->getSpace().get(), st->as<ob::WrapperStateSpace::StateType>()->getState());
    else if (auto c = dynamic_cast<const ob::CompoundStateSpace *>(sp))
        for (unsigned j = 0; j < c->getSubspaceCount(); ++j)
            poison(c->getSubspace(j).get(), st->as<ob::CompoundState>()->components[j]);
    else if (auto r = dynamic_cast<const ob::RealVectorStateSpace *>(sp))
        for (unsigned j = 0; j < r->getDimension(); ++j)
            st->as<ob::RealVectorStateSpace::StateType>()->values[j] = 7.77e77;
    else if (dynamic_cast<const ob::SO2StateSpace *>(sp))
        st->as<ob::SO2StateSpace::StateType>()->value = 77.0;
    else if (dynamic_cast<const ob::SO3StateSpace *>(sp))
    {
        auto *q = st->as<ob::SO3StateSpace::StateType>();
        q->x = q->y = q->z = q->w = 7.0;
    }
    else if (dynamic_cast<const ob::TimeStateSpace *>(sp))
        st->as<ob::TimeStateSpace::StateType>()->position = 7.77e77;
    else if (auto d = dynamic_cast<const ob::DiscreteStateSpace *>(sp))
    {
        int hi = d->getUpperBound(), lo = d->getLowerBound();
        st->as<ob::DiscreteStateSpace::StateType>()->value =
            hi <= 2147483647 - 1000 ? hi + 1000 : (lo >= -2147483647 - 1 + 1000 ? lo - 1000 : hi);
    }
    else
        throw vp::ParseError("unsupported leaf space " + sp->getName());
}

// ---- spaces this engine adds to the shared grammar -----------------------------------------------
static ob::StateSpacePtr parseSpaceX(const std::vector<std::string> &t, size_t &i)
{
    if (i >= t.size())
        throw vp::ParseError("eol");
    const std::string k = t[i];
    if (k == "cmp")
    {
        ++i;
        unsigned n = vp::needN(t, i);
        auto s = std::make_shared<ob::CompoundStateSpace>();
        for (unsigned j = 0; j < n; ++j)
        {
            double w = vp::needF(t, i);
            auto sub = parseSpaceX(t, i);
            sub->setName(sub->getName() + "_c" + std::to_string(j));
            s->addSubspace(sub, w);
        }
        s->lock();
        return s;
    }
    if (k == "wrap")
    {
        ++i;
        return std::make_shared<ob::WrapperStateSpace>(parseSpaceX(t, i));
    }
    if (k == "spacetime")
    {
        ++i;
        double vmax = vp::needF(t, i), tw = vp::needF(t, i);
        if (i >= t.size())
            throw vp::ParseError("eol");
        std::string m = t[i++];
        double lo = 0, hi = 0;
        if (m == "b")
        {
            lo = vp::needF(t, i);
            hi = vp::needF(t, i);
        }
        else if (m != "u")
            throw vp::ParseError("spacetime");
        auto s = std::make_shared<ob::SpaceTimeStateSpace>(parseSpaceX(t, i), vmax, tw);
        if (m == "b")
            s->setTimeBounds(lo, hi);
        return s;
    }
    if (k == "empty")
    {
        ++i;
        return std::make_shared<ob::EmptyStateSpace>();
    }
    if (k == "dubins" || k == "rs")
    {
        ++i;
        double rho = vp::needF(t, i);
        bool sym = false;
        if (k == "dubins")
            sym = vp::needN(t, i) != 0;
        ob::RealVectorBounds b(2);
        for (unsigned j = 0; j < 2; ++j)
            b.low[j] = vp::needF(t, i);
        for (unsigned j = 0; j < 2; ++j)
            b.high[j] = vp::needF(t, i);
        if (k == "dubins")
        {
            auto s = std::make_shared<ob::DubinsStateSpace>(rho, sym);
            s->setBounds(b);
            return s;
        }
        auto s = std::make_shared<ob::ReedsSheppStateSpace>(rho);
        s->setBounds(b);
        return s;
    }
    if (k == "owen" || k == "vana" || k == "vanaowen")
    {
        ++i;
        double rho = vp::needF(t, i), pitch = vp::needF(t, i), lo = vp::needF(t, i), hi = vp::needF(t, i);
        ob::RealVectorBounds b(3);
        b.setLow(lo);
        b.setHigh(hi);
        if (k == "owen")
        {
            auto s = std::make_shared<ob::OwenStateSpace>(rho, pitch);
            s->setBounds(b);
            return s;
        }
        if (k == "vana")
        {
            auto s = std::make_shared<ob::VanaStateSpace>(rho, pitch);
            s->setBounds(b);
            return s;
        }
        auto s = std::make_shared<ob::VanaOwenStateSpace>(rho, pitch);
        s->setBounds(b);
        return s;
    }
    return vp::parseSpace(t, i);
}

// HISTORY: give the existing space object the bounds / weights of `n` (same structure), in place
static void copyParams(ob::StateSpace *e, const ob::StateSpace *n)
{
    if (auto we = dynamic_cast<ob::WrapperStateSpace *>(e))
    {
        auto wn = dynamic_cast<const ob::WrapperStateSpace *>(n);
        if (!wn)
            throw vp::ParseError("structure");
        copyParams(we->getSpace().get(), wn->getSpace().get());
        return;
    }
    if (auto ce = dynamic_cast<ob::CompoundStateSpace *>(e))
    {
        auto cn = dynamic_cast<const ob::CompoundStateSpace *>(n);
        if (!cn || cn->getSubspaceCount() != ce->getSubspaceCount())
            throw vp::ParseError("structure");
        for (unsigned j = 0; j < ce->getSubspaceCount(); ++j)
        {
            ce->setSubspaceWeight(j, cn->getSubspaceWeight(j));
            copyParams(ce->getSubspace(j).get(), cn->getSubspace(j).get());
        }
        return;
    }
    if (auto re = dynamic_cast<ob::RealVectorStateSpace *>(e))
    {
        auto rn = dynamic_cast<const ob::RealVectorStateSpace *>(n);
        if (!rn || rn->getDimension() != re->getDimension())
            throw vp::ParseError("structure");
        bool ok = true;
        for (unsigned j = 0; j < rn->getDimension(); ++j)
            if (!(rn->getBounds().low[j] < rn->getBounds().high[j]))
                ok = false;
        if (ok)
            re->setBounds(rn->getBounds());
        else
            const_cast<ob::RealVectorBounds &>(re->getBounds()) = rn->getBounds();
        return;
    }
    if (auto te = dynamic_cast<ob::TimeStateSpace *>(e))
    {
        auto tn = dynamic_cast<const ob::TimeStateSpace *>(n);
        if (!tn || (te->isBounded() && !tn->isBounded()))
            throw vp::ParseError("structure");
        if (tn->isBounded())
            te->setBounds(tn->getMinTimeBound(), tn->getMaxTimeBound());
        return;
    }
    if (auto de = dynamic_cast<ob::DiscreteStateSpace *>(e))
    {
        auto dn = dynamic_cast<const ob::DiscreteStateSpace *>(n);
        if (!dn)
            throw vp::ParseError("structure");
        de->setBounds(dn->getLowerBound(), dn->getUpperBound());
        return;
    }
    if (typeid(*e) != typeid(*n))
        throw vp::ParseError("structure");
}

struct Tmp
{
    const ob::StateSpacePtr &sp;
    ob::State *s;
    explicit Tmp(const ob::StateSpacePtr &sp) : sp(sp), s(sp->allocState())
    {
    }
    ~Tmp()
    {
        sp->freeState(s);
    }
    Tmp(const Tmp &) = delete;
};


// ---- the cached overloads of the car-like spaces ---------------------------------------------------
// one cache object per alias mode, living for the whole `walk` line
template <class Space, class Path>
struct Cache2D  // Dubins / Reeds-Shepp: interpolate(from, to, t, firstTime, path, state)
{
    bool firstTime = true;
    Path path;
    bool newLeg(const Space *, const ob::State *, const ob::State *)
    {
        firstTime = true;  // what every caller does when the end points change; `path` keeps the previous leg's word
        return true;
    }
    void call(const Space *sp, const ob::State *from, const ob::State *to, double t, ob::State *out)
    {
        sp->interpolate(from, to, t, firstTime, path, out);
    }
};
template <class Space>
struct Cache3D  // Owen / Vana / VanaOwen: interpolate(from, to, t, path, state) with path = *getPath(from, to)
{
    std::optional<typename Space::PathType> path;  // Owen's PathType has no default constructor
    bool newLeg(const Space *sp, const ob::State *from, const ob::State *to)
    {
        auto p = sp->getPath(from, to);
        if (!p)
            return false;
        if (path)
            *path = *p;  // assigned into the same object (Vana's PathType has its own operator=)
        else
            path = *p;
        return true;
    }
    void call(const Space *sp, const ob::State *from, const ob::State *to, double t, ob::State *out)
    {
        sp->interpolate(from, to, t, *path, out);
    }
};

template <class Space, class Cache>
static void walk(const Space *sp, const ob::StateSpacePtr &spp, const std::vector<std::string> &t, size_t i)
{
    unsigned legs = vp::needN(t, i);
    if (legs == 0 || legs > 8)
        throw vp::ParseError("legs");
    Cache cc, cf, ct;
    std::string line;
    Tmp from(spp), to(spp), out(spp), f(spp), g(spp), ref(spp);
    for (unsigned j = 0; j < legs; ++j)
    {
        vp::parseStateInto(sp, from.s, t, i);
        vp::parseStateInto(sp, to.s, t, i);
        unsigned k = vp::needN(t, i);
        if (k > 64)
            throw vp::ParseError("k");
        std::vector<double> ts;
        for (unsigned q = 0; q < k; ++q)
            ts.push_back(vp::needF(t, i));
        if (!sp->satisfiesBounds(from.s) || !sp->satisfiesBounds(to.s))
        {
            std::cout << "oob-input\n";
            return;
        }
        bool ok = cc.newLeg(sp, from.s, to.s);
        ok = cf.newLeg(sp, from.s, to.s) && ok;
        ok = ct.newLeg(sp, from.s, to.s) && ok;
        std::string c, m, a1, a2, sb;
        for (unsigned q = 0; q < k && ok; ++q)
        {
            const char *sep = q ? " / " : " ";
            poison(sp, out.s);
            cc.call(sp, from.s, to.s, ts[q], out.s);
            c += sep + vp::showState(spp, out.s);
            sb += " " + b01(sp->satisfiesBounds(out.s));
            poison(sp, ref.s);
            static_cast<const ob::StateSpace *>(sp)->interpolate(from.s, to.s, ts[q], ref.s);  // the 4-argument virtual: fresh cache
            m += sep + vp::showState(spp, ref.s);
            sp->copyState(f.s, from.s);
            cf.call(sp, f.s, to.s, ts[q], f.s);
            a1 += sep + vp::showState(spp, f.s);
            sp->copyState(g.s, to.s);
            ct.call(sp, from.s, g.s, ts[q], g.s);
            a2 += sep + vp::showState(spp, g.s);
        }
        const std::string n = std::to_string(j);
        line += std::string(j ? " | " : "") + "c" + n + c + " | m" + n + m + " | cf" + n + a1 + " | ct" + n + a2 + " | sb" + n + sb + " | np" + n + " " + b01(!ok);
    }
    if (i != t.size())
        throw vp::ParseError("trailing");
    std::cout << line << "\n";
}


int main()
{
    std::string line;
    if (!vp::readLine(line))
        return 2;
    auto hdr = vp::tokens(line);
    if (hdr.size() != 1 || hdr[0] != "spaceinterp")
    {
        std::cout << "bad-header\n";
        return 2;
    }
    ompl::RNG::setSeed(20260926);  // sanityChecks() draws samples: deterministic
    ob::StateSpacePtr sp;     // the space whose interpolate / satisfiesBounds / … are called
    ob::StateSpacePtr inner;  // kept alive for `cfw`; state I/O goes through it (the wrapper shares its states)
    while (vp::readLine(line))
    {
        auto t = vp::tokens(line);
        if (t.empty())
            continue;
        try
        {
            if (t[0] == "space")
            {
                size_t i = 1;
                bool cfw = t.size() > 1 && t[1] == "cfw";
                if (cfw)
                    ++i;
                auto s = parseSpaceX(t, i);
                if (i != t.size())
                    throw vp::ParseError("trailing");
                inner = s;
                sp = cfw ? ob::StateSpacePtr(std::make_shared<ob::CForestStateSpaceWrapper>(nullptr, s.get())) : s;
                std::cout << "ok\n";
            }
            else if (t[0] == "mutate" && sp)
            {
                size_t i = 1;
                if (t.size() > 1 && t[1] == "cfw")
                    ++i;
                auto n = parseSpaceX(t, i);
                if (i != t.size())
                    throw vp::ParseError("trailing");
                try
                {
                    inner->setup();
                }
                catch (const ompl::Exception &)
                {
                }
                copyParams(inner.get(), n.get());
                std::cout << "ok\n";
            }
            else if (t[0] == "sanity" && t.size() == 1 && sp)
            {
                std::string res = "ok";
                // sanityChecks() allocates its test states with raw allocState() and leaks them when it throws:
                // not this property's business, so leak detection is suspended for the call
                __lsan_disable();
                try
                {
                    sp->sanityChecks();
                }
                catch (const ompl::Exception &e)
                {
                    res = std::string("throws ") + e.what();
                }
                catch (const char *e)
                {
                    res = std::string("throws ") + e;
                }
                __lsan_enable();
                for (auto &c : res)
                    if (c == '|' || c == '\n')
                        c = '/';
                std::cout << "sanity " << res << "\n";
            }
            else if (t[0] == "interp" && sp)
            {
                size_t i = 1;
                Tmp from(sp), to(sp), out(sp), f(sp), g(sp);
                vp::parseStateInto(inner.get(), from.s, t, i);
                vp::parseStateInto(inner.get(), to.s, t, i);
                double tt = vp::needF(t, i);
                if (i != t.size())
                    throw vp::ParseError("trailing");
                if (!sp->satisfiesBounds(from.s) || !sp->satisfiesBounds(to.s))
                {
                    std::cout << "oob-input\n";  // outside the property's quantifier (and SO(3) asserts)
                    continue;
                }
                sp->copyState(f.s, from.s);
                sp->copyState(g.s, to.s);
                // sentinel in the distinct output: a component that interpolate does not write shows up
                poison(inner.get(), out.s);
                enforced = false;
                sp->interpolate(from.s, to.s, tt, out.s);
                sp->interpolate(f.s, to.s, tt, f.s);
                sp->interpolate(from.s, g.s, tt, g.s);
                std::cout << "r " << vp::showState(inner, out.s) << " | a1 " << vp::showState(inner, f.s) << " | a2 "
                          << vp::showState(inner, g.s) << " | sb " << b01(sp->satisfiesBounds(out.s)) << " | ef "
                          << b01(sp->equalStates(out.s, from.s)) << " | et " << b01(sp->equalStates(out.s, to.s))
                          << " | sbf " << b01(sp->satisfiesBounds(from.s)) << " | sbt "
                          << b01(sp->satisfiesBounds(to.s)) << " | dfr " << dist(sp, from.s, out.s)
                          << " | dft " << dist(sp, from.s, to.s) << " | drt "
                          << dist(sp, out.s, to.s) << " | ext " << vp::bits(sp->getMaximumExtent())
                          << " | enf " << b01(enforced);
                {
                    std::string csb, cef, cet, cdfr, cdrt, cext, cnp;
                    forUnits(inner.get(), {out.s, from.s, to.s},
                             [&](const ob::StateSpace *u, const std::vector<const ob::State *> &x) {
                                 cnp += " " + b01(noPath(u, x[1], x[2]));
                                 csb += " " + b01(u->satisfiesBounds(x[0]));
                                 cef += " " + b01(u->equalStates(x[0], x[1]));
                                 cet += " " + b01(u->equalStates(x[0], x[2]));
                                 cdfr += " " + dist(u, x[1], x[0]);
                                 cdrt += " " + dist(u, x[0], x[2]);
                                 cext += " " + vp::bits(u->getMaximumExtent());
                             });
                    std::cout << " | csb" << csb << " | cef" << cef << " | cet" << cet << " | cdfr" << cdfr << " | cdrt"
                              << cdrt << " | cext" << cext;
                    if (containsCar(inner.get()))
                        std::cout << " | cnp" << cnp;
                }
                std::cout << "\n";
            }
            else if (t[0] == "walk" && sp)
            {
                using D = ob::DubinsStateSpace;
                using R = ob::ReedsSheppStateSpace;
                if (auto d = dynamic_cast<const D *>(sp.get()))
                    walk<D, Cache2D<D, D::DubinsPath>>(d, sp, t, 1);
                else if (auto r = dynamic_cast<const R *>(sp.get()))
                    walk<R, Cache2D<R, R::ReedsSheppPath>>(r, sp, t, 1);
                else if (auto o = dynamic_cast<const ob::OwenStateSpace *>(sp.get()))
                    walk<ob::OwenStateSpace, Cache3D<ob::OwenStateSpace>>(o, sp, t, 1);
                else if (auto v = dynamic_cast<const ob::VanaStateSpace *>(sp.get()))
                    walk<ob::VanaStateSpace, Cache3D<ob::VanaStateSpace>>(v, sp, t, 1);
                else if (auto w = dynamic_cast<const ob::VanaOwenStateSpace *>(sp.get()))
                    walk<ob::VanaOwenStateSpace, Cache3D<ob::VanaOwenStateSpace>>(w, sp, t, 1);
                else
                    std::cout << "bad-op\n";
            }
            else if (t[0] == "interp2" && sp)
            {
                size_t i = 1;
                Tmp from(sp), to(sp), s3(sp), r(sp), direct(sp), ra(sp);
                vp::parseStateInto(inner.get(), from.s, t, i);
                vp::parseStateInto(inner.get(), to.s, t, i);
                double s = vp::needF(t, i);
                double u = vp::needF(t, i);
                if (i != t.size())
                    throw vp::ParseError("trailing");
                if (!sp->satisfiesBounds(from.s) || !sp->satisfiesBounds(to.s))
                {
                    std::cout << "oob-input\n";
                    continue;
                }
                poison(inner.get(), s3.s);
                poison(inner.get(), r.s);
                poison(inner.get(), direct.s);
                enforced = false;
                sp->interpolate(from.s, to.s, s, s3.s);
                sp->interpolate(s3.s, to.s, u, r.s);
                sp->interpolate(from.s, to.s, s + (1.0 - s) * u, direct.s);
                sp->copyState(ra.s, s3.s);
                sp->interpolate(ra.s, to.s, u, ra.s);
                std::cout << "s3 " << vp::showState(inner, s3.s) << " | r " << vp::showState(inner, r.s) << " | direct "
                          << vp::showState(inner, direct.s) << " | ra " << vp::showState(inner, ra.s) << " | d "
                          << dist(sp, r.s, direct.s) << " | sbs3 " << b01(sp->satisfiesBounds(s3.s)) << " | sbr "
                          << b01(sp->satisfiesBounds(r.s)) << " | sbd " << b01(sp->satisfiesBounds(direct.s))
                          << " | ext " << vp::bits(sp->getMaximumExtent()) << " | enf " << b01(enforced);
                {
                    std::string cd, cext, cnp, clen;
                    forUnits(inner.get(), {r.s, direct.s, from.s, to.s, s3.s},
                             [&](const ob::StateSpace *u, const std::vector<const ob::State *> &x) {
                                 clen += " " + (u->satisfiesBounds(x[4]) ? carLens(u, x[2], x[3], x[4]) : std::string("-"));
                                 cd += " " + dist(u, x[0], x[1]);
                                 cext += " " + vp::bits(u->getMaximumExtent());
                                 cnp += " " + b01(noPath(u, x[2], x[3]) || noPath(u, x[4], x[3]));
                             });
                    std::cout << " | cd" << cd << " | cext" << cext;
                    if (containsCar(inner.get()))
                        std::cout << " | cnp" << cnp << " | clen" << clen;
                }
                std::cout << "\n";
            }
            else
                std::cout << "bad-op\n";
        }
        catch (const vp::ParseError &)
        {
            std::cout << "bad-op\n";
        }
        catch (const ompl::Exception &e)
        {
            std::cout << "bad-op\n";
        }
    }
    return 0;
}
