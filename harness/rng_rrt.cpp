// C20 harness, lock-step part: the REAL geometric::RRT (linear nearest-neighbour structure) on an explicitly given
// RealVector problem, against the Lean model OmplModel.Model.RngPlan (driver drv_rngplan), which runs the same planner as
// an oracle computation on top of the bit-exact model of RNGSeedGenerator / ompl::RNG.
//
// first line:  rrtl [clock=<c>]      (the clock value is read by the model only)
// then lines:  run space=<rv|se2> dim=<d> lo=<b,..> hi=<b,..> boxes=<lo..,hi..;…|-> starts=<b,..;…> goals=<b,..;…> thr=<b> res=<b>
//                  range=<b> bias=<b> is=<0|1> seed=<n> budget=<n> hist=<[sc]+> ptc=<evals|iter> trace=<0|1>
//              (every <b> is the decimal u64 bit pattern of a double; range bits 0 = let RRT::setup() detect it)
// prints, with trace=1, one line `q <index> <answer> <bits…>` per state-validity query, then one result line with one
// section per `s` of hist (sections separated by " || "; `c` = planner->clear(), printed as "cleared"):
//     status=<int> approx=<0|1> evals=<n> polls=<n> qhash=<hex> dif=<bits|-> path=<n>:<hash>|none tree=<n>:<hash>
//     lseed=<planner rng_>,<sampler rng_>
// Nothing here reads a clock, an address or an environment variable other than C20_STATE_FILL (what a freshly allocated
// state contains: the model has no such input, so both fillers must give the model's lines).
#include "common/proto.h"

#include <cmath>
#include <cstdlib>
#include <map>
#include <memory>
#include <unordered_map>
#include <unistd.h>

#include <ompl/util/RandomNumbers.h>
#include <ompl/util/Console.h>
#include <ompl/base/SpaceInformation.h>
#include <ompl/base/ProblemDefinition.h>
#include <ompl/base/PlannerTerminationCondition.h>
#include <ompl/base/spaces/RealVectorStateSpace.h>
#include <ompl/base/spaces/SE2StateSpace.h>
#include <ompl/base/goals/GoalState.h>
#include <ompl/base/goals/GoalStates.h>
#include <ompl/base/terminationconditions/IterationTerminationCondition.h>
#include <ompl/datastructures/NearestNeighborsLinear.h>
#include <ompl/geometric/PathGeometric.h>
#include <ompl/geometric/planners/rrt/RRT.h>

namespace ob = ompl::base;
namespace og = ompl::geometric;

struct Fnv
{
    uint64_t h = 1469598103934665603ULL;
    void byte(unsigned char c)
    {
        h ^= c;
        h *= 1099511628211ULL;
    }
    void u64(uint64_t v)
    {
        for (int i = 0; i < 8; ++i)
            byte((v >> (8 * i)) & 0xff);
    }
    void dbl(double d)
    {
        uint64_t u;
        std::memcpy(&u, &d, 8);
        u64(u);
    }
    std::string hex() const
    {
        char b[32];
        snprintf(b, sizeof b, "%016lx", (unsigned long)h);
        return b;
    }
};

struct Counters
{
    unsigned long evals = 0, polls = 0;
    Fnv q;
    bool trace = false;
};

struct Box
{
    std::vector<double> lo, hi;
};

class BoxChecker : public ob::StateValidityChecker
{
public:
    BoxChecker(const ob::SpaceInformationPtr &si, std::vector<Box> boxes, Counters *c)
      : ob::StateValidityChecker(si), boxes_(std::move(boxes)), c_(c)
    {
    }
    bool isValid(const ob::State *s) const override
    {
        std::vector<double> v;
        si_->getStateSpace()->copyToReals(v, s);
        const unsigned n = (unsigned)v.size();
        bool ok = si_->satisfiesBounds(s);
        for (const Box &b : boxes_)
        {
            bool in = true;
            for (unsigned i = 0; i < b.lo.size(); ++i)
                if (v[i] < b.lo[i] || v[i] > b.hi[i])
                    in = false;
            if (in)
                ok = false;
        }
        for (unsigned i = 0; i < n; ++i)
            c_->q.dbl(v[i]);
        c_->q.byte(ok ? 1 : 0);
        if (c_->trace)
        {
            std::cout << "q " << c_->evals << " " << (ok ? 1 : 0);
            for (unsigned i = 0; i < n; ++i)
                std::cout << " " << vp::bits(v[i]);
            std::cout << "\n";
        }
        ++c_->evals;
        return ok;
    }

private:
    std::vector<Box> boxes_;
    Counters *c_;
};

// what a freshly allocated state contains is not an input of the model: both fillers must give the same lines
class FillRV : public ob::RealVectorStateSpace
{
public:
    using ob::RealVectorStateSpace::RealVectorStateSpace;
    ob::State *allocState() const override
    {
        static const int k = [] {
            const char *e = getenv("C20_STATE_FILL");
            return e ? atoi(e) : 0;
        }();
        ob::State *s = ob::RealVectorStateSpace::allocState();
        if (k)
            for (unsigned i = 0; i < getDimension(); ++i)
                s->as<StateType>()->values[i] = (k == 1 ? 0.137 : 0.861) - 0.01 * i;
        return s;
    }
};

class FillSE2 : public ob::SE2StateSpace
{
public:
    ob::State *allocState() const override
    {
        static const int k = [] {
            const char *e = getenv("C20_STATE_FILL");
            return e ? atoi(e) : 0;
        }();
        ob::State *s = ob::SE2StateSpace::allocState();
        if (k)
        {
            const auto &b = getBounds();
            const double f = k == 1 ? 0.137 : 0.861;
            s->as<StateType>()->setXY(b.low[0] + f * (b.high[0] - b.low[0]), b.low[1] + f * (b.high[1] - b.low[1]));
            s->as<StateType>()->setYaw(k == 1 ? 0.5 : -2.1);
        }
        return s;
    }
};

// access to protected members without touching /repo
struct RRTPeek : og::RRT
{
    using og::RRT::RRT;
    using og::RRT::Motion;
    ompl::RNG &plannerRng()
    {
        return rng_;
    }
    ob::StateSampler *sampler()
    {
        return sampler_.get();
    }
    std::vector<Motion *> motions()
    {
        std::vector<Motion *> m;
        if (nn_)
            nn_->list(m);
        return m;
    }
};
struct SamplerPeek : ob::StateSampler
{
    static ompl::RNG &rngOf(ob::StateSampler *s)
    {
        return s->*(&SamplerPeek::rng_);
    }
};

static std::vector<std::string> splitOn(const std::string &s, char c)
{
    std::vector<std::string> out;
    std::string cur;
    for (char ch : s)
        if (ch == c)
        {
            out.push_back(cur);
            cur.clear();
        }
        else
            cur += ch;
    out.push_back(cur);
    return out;
}

static bool parseVec(const std::string &s, size_t n, std::vector<double> &out)
{
    out.clear();
    for (auto &t : splitOn(s, ','))
    {
        auto d = vp::parseBits(t);
        if (!d)
            return false;
        out.push_back(*d);
    }
    return out.size() == n;
}

static bool parseVecs(const std::string &s, size_t n, std::vector<std::vector<double>> &out)
{
    out.clear();
    if (s == "-")
        return true;
    for (auto &t : splitOn(s, ';'))
    {
        std::vector<double> v;
        if (!parseVec(t, n, v))
            return false;
        out.push_back(v);
    }
    return true;
}

static std::map<std::string, std::string> kv(const std::vector<std::string> &t, bool &ok)
{
    std::map<std::string, std::string> m;
    ok = true;
    for (size_t i = 1; i < t.size(); ++i)
    {
        auto p = t[i].find('=');
        if (p == std::string::npos || m.count(t[i].substr(0, p)))
        {
            ok = false;
            continue;
        }
        m[t[i].substr(0, p)] = t[i].substr(p + 1);
    }
    return m;
}

int main()
{
    alarm(300);  // watchdog only
    std::string line;
    // header: `rrtl [clock=<c>]` — the clock value is for the model only (this process has its own, real clock)
    auto hdr = vp::readLine(line) ? vp::tokens(line) : std::vector<std::string>();
    if (hdr.empty() || hdr[0] != "rrtl" || hdr.size() > 2 ||
        (hdr.size() == 2 && (hdr[1].rfind("clock=", 0) != 0 || !vp::parseNat(hdr[1].substr(6)))))
    {
        std::cout << "bad-header\n";
        return 2;
    }
    ompl::msg::noOutputHandler();
    bool seeded = false;
    while (vp::readLine(line))
    {
        auto t = vp::tokens(line);
        if (t.empty())
            continue;
        bool ok;
        auto a = kv(t, ok);
        static const char *keys[] = {"space", "dim", "lo", "hi", "boxes", "starts", "goals", "thr", "res", "range", "bias",
                                     "is", "seed", "budget", "hist", "ptc", "trace"};
        if (t[0] != "run" || !ok || a.size() != 17)
            ok = false;
        for (const char *k : keys)
            if (!a.count(k))
                ok = false;
        std::vector<double> lo, hi;
        std::vector<std::vector<double>> boxes, starts, goals;
        std::optional<unsigned long long> dim, seed, budget;
        std::optional<double> thr, res, range, bias;
        if (ok)
        {
            dim = vp::parseNat(a["dim"]);
            seed = vp::parseNat(a["seed"]);
            budget = vp::parseNat(a["budget"]);
            thr = vp::parseBits(a["thr"]);
            res = vp::parseBits(a["res"]);
            range = vp::parseBits(a["range"]);
            bias = vp::parseBits(a["bias"]);
            const bool se2 = a["space"] == "se2";
            const size_t n = dim ? *dim + (se2 ? 1 : 0) : 0;
            ok = (se2 || a["space"] == "rv") && dim && *dim >= 1 && *dim <= 8 && (!se2 || *dim == 2) && seed && budget && *budget <= 1000000 && thr && res && range && bias &&
                 parseVec(a["lo"], *dim, lo) && parseVec(a["hi"], *dim, hi) && parseVecs(a["boxes"], 2 * *dim, boxes) &&
                 parseVecs(a["starts"], n, starts) && parseVecs(a["goals"], n, goals) && !starts.empty() &&
                 !goals.empty() && (a["is"] == "0" || a["is"] == "1") && (a["ptc"] == "evals" || a["ptc"] == "iter") &&
                 (a["trace"] == "0" || a["trace"] == "1") && !a["hist"].empty() && a["hist"][0] == 's' &&
                 a["hist"].find_first_not_of("sc") == std::string::npos && !seeded;
            for (unsigned i = 0; ok && i < *dim; ++i)
                if (!(lo[i] < hi[i]))
                    ok = false;  // RealVectorBounds::check() would throw
            if (ok && !(*res > 0.0 && *res < 1.0))
                ok = false;      // setLongestValidSegmentFraction would throw
        }
        if (!ok)
        {
            std::cout << "bad-op\n";
            continue;
        }
        // the global seed comes first: nothing random has been created in this process yet (one run per process)
        ompl::RNG::setSeed(*seed);
        seeded = true;
        Counters c;
        c.trace = a["trace"] == "1";
        const unsigned d = (unsigned)*dim;
        const bool se2 = a["space"] == "se2";
        const unsigned n = d + (se2 ? 1 : 0);
        std::string out;
        try
        {
            ob::RealVectorBounds bounds(d);
            bounds.low = lo;
            bounds.high = hi;
            ob::StateSpacePtr space;
            if (se2)
            {
                auto sp = std::make_shared<FillSE2>();
                sp->setBounds(bounds);
                space = sp;
            }
            else
            {
                auto sp = std::make_shared<FillRV>(d);
                sp->setBounds(bounds);
                space = sp;
            }
            auto si = std::make_shared<ob::SpaceInformation>(space);
            std::vector<Box> bx;
            for (auto &b : boxes)
                bx.push_back({std::vector<double>(b.begin(), b.begin() + d), std::vector<double>(b.begin() + d, b.end())});
            si->setStateValidityChecker(std::make_shared<BoxChecker>(si, bx, &c));
            si->setStateValidityCheckingResolution(*res);
            si->setup();
            auto pdef = std::make_shared<ob::ProblemDefinition>(si);
            auto mk = [&](const std::vector<double> &v) {
                ob::ScopedState<> s(space);
                for (unsigned i = 0; i < n; ++i)
                    s[i] = v[i];
                return s;
            };
            for (auto &s : starts)
                pdef->addStartState(mk(s));
            if (goals.size() == 1)
            {
                auto g = std::make_shared<ob::GoalState>(si);
                g->setState(mk(goals[0]));
                g->setThreshold(*thr);
                pdef->setGoal(g);
            }
            else
            {
                auto g = std::make_shared<ob::GoalStates>(si);
                for (auto &s : goals)
                    g->addState(mk(s));
                g->setThreshold(*thr);
                pdef->setGoal(g);
            }
            auto planner = std::make_shared<RRTPeek>(si, a["is"] == "1");
            planner->setNearestNeighbors<ompl::NearestNeighborsLinear>();
            if (a["range"] != "0")
                planner->setRange(*range);
            planner->setGoalBias(*bias);
            planner->setProblemDefinition(pdef);
            planner->setup();
            bool first = true;
            for (char ph : a["hist"])
            {
                if (!first)
                    out += " || ";
                first = false;
                if (ph == 'c')
                {
                    planner->clear();
                    out += "cleared";
                    continue;
                }
                pdef->clearSolutionPaths();
                const unsigned long budgetAbs = c.evals + *budget, cap = c.polls + 2UL * *budget + 2000UL;
                ob::PlannerStatus st;
                if (a["ptc"] == "iter")
                {
                    ob::IterationTerminationCondition itc((unsigned)*budget);
                    ob::PlannerTerminationCondition inner = itc;  // the class's own conversion operator
                    ob::PlannerTerminationCondition ptc([&c, &inner] {
                        ++c.polls;
                        return inner();
                    });
                    st = planner->solve(ptc);
                }
                else
                {
                    ob::PlannerTerminationCondition ptc([&c, budgetAbs, cap] {
                        ++c.polls;
                        return c.evals >= budgetAbs || c.polls >= cap;
                    });
                    st = planner->solve(ptc);
                }
                std::string path = "none", dif = "-";
                if (ob::PathPtr sp = pdef->getSolutionPath())
                {
                    Fnv h;
                    auto &states = static_cast<og::PathGeometric &>(*sp).getStates();
                    std::vector<double> r;
                    for (ob::State *s : states)
                    {
                        space->copyToReals(r, s);
                        for (double x : r)
                            h.dbl(x);
                    }
                    path = std::to_string(states.size()) + ":" + h.hex();
                    dif = vp::bits(pdef->getSolutionDifference());
                }
                auto ms = planner->motions();
                std::unordered_map<const void *, uint64_t> index;  // lookups only, never iterated
                for (size_t i = 0; i < ms.size(); ++i)
                    index[ms[i]] = i;
                Fnv th;
                for (auto *m : ms)
                {
                    std::vector<double> r;
                    space->copyToReals(r, m->state);
                    for (double x : r)
                        th.dbl(x);
                    th.u64(m->parent ? index.at(m->parent) + 1 : 0);
                }
                std::ostringstream os;
                os << "status=" << (int)(ob::PlannerStatus::StatusType)st << " approx=" << (pdef->hasApproximateSolution() ? 1 : 0)
                   << " evals=" << c.evals << " polls=" << c.polls << " qhash=" << c.q.hex() << " dif=" << dif
                   << " path=" << path << " tree=" << ms.size() << ":" << th.hex()
                   << " lseed=" << planner->plannerRng().getLocalSeed() << ","
                   << (planner->sampler() ? std::to_string(SamplerPeek::rngOf(planner->sampler()).getLocalSeed()) : std::string("-"));
                out += os.str();
            }
        }
        catch (const std::exception &e)
        {
            std::string err = e.what();
            for (char &ch : err)
                if (ch == ' ' || ch == '\n')
                    ch = '_';
            out = "exception " + err + (out.empty() ? "" : " after " + out);
        }
        std::cout << out << "\n";
    }
    return 0;
}
