// C12 (second engine) harness: lock-step runs of the REAL ompl::geometric::EST — the main user of ompl::PDF —
// on R^n box environments.  Reads a configuration (same lines as the `drv_est` driver), runs EST::solve and
// prints (1) everything external the run consumed, so that the Lean model can be run on the same script:
//   us   : the planner's own rng_.uniform01() stream.  rng_ is protected: the derived PeekEST re-seeds it with a known
//          local seed and a twin RNG with the same seed reproduces the stream (EST calls nothing but uniform01 on it);
//   near : every result of sampler_->sampleNear (a recording ValidStateSampler wrapping UniformValidStateSampler);
//   gs   : every result of goal_s->sampleGoal (a GoalState subclass that records);
// and (2) what the run produced: status / flags / difference, the tree (motions_ order, parent index, state bits), the
// whole PDF (element order, index_ fields, every tree cell as bits; `private` of PDF.h opened for this translation unit
// only), the reported path, and the next value of rng_ after solve (= how many draws the run consumed).
// NearestNeighborsLinear is installed so that motions_ order == nn data_ order and nearestR is the linear scan.
#include "common/proto.h"
#include <ompl/util/Exception.h>
#include <vector>
#define private public
#include <ompl/datastructures/PDF.h>
#undef private
#include "common/planning.h"
#include <ompl/datastructures/NearestNeighborsLinear.h>
#include <ompl/base/samplers/UniformValidStateSampler.h>
#include <ompl/base/spaces/RealVectorStateSpace.h>
#include <map>

namespace ob = ompl::base;
namespace og = ompl::geometric;

struct Logs
{
    std::vector<std::string> nears, gs;
};

class RecValidSampler : public ob::ValidStateSampler
{
public:
    RecValidSampler(const ob::SpaceInformation *si, std::shared_ptr<Logs> log)
      : ob::ValidStateSampler(si), inner_(si), log_(std::move(log))
    {
        name_ = "rec-uniform";
    }
    bool sample(ob::State *s) override
    {
        return inner_.sample(s);
    }
    bool sampleNear(ob::State *s, const ob::State *near, double d) override
    {
        bool ok = inner_.sampleNear(s, near, d);
        std::vector<double> r;
        si_->getStateSpace()->copyToReals(r, s);
        log_->nears.push_back(std::string("near ") + (ok ? "1 " : "0 ") + vp::showReals(r));
        return ok;
    }

private:
    ob::UniformValidStateSampler inner_;
    std::shared_ptr<Logs> log_;
};

class RecGoalState : public ob::GoalState
{
public:
    RecGoalState(const ob::SpaceInformationPtr &si, std::shared_ptr<Logs> log) : ob::GoalState(si), log_(std::move(log))
    {
    }
    void sampleGoal(ob::State *st) const override
    {
        ob::GoalState::sampleGoal(st);
        std::vector<double> r;
        si_->getStateSpace()->copyToReals(r, st);
        log_->gs.push_back("gs " + vp::showReals(r));
    }

private:
    std::shared_ptr<Logs> log_;
};

class PeekEST : public og::EST
{
public:
    using og::EST::EST;
    void useLinearNN()
    {
        nn_ = std::make_shared<ompl::NearestNeighborsLinear<Motion *>>();
    }
    void seedRng(std::uint_fast32_t s)
    {
        rng_.setLocalSeed(s);
    }
    double nextDraw()
    {
        return rng_.uniform01();
    }
    double radius() const
    {
        return nbrhoodRadius_;
    }
    std::string tree() const
    {
        std::map<const Motion *, size_t> idx;
        for (size_t j = 0; j < motions_.size(); ++j)
            idx[motions_[j]] = j;
        std::string s = "tree n=" + std::to_string(motions_.size());
        for (auto *m : motions_)
        {
            std::vector<double> r;
            si_->getStateSpace()->copyToReals(r, m->state);
            std::string st;
            for (size_t k = 0; k < r.size(); ++k)
                st += (k ? "," : "") + vp::bits(r[k]);
            s += " " + (m->parent ? std::to_string(idx.at(m->parent)) : std::string("-1")) + ":" + st;
        }
        // nn_ holds the same motions in the same order
        std::vector<Motion *> l;
        nn_->list(l);
        if (l != motions_)
            s += " NN-ORDER-DIFFERS";
        return s;
    }
    // the PDF as harness/pdf.cpp dumps it; element payload (Motion*) and motion->element printed as motion indices
    std::string pdf() const
    {
        std::map<const Motion *, size_t> idx;
        for (size_t j = 0; j < motions_.size(); ++j)
            idx[motions_[j]] = j;
        const auto &p = pdf_;
        std::string s = "pdf n=" + std::to_string(p.size()) + " ord=";
        for (size_t i = 0; i < p.data_.size(); ++i)
        {
            auto it = idx.find(p.data_[i]->data_);
            // a motion's element must be the element that carries it
            bool back = it != idx.end() && motions_[it->second]->element == p.data_[i];
            s += (i ? "," : "") + (it == idx.end() ? std::string("?") : std::to_string(it->second)) + (back ? "" : "!");
        }
        s += " ix=";
        for (size_t i = 0; i < p.data_.size(); ++i)
            s += (i ? "," : "") + std::to_string(p.data_[i]->index_);
        s += " rows=" + std::to_string(p.tree_.size());
        for (const auto &row : p.tree_)
        {
            s += " [" + std::to_string(row.size()) + ":";
            for (size_t j = 0; j < row.size(); ++j)
                s += (j ? "," : "") + vp::bits(row[j]);
            s += "]";
        }
        return s;
    }
};

int main()
{
    vp::quietLogs();
    std::string line;
    if (!vp::readLine(line))
        return 2;
    auto hdr = vp::tokens(line);
    if (hdr.size() != 2 || hdr[0] != "est" || !vp::parseNat(hdr[1]) || *vp::parseNat(hdr[1]) == 0)
    {
        std::cout << "bad-header\n";
        return 2;
    }
    const unsigned dim = *vp::parseNat(hdr[1]);
    std::vector<double> lo, hi, goal;
    std::vector<std::vector<double>> starts;
    vp::Env env;
    double res = 0.01, range = 0.0, bias = 0.05, thr = std::numeric_limits<double>::epsilon();
    unsigned long seed = 1, iters = 0;
    try
    {
        while (vp::readLine(line))
        {
            auto t = vp::tokens(line);
            if (t.empty())
                continue;
            size_t i = 1;
            const std::string &op = t[0];
            auto floats = [&](size_t n) {
                std::vector<double> v;
                for (size_t k = 0; k < n; ++k)
                    v.push_back(vp::needF(t, i));
                return v;
            };
            if (op == "bounds" && t.size() == 1 + 2 * dim)
            {
                lo = floats(dim);
                hi = floats(dim);
            }
            else if (op == "boxes")
            {
                i = 0;
                env.parse(t, i);
                if (i != t.size() || env.pdim > dim)
                    throw vp::ParseError("boxes");
            }
            else if (op == "res" && t.size() == 2)
                res = vp::needF(t, i);
            else if (op == "range" && t.size() == 2)
                range = vp::needF(t, i);
            else if (op == "bias" && t.size() == 2)
                bias = vp::needF(t, i);
            else if (op == "thr" && t.size() == 2)
                thr = vp::needF(t, i);
            else if (op == "goal" && t.size() == 1 + dim)
                goal = floats(dim);
            else if (op == "start" && t.size() == 1 + dim)
                starts.push_back(floats(dim));
            else if (op == "seed" && t.size() == 2)
                seed = vp::needN(t, i);
            else if (op == "iters" && t.size() == 2)
                iters = vp::needN(t, i);
            else if (op == "go" && t.size() == 1)
                break;
            else
                throw vp::ParseError(line);
        }
        if (lo.size() != dim || goal.size() != dim)
            throw vp::ParseError("incomplete configuration");
    }
    catch (const std::exception &e)
    {
        std::cout << "bad-op " << e.what() << "\n";
        return 2;
    }

    ompl::RNG::setSeed(seed ? seed : 1);
    auto space = std::make_shared<ob::RealVectorStateSpace>(dim);
    ob::RealVectorBounds b(dim);
    for (unsigned d = 0; d < dim; ++d)
    {
        b.low[d] = lo[d];
        b.high[d] = hi[d];
    }
    space->setBounds(b);
    auto si = std::make_shared<ob::SpaceInformation>(space);
    auto vc = std::make_shared<vp::RecordingValidityChecker>(si, env, false);
    si->setStateValidityChecker(vc);
    si->setStateValidityCheckingResolution(res);
    auto logs = std::make_shared<Logs>();
    si->setValidStateSamplerAllocator([logs](const ob::SpaceInformation *s) -> ob::ValidStateSamplerPtr {
        return std::make_shared<RecValidSampler>(s, logs);
    });
    si->setup();

    auto pdef = std::make_shared<ob::ProblemDefinition>(si);
    for (const auto &st : starts)
    {
        ob::ScopedState<> s(space);
        for (unsigned d = 0; d < dim; ++d)
            s[d] = st[d];
        pdef->addStartState(s);
    }
    auto gs = std::make_shared<RecGoalState>(si, logs);
    {
        ob::ScopedState<> g(space);
        for (unsigned d = 0; d < dim; ++d)
            g[d] = goal[d];
        gs->setState(g);
    }
    gs->setThreshold(thr);
    pdef->setGoal(gs);

    auto planner = std::make_shared<PeekEST>(si);
    planner->setProblemDefinition(pdef);
    planner->setRange(range);
    planner->setGoalBias(bias);
    planner->useLinearNN();
    planner->setup();
    const std::uint_fast32_t lseed = (std::uint_fast32_t)(seed * 7919u + 12345u);
    planner->seedRng(lseed);
    logs->nears.clear();
    logs->gs.clear();

    auto cnt = std::make_shared<vp::EvalCounter>();
    cnt->fireAt = iters;
    ob::PlannerStatus st;
    std::string err;
    try
    {
        st = planner->solve(vp::evalCountPtc(cnt));
    }
    catch (const std::exception &e)
    {
        err = e.what();
        for (char &ch : err)
            if (ch == ' ' || ch == '\n')
                ch = '_';
    }

    // ---- what the run consumed
    {
        ompl::RNG twin(lseed);
        const size_t k = 3 * iters + 1;
        std::cout << "us " << k;
        for (size_t j = 0; j < k; ++j)
            std::cout << " " << vp::bits(twin.uniform01());
        std::cout << "\n";
    }
    for (const auto &l : logs->nears)
        std::cout << l << "\n";
    for (const auto &l : logs->gs)
        std::cout << l << "\n";
    std::cout << "iters " << iters << "\n";
    std::cout << "end-of-script\n";

    // ---- what the run produced
    if (!err.empty())
        std::cout << "exception " << err << "\n";
    const bool added = pdef->getSolutionCount() > 0;
    std::cout << "status=" << vp::statusName(st) << " bool=" << (st ? 1 : 0) << " added=" << (added ? 1 : 0) << " approx="
              << (added ? std::string(pdef->hasApproximateSolution() ? "1" : "0") : std::string("-")) << " diff=";
    // the difference handed to addSolutionPath (PlannerSolution stores it only for approximate solutions: exact -> 0 there),
    // so it is read from the planner's report: approximate -> getSolutionDifference(), exact -> the goal distance of the last state
    if (!added)
        std::cout << "-";
    else
    {
        auto path = pdef->getSolutionPath()->as<og::PathGeometric>();
        double d = 0;
        gs->isSatisfied(path->getStates().back(), &d);
        std::cout << vp::bits(d) << " pdefdiff=" << vp::bits(pdef->getSolutionDifference());
    }
    std::cout << " lvs=" << vp::bits(space->getLongestValidSegmentLength()) << " range=" << vp::bits(planner->getRange())
              << " radius=" << vp::bits(planner->radius()) << " nstart=" << pdef->getStartStateCount()
              << " nnear=" << logs->nears.size() << " ngs=" << logs->gs.size() << " evals=" << cnt->evals.load() << "\n";
    std::cout << planner->tree() << "\n";
    std::cout << planner->pdf() << "\n";
    if (added)
    {
        auto path = pdef->getSolutionPath()->as<og::PathGeometric>();
        std::cout << "path n=" << path->getStateCount();
        for (auto *s : path->getStates())
        {
            std::vector<double> r;
            space->copyToReals(r, s);
            std::string stt;
            for (size_t k = 0; k < r.size(); ++k)
                stt += (k ? "," : "") + vp::bits(r[k]);
            std::cout << " " << stt;
        }
        std::cout << "\n";
    }
    else
        std::cout << "path none\n";
    std::cout << "next " << vp::bits(planner->nextDraw()) << "\n";
    return 0;
}
