// C04 second engine: lock-step of the Lean model of RRTstar::solve against the REAL
// ompl::geometric::RRTstar (default settings) from /repo.
//
// Header `rrtstarrun`; one op:
//   run <obj len|work> <env> <dim> <seed> <lseed> <budget> <solves> <f:goalthr> <thr def|inf|<f>>
//       [scripted <f:range> <f:goalbias> <f>*dim (start) <f>*dim (goal) <k> <f>*k (k/dim samples)]
//     scripted mode: the state sampler plays back the given samples (then falls back to the default
//     sampler), setRange/setGoalBias are applied, start and goal are the given states -- used for directed
//     inputs with EXACTLY cost-equal candidates (collinear dyadic points)
// The run is recorded and printed as a script for the model driver (`drv_rrtstar`), every script line
// prefixed by `S `, every line the real planner produced for it prefixed by `R `:
//   S rrtstar dim= obj= maxdist= krrt= gbias= gthr= thr= goal=        (header; after setup())
//   S start ..  / R ok n=1
//   per solve: S u01 .. (twin RNG draws) / S smp .. (recorded sampleUniform results) / S ans ..
//              (recorded checkMotion answers) / S begin, each followed by R ok;
//              per loop pass: S it / R <digest of the planner's state after that pass>;
//              S rep / R <the solution solve() registered>;  S tree / R <full tree dump>
// No hooks in /repo: RRTstarX derives from RRTstar (all members are protected); the sampler, the motion
// validator are recording wrappers; the planner's own rng_ is re-seeded with a known local seed and a
// twin RNG replays its uniform01() draws (goal bias) -- an assumption about the call order which the
// lock-step itself checks (one draw too many or too few desynchronises every later pass).
#include "common/proto.h"

#include <algorithm>
#include <atomic>
#include <cmath>
#include <limits>
#include <memory>
#include <unordered_map>

#include "ompl/base/ProblemDefinition.h"
#include "ompl/base/SpaceInformation.h"
#include "ompl/base/ScopedState.h"
#include "ompl/base/DiscreteMotionValidator.h"
#include "ompl/base/PlannerTerminationCondition.h"
#include "ompl/base/goals/GoalState.h"
#include "ompl/base/spaces/RealVectorStateSpace.h"
#include "ompl/base/objectives/PathLengthOptimizationObjective.h"
#include "ompl/base/objectives/MechanicalWorkOptimizationObjective.h"
#include "ompl/datastructures/NearestNeighborsLinear.h"
#include "ompl/geometric/PathGeometric.h"
#include "ompl/geometric/planners/rrt/RRTstar.h"
#include "ompl/util/Console.h"
#include "ompl/util/RandomNumbers.h"

namespace ob = ompl::base;
namespace og = ompl::geometric;
using RV = ob::RealVectorStateSpace::StateType;

static unsigned gDim = 2;

static std::string stateBits(const ob::State *s, const char *sep)
{
    std::string out;
    for (unsigned i = 0; i < gDim; ++i)
        out += (i ? sep : "") + vp::bits(s->as<RV>()->values[i]);
    return out;
}

static const uint64_t C1 = 0x9E3779B97F4A7C15ull, C2 = 0xBF58476D1CE4E5B9ull, C3 = 0x94D049BB133111EBull,
                      C4 = 0xD6E8FEB86659FD93ull, C5 = 0xA24BAED4963EE407ull, FNV = 0x100000001B3ull,
                      FNV0 = 0xCBF29CE484222325ull;

static uint64_t dbits(double d)
{
    uint64_t u;
    std::memcpy(&u, &d, 8);
    return u;
}
static uint64_t ptHash(uint64_t h, const ob::State *s)
{
    for (unsigned i = 0; i < gDim; ++i)
        h = (h ^ dbits(s->as<RV>()->values[i])) * FNV;
    return h;
}

// ---------------------------------------------------------------------------------- environment
struct Box
{
    std::vector<double> lo, hi;
};
static std::vector<Box> envBoxes(unsigned env, unsigned dim)
{
    auto box = [&](double x0, double x1, double y0, double y1) {
        Box b;
        b.lo.assign(dim, 0.0);
        b.hi.assign(dim, 1.0);
        b.lo[0] = x0;
        b.hi[0] = x1;
        b.lo[1] = y0;
        b.hi[1] = y1;
        return b;
    };
    std::vector<Box> out;
    switch (env)
    {
        case 0:
            break;
        case 1:
            out.push_back(box(0.35, 0.65, 0.35, 0.65));
            break;
        case 2:
            out.push_back(box(0.45, 0.55, 0.0, 0.7));
            break;
        case 3:
            out.push_back(box(0.3, 0.4, 0.0, 0.7));
            out.push_back(box(0.6, 0.7, 0.3, 1.0));
            break;
        case 5:  // sealed goal corner: approximate solutions only
            out.push_back(box(0.72, 0.8, 0.72, 1.0));
            out.push_back(box(0.72, 1.0, 0.72, 0.8));
            break;
        default:
            out.push_back(box(0.2, 0.35, 0.2, 0.35));
            out.push_back(box(0.5, 0.7, 0.15, 0.4));
            out.push_back(box(0.25, 0.5, 0.55, 0.75));
            out.push_back(box(0.65, 0.8, 0.6, 0.8));
            break;
    }
    return out;
}
struct Checker : ob::StateValidityChecker
{
    std::vector<Box> boxes;
    Checker(const ob::SpaceInformationPtr &si, std::vector<Box> b) : ob::StateValidityChecker(si), boxes(std::move(b)) {}
    bool isValid(const ob::State *s) const override
    {
        const double *v = s->as<RV>()->values;
        for (auto &b : boxes)
        {
            bool in = true;
            for (unsigned i = 0; i < gDim; ++i)
                if (v[i] < b.lo[i] || v[i] > b.hi[i])
                    in = false;
            if (in)
                return false;
        }
        return true;
    }
};

// ---------------------------------------------------------------------------------- recorders
struct Log
{
    std::vector<std::string> samples;                    // coordinates (bits), flat
    std::vector<int> answers;
    uint64_t qh = FNV0;                                  // hash of the queries since the last digest
    unsigned nq = 0;
};
static Log gLog;

struct RecMV : ob::MotionValidator
{
    ob::DiscreteMotionValidator inner;
    RecMV(const ob::SpaceInformationPtr &si) : ob::MotionValidator(si), inner(si) {}
    bool checkMotion(const ob::State *a, const ob::State *b) const override
    {
        bool v = inner.checkMotion(a, b);
        gLog.answers.push_back(v ? 1 : 0);
        gLog.qh = ptHash(ptHash(gLog.qh, a), b);
        ++gLog.nq;
        return v;
    }
    bool checkMotion(const ob::State *a, const ob::State *b, std::pair<ob::State *, double> &lv) const override
    {
        // not used by RRTstar; recorded the same way should that change
        bool v = inner.checkMotion(a, b, lv);
        gLog.answers.push_back(v ? 1 : 0);
        gLog.qh = ptHash(ptHash(gLog.qh, a), b);
        ++gLog.nq;
        return v;
    }
};

struct RecSampler : ob::StateSampler
{
    ob::StateSamplerPtr inner;
    RecSampler(const ob::StateSpace *sp, ob::StateSamplerPtr in) : ob::StateSampler(sp), inner(std::move(in)) {}
    void sampleUniform(ob::State *s) override
    {
        inner->sampleUniform(s);
        for (unsigned i = 0; i < gDim; ++i)
            gLog.samples.push_back(vp::bits(s->as<RV>()->values[i]));
    }
    void sampleUniformNear(ob::State *s, const ob::State *n, double d) override { inner->sampleUniformNear(s, n, d); }
    void sampleGaussian(ob::State *s, const ob::State *m, double d) override { inner->sampleGaussian(s, m, d); }
};

// plays back a scripted list of samples, then behaves like the default sampler (wrapped by RecSampler, so
// whatever it returns is recorded as usual)
static std::vector<double> gScripted;
static size_t gScriptedPos = 0;
struct ScriptSampler : ob::StateSampler
{
    ob::StateSamplerPtr inner;
    ScriptSampler(const ob::StateSpace *sp, ob::StateSamplerPtr in) : ob::StateSampler(sp), inner(std::move(in)) {}
    void sampleUniform(ob::State *s) override
    {
        if (gScriptedPos + gDim <= gScripted.size())
        {
            for (unsigned i = 0; i < gDim; ++i)
                s->as<RV>()->values[i] = gScripted[gScriptedPos + i];
            gScriptedPos += gDim;
        }
        else
            inner->sampleUniform(s);
    }
    void sampleUniformNear(ob::State *s, const ob::State *n, double d) override { inner->sampleUniformNear(s, n, d); }
    void sampleGaussian(ob::State *s, const ob::State *m, double d) override { inner->sampleGaussian(s, m, d); }
};

struct FieldWork : ob::MechanicalWorkOptimizationObjective
{
    FieldWork(const ob::SpaceInformationPtr &si) : ob::MechanicalWorkOptimizationObjective(si, 0.5) {}
    ob::Cost stateCost(const ob::State *s) const override
    {
        double x = s->as<RV>()->values[0];
        return ob::Cost(1.0 + x * x);
    }
};

// ---------------------------------------------------------------------------------- the planner, opened
struct RRTstarX : og::RRTstar
{
    RRTstarX(const ob::SpaceInformationPtr &si, std::uint_fast32_t lseed) : og::RRTstar(si) { rng_.setLocalSeed(lseed); }

    std::string digest(unsigned &prevN)
    {
        std::vector<Motion *> ms;
        nn_->list(ms);
        std::unordered_map<const Motion *, size_t> idx;
        for (size_t i = 0; i < ms.size(); ++i)
            idx[ms[i]] = i;
        uint64_t th = 0;
        for (size_t i = 0; i < ms.size(); ++i)
        {
            const Motion *m = ms[i];
            uint64_t ch = 7;
            for (auto *c : m->children)
                ch = ch * 31 + (uint64_t(idx.at(c)) + 1);
            uint64_t pc = m->parent ? uint64_t(idx.at(m->parent)) + 2 : 1;
            th += ((uint64_t(i) + 1) * C1) ^ (pc * C2) ^ (dbits(m->cost.value()) * C3) ^ (dbits(m->incCost.value()) * C4) ^ (ch * C5) ^
                  (m->inGoal ? 0x5555ull : 0ull);
        }
        bool added = ms.size() > prevN;
        std::string par = "-", cost = "-";
        if (added)
        {
            const Motion *m = ms.back();
            par = m->parent ? std::to_string(idx.at(m->parent)) : "-";
            cost = vp::bits(m->cost.value());
        }
        prevN = ms.size();
        bool brk = bestGoalMotion_ && opt_->isSatisfied(bestCost_);
        std::string s = "it=" + std::to_string(iterations_) + " n=" + std::to_string(ms.size()) + " par=" + par + " cost=" + cost +
                        " ng=" + std::to_string(goalMotions_.size()) + " bg=" +
                        (bestGoalMotion_ ? std::to_string(idx.at(bestGoalMotion_)) : std::string("-")) + " best=" + vp::bits(bestCost_.value()) +
                        " q=" + std::to_string(gLog.nq) + " qh=" + std::to_string(gLog.qh) + " th=" + std::to_string(th) + " brk=" + (brk ? "1" : "0") +
                        " tie=0 starved=0 fuel=0 cmx=0 stl=0";
        gLog.nq = 0;
        gLog.qh = FNV0;
        return s;
    }

    std::string tree()
    {
        std::vector<Motion *> ms;
        nn_->list(ms);
        std::unordered_map<const Motion *, size_t> idx;
        for (size_t i = 0; i < ms.size(); ++i)
            idx[ms[i]] = i;
        std::string out = "n=" + std::to_string(ms.size());
        for (size_t i = 0; i < ms.size(); ++i)
        {
            const Motion *m = ms[i];
            std::string ch;
            for (auto *c : m->children)
                ch += (ch.empty() ? "" : ",") + std::to_string(idx.at(c));
            if (ch.empty())
                ch = "-";
            out += " " + std::to_string(i) + ":" + (m->parent ? std::to_string(idx.at(m->parent)) : std::string("-")) + ":" +
                   vp::bits(m->cost.value()) + ":" + vp::bits(m->incCost.value()) + ":" + ch + ":" + (m->inGoal ? "1" : "0") + ":" +
                   stateBits(m->state, ",");
        }
        return out;
    }
    // tree edges that the (unrecorded) validator rejects in BOTH directions: "edges answered valid"
    std::string invalidEdges(const ob::DiscreteMotionValidator &mv)
    {
        std::vector<Motion *> ms;
        nn_->list(ms);
        size_t bad = 0, first = 0, edges = 0;
        for (size_t i = 0; i < ms.size(); ++i)
            if (ms[i]->parent)
            {
                ++edges;
                if (!mv.checkMotion(ms[i]->parent->state, ms[i]->state) && !mv.checkMotion(ms[i]->state, ms[i]->parent->state))
                {
                    if (!bad)
                        first = i;
                    ++bad;
                }
            }
        return "edges=" + std::to_string(edges) + " invalid=" + std::to_string(bad) + " first=" + std::to_string(first);
    }
    unsigned iters() const { return iterations_; }
    double maxDist() const { return maxDistance_; }
    double krrt() const { return k_rrt_; }
    double gbias() const { return goalBias_; }
};

static bool doRun(const std::vector<std::string> &t)
{
    if (t.size() < 10)
        return false;
    bool scripted = false;
    double sRange = 0, sBias = 0;
    std::vector<double> sStart, sGoal;
    gScripted.clear();
    gScriptedPos = 0;
    if (t.size() > 10)
    {
        auto d0 = vp::parseNat(t[3]);
        if (t[10] != "scripted" || !d0 || t.size() < 13 + 2 * *d0 + 1)
            return false;
        auto r = vp::parseBits(t[11]);
        auto gb = vp::parseBits(t[12]);
        if (!r || !gb)
            return false;
        sRange = *r;
        sBias = *gb;
        size_t pos = 13;
        for (size_t i = 0; i < 2 * *d0; ++i)
        {
            auto v = vp::parseBits(t[pos++]);
            if (!v)
                return false;
            (i < *d0 ? sStart : sGoal).push_back(*v);
        }
        auto xs = vp::takeCounted(t, pos);
        if (!xs || pos != t.size() || xs->size() % *d0 != 0)
            return false;
        for (auto &x : *xs)
        {
            auto v = vp::parseBits(x);
            if (!v)
                return false;
            gScripted.push_back(*v);
        }
        scripted = true;
    }
    // `len-classic` / `work-classic`: the same objective with setDelayCC(false) (the classic choose-parent loop)
    std::string kind = t[1];
    bool classic = false;
    if (kind.size() > 8 && kind.substr(kind.size() - 8) == "-classic")
    {
        classic = true;
        kind = kind.substr(0, kind.size() - 8);
    }
    auto env = vp::parseNat(t[2]);
    auto dim = vp::parseNat(t[3]);
    auto seed = vp::parseNat(t[4]);
    auto lseed = vp::parseNat(t[5]);
    auto budget = vp::parseNat(t[6]);
    auto solves = vp::parseNat(t[7]);
    auto gthr = vp::parseBits(t[8]);
    const std::string &thr = t[9];
    if (!env || !dim || !seed || !lseed || !budget || !solves || !gthr || *dim < 2 || *dim > 4 || *seed == 0 || *lseed == 0 ||
        (kind != "len" && kind != "work"))
        return false;
    std::optional<double> thrv;
    if (thr != "def" && thr != "inf")
    {
        thrv = vp::parseBits(thr);
        if (!thrv)
            return false;
    }
    gDim = (unsigned)*dim;
    gLog = Log();
    ompl::RNG::setSeed((std::uint_fast32_t)*seed);
    auto space = std::make_shared<ob::RealVectorStateSpace>(gDim);
    ob::RealVectorBounds b(gDim);
    b.setLow(0.0);
    b.setHigh(1.0);
    space->setBounds(b);
    space->setStateSamplerAllocator([](const ob::StateSpace *sp) -> ob::StateSamplerPtr {
        return std::make_shared<RecSampler>(sp, std::make_shared<ScriptSampler>(sp, sp->allocDefaultStateSampler()));
    });
    auto si = std::make_shared<ob::SpaceInformation>(space);
    si->setStateValidityChecker(std::make_shared<Checker>(si, envBoxes((unsigned)*env, gDim)));
    // the environment, for the model's own recomputation of every checkMotion answer
    std::string boxSpec;
    for (auto &bx : envBoxes((unsigned)*env, gDim))
    {
        boxSpec += boxSpec.empty() ? "" : "|";
        for (unsigned i = 0; i < gDim; ++i)
            boxSpec += std::string(i ? "," : "") + vp::bits(bx.lo[i]) + "," + vp::bits(bx.hi[i]);
    }
    if (boxSpec.empty())
        boxSpec = "-";
    auto recmv = std::make_shared<RecMV>(si);
    si->setMotionValidator(recmv);
    si->setup();
    ob::OptimizationObjectivePtr obj;
    if (kind == "len")
        obj = std::make_shared<ob::PathLengthOptimizationObjective>(si);
    else
        obj = std::make_shared<FieldWork>(si);
    if (thr == "inf")
        obj->setCostThreshold(obj->infiniteCost());
    else if (thrv)
        obj->setCostThreshold(ob::Cost(*thrv));
    auto pdef = std::make_shared<ob::ProblemDefinition>(si);
    ob::ScopedState<> start(si), goal(si);
    for (unsigned i = 0; i < gDim; ++i)
    {
        start[i] = scripted ? sStart[i] : 0.1;
        goal[i] = scripted ? sGoal[i] : 0.9;
    }
    pdef->setStartAndGoalStates(start, goal, *gthr);
    pdef->setOptimizationObjective(obj);
    auto planner = std::make_shared<RRTstarX>(si, (std::uint_fast32_t)*lseed);
    planner->setNearestNeighbors<ompl::NearestNeighborsLinear>();
    if (scripted)
    {
        planner->setRange(sRange);
        planner->setGoalBias(sBias);
    }
    if (classic)
        planner->setDelayCC(false);
    planner->setProblemDefinition(pdef);
    planner->setup();
    ompl::RNG twin((std::uint_fast32_t)*lseed);
    // setup() of a space of dimension > 2 samples states to infer the default projection's cell sizes:
    // only what the planner draws from here on is part of the script
    gLog = Log();
    gScriptedPos = 0;

    std::cout << "S rrtstar dim=" << gDim << " obj=" << kind << " maxdist=" << vp::bits(planner->maxDist()) << " krrt=" << vp::bits(planner->krrt())
              << " gbias=" << vp::bits(planner->gbias()) << " gthr=" << vp::bits(*gthr) << " thr=" << vp::bits(obj->getCostThreshold().value())
              << " goal=" << stateBits(goal.get(), ",") << " lvs=" << vp::bits(space->getLongestValidSegmentLength()) << " boxes=" << boxSpec << " dcc=" << (classic ? 0 : 1) << "\n";
    std::cout << "S start " << gDim << " " << stateBits(start.get(), " ") << "\nR ok n=1\n";

    unsigned prevN = 1;
    for (unsigned k = 0; k < *solves; ++k)
    {
        std::vector<std::string> digests;
        unsigned lastIter = planner->iters();
        unsigned long calls = 0, bud = *budget;
        size_t nsolBefore = pdef->getSolutionCount();
        ob::PlannerTerminationCondition ptc([&] {
            ++calls;
            if (planner->iters() > lastIter)
            {
                digests.push_back(planner->digest(prevN));
                lastIter = planner->iters();
            }
            return calls > bud;
        });
        ob::PlannerStatus st = planner->solve(ptc);
        if (planner->iters() > lastIter)
            digests.push_back(planner->digest(prevN));
        // the pools this solve consumed (u01: an upper bound -- what is left over is what the planner's RNG yields next)
        std::string u = "S u01 " + std::to_string(digests.size());
        for (size_t i = 0; i < digests.size(); ++i)
            u += " " + vp::bits(twin.uniform01());
        std::cout << u << "\nR ok\n";
        std::string s = "S smp " + std::to_string(gLog.samples.size());
        for (auto &x : gLog.samples)
            s += " " + x;
        std::cout << s << "\nR ok\n";
        std::string a = "S ans " + std::to_string(gLog.answers.size());
        for (int x : gLog.answers)
            a += x ? " 1" : " 0";
        std::cout << a << "\nR ok\n";
        gLog.samples.clear();
        gLog.answers.clear();
        std::cout << "S begin\nR ok\n";
        for (auto &d : digests)
            std::cout << "S it\nR " << d << "\n";
        std::cout << "S rep\n";
        if (pdef->getSolutionCount() == nsolBefore)
            std::cout << "R rep none\n";
        else
        {
            ob::PlannerSolution ps(nullptr);
            for (auto &x : pdef->getSolutions())
                if (x.index_ == (int)nsolBefore)
                    ps = x;
            auto *pg = dynamic_cast<og::PathGeometric *>(ps.path_.get());
            uint64_t ph = FNV0;
            for (size_t i = 0; pg && i < pg->getStateCount(); ++i)
                ph = ptHash(ph, pg->getState(i));
            ob::Cost tc = pg ? pg->cost(obj) : ob::Cost(std::numeric_limits<double>::quiet_NaN());
            std::cout << "R rep approx=" << (ps.approximate_ ? 1 : 0) << " diff=" << (ps.approximate_ ? vp::bits(ps.difference_) : std::string("-"))
                      << " stored=" << vp::bits(ps.cost_.value()) << " opt=" << (ps.optimized_ ? 1 : 0) << " plen=" << (pg ? pg->getStateCount() : 0)
                      << " ph=" << ph << " true=" << vp::bits(tc.value()) << "\n";
        }
        std::cout << "S tree\nR " << planner->tree() << "\n";
        std::cout << "I " << planner->invalidEdges(recmv->inner) << "\n";
        std::cout << "I solve=" << k << " status=" << st.asString() << " calls=" << calls << " passes=" << digests.size() << "\n";
    }
    return true;
}

int main()
{
    ompl::msg::setLogLevel(ompl::msg::LOG_NONE);
    std::string line;
    if (!vp::readLine(line))
        return 2;
    auto hdr = vp::tokens(line);
    if (!(hdr.size() == 1 && hdr[0] == "rrtstarrun"))
    {
        std::cout << "bad-header\n";
        return 2;
    }
    while (vp::readLine(line))
    {
        auto t = vp::tokens(line);
        if (t.empty())
            continue;
        if (t[0] == "run")
        {
            if (!doRun(t))
                std::cout << "bad-op\n";
        }
        else if (t[0] == "sorttest")
        {
            // self-test of the model's std::sort port: indices 0..k-1 sorted by integer key, exactly as
            // RRTstar sorts sortedCostIndices with CostIndexCompare
            size_t i = 1;
            auto xs = vp::takeCounted(t, i);
            bool ok = xs && i == t.size();
            std::vector<long long> keys;
            if (ok)
                for (auto &x : *xs)
                {
                    auto v = vp::parseInt(x);
                    if (!v) { ok = false; break; }
                    keys.push_back(*v);
                }
            if (!ok) { std::cout << "bad-op\n"; continue; }
            std::vector<std::size_t> idx(keys.size());
            for (size_t j = 0; j < idx.size(); ++j)
                idx[j] = j;
            std::sort(idx.begin(), idx.end(), [&](std::size_t a, std::size_t b) { return keys[a] < keys[b]; });
            std::string out = "sorted";
            for (auto j : idx)
                out += " " + std::to_string(j);
            std::cout << out << "\n";
        }
        else
            std::cout << "bad-op\n";
    }
    return 0;
}
