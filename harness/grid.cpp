// C13 harness: drives the real ompl::GridB<int, CmpE, CmpI> (hence GridN and Grid) from /repo/src through
// the line protocol documented in lean/OmplModel/Driver/Grid.lean.
// `private`/`protected` are opened for this translation unit only (harness side, no source hook) to read
// GridB::internal_/external_ and BinaryHeap::vector_; every operation goes through the public API.
// Cells are numbered in order of creation on both sides.  The user protocol of KPIECE's Discretization is
// followed: createCell only for an absent coordinate, data set, then add; remove only for a present cell,
// then destroyCell; data changes only right before update()/updateAll() or inside the update event.
// Split protocol (round 10): `create` = createCell(x, &nbh) + data WITHOUT add (one such cell at a time), `addc` =
// add(pending), `abandon` = remove(pending) (its bool) + destroyCell(pending); while a cell is pending `new`, `rm`,
// `rmtop*`, `clear` answer `busy` (they would leave the pending cell's own counter stale).
#include "common/proto.h"
#include <Eigen/Core>
#include <algorithm>
#include <cassert>
#include <functional>
#include <map>
#include <unordered_map>
#include <vector>
#define private public
#define protected public
#include "ompl/datastructures/GridB.h"
#undef private
#undef protected

static int g_cmp[2] = {0, 0};  // 0 less, 1 greater, 2 div4, 3 mod16
static int g_ev = 0;           // 0 none, 1 lo, 2 hi

template <int W>
struct Cmp
{
    bool operator()(int a, int b) const
    {
        switch (g_cmp[W])
        {
            case 0: return a < b;
            case 1: return a > b;
            case 2: return a / 4 < b / 4;
            default: return a % 16 < b % 16;
        }
    }
};

using G = ompl::GridB<int, Cmp<0>, Cmp<1>>;
using Cell = G::Cell;
using Coord = G::Coord;

static void onUpdate(Cell *c, void *)
{
    unsigned int nb = std::min<unsigned int>(c->neighbors, 15u);
    if (g_ev == 1)
        c->data = (c->data / 16) * 16 + (int)nb;
    else if (g_ev == 2)
        c->data = (int)nb * 4096 + c->data % 4096;
}

static std::map<const void *, long> idOf;
static long nextId = 0;

static std::string idStr(const void *c)
{
    auto it = idOf.find(c);
    return it == idOf.end() ? std::string("?") : std::to_string(it->second);
}

static std::string joinC(const std::vector<std::string> &v)
{
    if (v.empty())
        return "-";
    std::string s;
    for (size_t i = 0; i < v.size(); ++i)
        s += (i ? "," : "") + v[i];
    return s;
}

static Cell *g_pending = nullptr;

static std::string dump(G &g, unsigned dim)
{
    std::vector<Cell *> cells;
    g.getCells(cells);
    std::sort(cells.begin(), cells.end(), [](Cell *a, Cell *b) { return idOf.at(a) < idOf.at(b); });
    std::string s = "n=" + std::to_string(g.size());
    for (Cell *c : cells)
    {
        std::vector<std::string> xs, ns;
        for (unsigned i = 0; i < dim; ++i)
            xs.push_back(std::to_string(c->coord[i]));
        G::CellArray nb;
        g.neighbors(c, nb);
        for (Cell *n : nb)
            ns.push_back(idStr(n));
        s += " " + idStr(c) + ":" + joinC(xs) + ":" + std::to_string(c->neighbors) + ":" + (c->border ? "1" : "0") + ":" +
             std::to_string(c->data) + ":" + joinC(ns);
    }
    std::vector<std::string> hi, he;
    for (auto *e : g.internal_.vector_)
        hi.push_back(idStr(static_cast<Cell *>(e->data)));
    for (auto *e : g.external_.vector_)
        he.push_back(idStr(static_cast<Cell *>(e->data)));
    s += " | I=" + joinC(hi) + " E=" + joinC(he) + " ci=" + std::to_string(g.countInternal()) +
         " ce=" + std::to_string(g.countExternal());
    auto comps = g.components();
    std::vector<std::string> sizes;
    std::vector<std::vector<long>> canon;
    for (auto &c : comps)
    {
        sizes.push_back(std::to_string(c.size()));
        std::vector<long> ids;
        for (auto *x : c)
        {
            auto it = idOf.find(x);
            ids.push_back(it == idOf.end() ? -1 : it->second);
        }
        std::sort(ids.begin(), ids.end());
        canon.push_back(ids);
    }
    std::sort(canon.begin(), canon.end(), [](const std::vector<long> &a, const std::vector<long> &b) {
        if (a.size() != b.size())
            return a.size() > b.size();
        return a < b;
    });
    std::string cs;
    for (size_t i = 0; i < canon.size(); ++i)
    {
        if (i)
            cs += ";";
        for (size_t j = 0; j < canon[i].size(); ++j)
            cs += (j ? "," : "") + std::to_string(canon[i][j]);
    }
    s += " | sizes=" + joinC(sizes) + " comps=" + (canon.empty() ? std::string("-") : cs);
    if (g_pending)
    {
        std::vector<std::string> xs;
        for (unsigned i = 0; i < dim; ++i)
            xs.push_back(std::to_string(g_pending->coord[i]));
        s += " | P=" + idStr(g_pending) + ":" + joinC(xs) + ":" + std::to_string(g_pending->neighbors) + ":" +
             (g_pending->border ? "1" : "0") + ":" + std::to_string(g_pending->data);
    }
    else
        s += " | P=-";
    return s;
}

static bool kv(const std::string &t, const std::string &pre, std::string &out)
{
    if (t.compare(0, pre.size(), pre) != 0)
        return false;
    out = t.substr(pre.size());
    return true;
}

static int cmpOf(const std::string &s)
{
    if (s == "less") return 0;
    if (s == "greater") return 1;
    if (s == "div4") return 2;
    if (s == "mod16") return 3;
    return -1;
}

// d coordinates starting at t[i]; advances i
static bool coordAt(const std::vector<std::string> &t, size_t &i, unsigned dim, Coord &x)
{
    if (i + dim > t.size())
        return false;
    x.resize(dim);
    for (unsigned k = 0; k < dim; ++k)
    {
        auto v = vp::parseInt(t[i + k]);
        if (!v || *v < -2000000000LL || *v > 2000000000LL)
            return false;
        x[k] = (int)*v;
    }
    i += dim;
    return true;
}

int main()
{
    std::string line;
    if (!vp::readLine(line))
        return 2;
    auto h = vp::tokens(line);
    unsigned dim = 0, limit = 0;
    bool ok = h.size() >= 7 && h[0] == "grid";
    std::string v;
    bool hasBounds = false;
    Coord lo, up;
    if (ok)
    {
        ok = kv(h[1], "dim=", v) && vp::parseNat(v);
        if (ok) dim = (unsigned)*vp::parseNat(v);
        ok = ok && dim >= 1 && dim <= 8;
    }
    if (ok)
    {
        ok = kv(h[2], "limit=", v);
        if (ok && v == "default") limit = 2 * dim;
        else if (ok && vp::parseNat(v)) limit = (unsigned)*vp::parseNat(v);
        else ok = false;
        ok = ok && limit >= 1;
    }
    if (ok) { ok = kv(h[3], "cmpe=", v) && (g_cmp[0] = cmpOf(v)) >= 0; }
    if (ok) { ok = kv(h[4], "cmpi=", v) && (g_cmp[1] = cmpOf(v)) >= 0; }
    if (ok)
    {
        ok = kv(h[5], "ev=", v);
        if (ok && v == "none") g_ev = 0;
        else if (ok && v == "lo") g_ev = 1;
        else if (ok && v == "hi") g_ev = 2;
        else ok = false;
    }
    if (ok)
    {
        if (h[6] == "nobounds")
            ok = h.size() == 7;
        else if (h[6] == "bounds" && h.size() == 7 + 2 * (size_t)dim)
        {
            size_t i = 7;
            ok = coordAt(h, i, dim, lo) && coordAt(h, i, dim, up);
            hasBounds = ok;
        }
        else
            ok = false;
    }
    if (!ok)
    {
        std::cout << "bad-header\n";
        return 2;
    }
    G grid(dim);
    if (h[2] != "limit=default")
        grid.setInteriorCellNeighborLimit(limit);
    if (hasBounds)
        grid.setBounds(lo, up);
    grid.onCellUpdate(onUpdate, nullptr);

    auto fin = [&](const std::string &res) { std::cout << res << " | " << dump(grid, dim) << std::endl; };

    while (vp::readLine(line))
    {
        auto t = vp::tokens(line);
        if (t.empty())
            continue;
        const std::string &op = t[0];
        size_t i = 1;
        Coord x;
        if (op == "new")
        {
            if (!coordAt(t, i, dim, x) || i + 1 != t.size() || !vp::parseInt(t[i])) { std::cout << "bad-op\n"; continue; }
            long long d = *vp::parseInt(t[i]);
            if (g_pending) { fin("busy"); continue; }
            if (grid.has(x)) { fin("present"); continue; }
            Cell *c = grid.createCell(x);
            idOf[c] = nextId++;
            c->data = (int)d;
            grid.add(c);
            fin("c=" + idStr(c));
        }
        else if (op == "rm")
        {
            if (!coordAt(t, i, dim, x) || i != t.size()) { std::cout << "bad-op\n"; continue; }
            if (g_pending) { fin("busy"); continue; }
            Cell *c = grid.getCell(x);
            if (!c) { fin("absent"); continue; }
            bool r = grid.remove(c);
            idOf.erase(c);
            grid.destroyCell(c);
            fin(r ? "true" : "false");
        }
        else if (op == "upd")
        {
            if (!coordAt(t, i, dim, x) || i + 1 != t.size() || !vp::parseInt(t[i])) { std::cout << "bad-op\n"; continue; }
            Cell *c = grid.getCell(x);
            if (!c) { fin("absent"); continue; }
            c->data = (int)*vp::parseInt(t[i]);
            grid.update(c);
            fin("ok");
        }
        else if (op == "updall")
        {
            bool good = t.size() >= 2 && vp::parseNat(t[1]);
            std::vector<std::pair<Coord, int>> chg;
            if (good)
            {
                size_t k = *vp::parseNat(t[1]);
                i = 2;
                for (size_t j = 0; j < k && good; ++j)
                {
                    Coord y;
                    if (!coordAt(t, i, dim, y) || i >= t.size() || !vp::parseInt(t[i])) { good = false; break; }
                    chg.emplace_back(y, (int)*vp::parseInt(t[i]));
                    ++i;
                }
                good = good && i == t.size();
            }
            if (!good) { std::cout << "bad-op\n"; continue; }
            for (auto &p : chg)
            {
                Cell *c = grid.getCell(p.first);
                if (c)
                    c->data = p.second;
            }
            grid.updateAll();
            fin("ok");
        }
        else if (op == "has")
        {
            if (!coordAt(t, i, dim, x) || i != t.size()) { std::cout << "bad-op\n"; continue; }
            bool hs = grid.has(x);
            Cell *c = grid.getCell(x);
            if (hs != (c != nullptr)) { fin("has/getCell-disagree"); continue; }
            fin(c ? "1 c=" + idStr(c) : std::string("0"));
        }
        else if (op == "nb")
        {
            if (!coordAt(t, i, dim, x) || i != t.size()) { std::cout << "bad-op\n"; continue; }
            G::CellArray nb;
            const Coord &cx = x;
            grid.neighbors(cx, nb);
            std::string s = std::to_string(nb.size());
            for (Cell *n : nb)
                s += " " + idStr(n);
            fin(s);
        }
        else if ((op == "topi" || op == "tope") && t.size() == 1)
        {
            // top of an empty grid is outside the contract (there is no cell to return): not called
            if (grid.size() == 0) { fin("none"); continue; }
            Cell *c = op == "topi" ? grid.topInternal() : grid.topExternal();
            fin(c ? idStr(c) : std::string("none"));
        }
        else if ((op == "rmtopi" || op == "rmtope") && t.size() == 1)
        {
            if (g_pending) { fin("busy"); continue; }
            if (grid.size() == 0) { fin("none"); continue; }
            Cell *c = op == "rmtopi" ? grid.topInternal() : grid.topExternal();
            if (!c) { fin("none"); continue; }
            std::string id = idStr(c);
            grid.remove(c);
            idOf.erase(c);
            grid.destroyCell(c);
            fin("c=" + id);
        }
        else if (op == "create")
        {
            if (!coordAt(t, i, dim, x) || i + 1 != t.size() || !vp::parseInt(t[i])) { std::cout << "bad-op\n"; continue; }
            long long d = *vp::parseInt(t[i]);
            if (g_pending) { fin("busy"); continue; }
            if (grid.has(x)) { fin("present"); continue; }
            G::CellArray nbh;
            Cell *c = grid.createCell(x, &nbh);   // the overload that hands the future neighbours back
            idOf[c] = nextId++;
            c->data = (int)d;
            g_pending = c;
            std::vector<std::string> ns;
            for (Cell *n : nbh)
                ns.push_back(idStr(n));
            fin("c=" + idStr(c) + " nbh=" + joinC(ns));
        }
        else if (op == "addc" && t.size() == 1)
        {
            if (!g_pending) { fin("nopending"); continue; }
            Cell *c = g_pending;
            g_pending = nullptr;
            grid.add(c);
            fin("ok");
        }
        else if (op == "abandon" && t.size() == 1)
        {
            if (!g_pending) { fin("nopending"); continue; }
            Cell *c = g_pending;
            g_pending = nullptr;
            bool r = grid.remove(c);   // "If the cell has not been added to the grid, only update the neighbor list"
            idOf.erase(c);
            grid.destroyCell(c);
            fin(r ? "true" : "false");
        }
        else if (op == "clear" && t.size() == 1)
        {
            if (g_pending) { fin("busy"); continue; }
            grid.clear();
            idOf.clear();
            fin("ok");
        }
        else
            std::cout << "bad-op\n";
    }
    if (g_pending)   // end of script inside the window: give the cell back (no output)
    {
        grid.remove(g_pending);
        grid.destroyCell(g_pending);
    }
    return 0;
}
