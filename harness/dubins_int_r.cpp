// part of the C14 per-formula harness: ReedsSheppStateSpace.cpp is included here so that the functions of its
// anonymous namespace are reachable (harness side; no hook in /repo).  No NDEBUG: its asserts are active.
#include "ompl/base/spaces/src/ReedsSheppStateSpace.cpp"
// shared declarations (kept textually identical in dubins_int.cpp, dubins_int_d.cpp, dubins_int_r.cpp)
namespace dint
{
    struct DPath { int word; double t, p, q, len; };
    struct RPath { int type[5]; double l[5]; double len; };
    DPath dword(int w, double d, double a, double b);
    DPath dexh(double d, double a, double b);
    DPath dcls(double d, double a, double b);
    bool dclsSafe(double a, double b);
    int dquad(double a);
    bool dlong(double d, double a, double b);
    void dsw(double d, double a, double b, double *o);
    double dm2p(double x);
    bool rsbase(int name, double x, double y, double phi, double &t, double &u, double &v);
    RPath rsfam(int fam, double x, double y, double phi);
    void tauomega(double u, double v, double xi, double eta, double phi, double &tau, double &omega);
    double rsm2p(double x);
}

namespace dint
{
    bool rsbase(int name, double x, double y, double phi, double &t, double &u, double &v)
    {
        switch (name)
        {
            case 0: return LpSpLp(x, y, phi, t, u, v);
            case 1: return LpSpRp(x, y, phi, t, u, v);
            case 2: return LpRmL(x, y, phi, t, u, v);
            case 3: return LpRupLumRm(x, y, phi, t, u, v);
            case 4: return LpRumLumRp(x, y, phi, t, u, v);
            case 5: return LpRmSmLm(x, y, phi, t, u, v);
            case 6: return LpRmSmRm(x, y, phi, t, u, v);
            default: return LpRmSLmRp(x, y, phi, t, u, v);
        }
    }
    RPath rsfam(int fam, double x, double y, double phi)
    {
        ReedsSheppStateSpace::ReedsSheppPath path;
        switch (fam)
        {
            case 0: CSC(x, y, phi, path); break;
            case 1: CCC(x, y, phi, path); break;
            case 2: CCCC(x, y, phi, path); break;
            case 3: CCSC(x, y, phi, path); break;
            default: CCSCC(x, y, phi, path); break;
        }
        RPath r;
        for (int i = 0; i < 5; ++i)
        {
            r.type[i] = static_cast<int>(path.type_[i]);
            r.l[i] = path.length_[i];
        }
        r.len = path.length();
        return r;
    }
    void tauomega(double u, double v, double xi, double eta, double phi, double &tau, double &omega)
    {
        tauOmega(u, v, xi, eta, phi, tau, omega);
    }
    double rsm2p(double x) { return mod2pi(x); }
}
