// C19 harness, second binary: a REAL pRRT run recorded at lock granularity, for replay on the Lean interleaving model
// (lean/OmplModel/Driver/Conc.lean, drv_conc).  No hooks in /repo: the planner's three collaborators are user-suppliable
// objects and each records what it is asked, on the thread that asks:
//
//   * the nearest-neighbour structure (pRRT::setNearestNeighbors<RecNN>): a NearestNeighborsGNAT whose add()/nearest() also
//     append to the log.  pRRT calls both only while holding nnLock_, so the log has them in the order the lock was taken;
//   * the motion validator (a DiscreteMotionValidator whose checkMotion(s1, s2) also logs arguments and answer);
//   * the goal (a GoalState whose isSatisfied(st, &dist) also logs state, distance and answer).
//
//   header:  conctrace <seed>
//   prrt <threads> <budget> <perturb_permille> <resolution> <threshold> <range|0> <goal_bias> <gate> <space> <boxes> <start> <goal>
//        gate = number of goal tests (counted over all workers) that end in a pairwise rendezvous: a worker leaving
//        isSatisfied() waits (bounded spin, no deadlock) for another worker to arrive there and both are released together,
//        so that two solution updates start within nanoseconds of each other - the directed schedule for the
//        check-then-act window `if (dist < sol->approxdif) { lock; if (dist < sol->approxdif) ...` of threadSolve
//
//   prrtrace <rounds> <workers>
//        directed schedule for the window between the unlocked pre-check `if (dist < sol->approxdif)` and `sol->lock.lock()`
//        in threadSolve (no user code runs there, so it cannot be held open from a callback): a class derived from pRRT
//        runs solve()'s prologue itself and calls the REAL protected threadSolve(tid, ptc, &sol) on <workers> threads with
//        a SolutionInfo the harness owns, whose lock the main thread holds while every worker does exactly one iteration:
//        all of them pass the pre-check against +infinity (they leave the goal test together, barrier) and queue on the
//        lock; the main thread then releases it.  Whatever the order in which they get the lock, approxdif/approxsol
//        must end as the closest of the added states.  Output: one line
//        `prrtrace rounds= synced= wrong= first_wrong=<round>:<dists…>-><final>`
//
// output (doubles as u64 bit patterns):
//   prrt <dim> <maxDistance> <threshold> <goal…> <root…>       header line for the driver
//   N t x… r… | C t a… b… v | A t c… p… | G t c… d s           events (t = worker index in order of first appearance)
//   E a d n path… | E none                                     what solve() reported through the problem definition
//   Z status=… threads=… iterations=… workers_seen=…           summary (not part of the replay)
#include "common/planning.h"
#include <ompl/base/DiscreteMotionValidator.h>
#include <ompl/base/goals/GoalState.h>
#include <ompl/base/spaces/RealVectorStateSpace.h>
#include <cmath>
#include <ompl/datastructures/NearestNeighborsGNAT.h>
#include <ompl/geometric/planners/rrt/pRRT.h>
#include <atomic>
#include <map>
#include <mutex>
#include <sched.h>
#include <thread>
#include <unistd.h>

namespace ob = ompl::base;
namespace og = ompl::geometric;
using vp::needF;
using vp::needN;

namespace
{
    struct Log
    {
        std::mutex m;
        std::vector<std::string> lines;
        std::map<std::thread::id, unsigned> ids;
        std::thread::id mainThread;
        ob::StateSpacePtr space;

        // index of the calling worker (first appearance), or -1 for the thread that runs solve()
        int who()
        {
            auto me = std::this_thread::get_id();
            if (me == mainThread)
                return -1;
            auto it = ids.find(me);
            if (it == ids.end())
                it = ids.emplace(me, static_cast<unsigned>(ids.size())).first;
            return static_cast<int>(it->second);
        }
        std::string st(const ob::State *s) const
        {
            return vp::showReals(vp::realsOf(space, s));
        }
    };
    Log *gLog = nullptr;

    // pairwise rendezvous (see header comment): 0 = nobody waiting, 1 = one worker waiting, 2 = its partner has arrived
    std::atomic<int> gSlot{0};
    std::atomic<long> gGate{0};
    std::atomic<unsigned long> gPaired{0};
    void rendezvous()
    {
        if (gGate.fetch_sub(1, std::memory_order_relaxed) <= 0)
            return;
        int expected = 0;
        if (gSlot.compare_exchange_strong(expected, 1))
        {
            for (unsigned spins = 0; spins < 40000; ++spins)
            {
                if (gSlot.load(std::memory_order_acquire) == 2)
                {
                    gSlot.store(0, std::memory_order_release);
                    gPaired.fetch_add(1, std::memory_order_relaxed);
                    return;
                }
                if (spins % 512 == 511)
                    sched_yield();
            }
            expected = 1;
            if (!gSlot.compare_exchange_strong(expected, 0))
            {
                gSlot.store(0, std::memory_order_release);  // the partner arrived at the last moment
                gPaired.fetch_add(1, std::memory_order_relaxed);
            }
        }
        else if (expected == 1)
        {
            // release the waiting worker (if somebody else was faster, go alone) and leave together with it: wait for its
            // acknowledgement (it resets the slot the moment it sees us), bounded
            if (gSlot.compare_exchange_strong(expected, 2))
                for (unsigned spins = 0; spins < 200000 && gSlot.load(std::memory_order_acquire) == 2; ++spins)
                    if (spins % 4096 == 4095)
                        sched_yield();
        }
    }

    template <typename T>
    class RecNN : public ompl::NearestNeighborsGNAT<T>
    {
    public:
        void add(const T &data) override
        {
            ompl::NearestNeighborsGNAT<T>::add(data);
            std::lock_guard<std::mutex> g(gLog->m);
            int t = gLog->who();
            if (t >= 0)
                gLog->lines.push_back("A " + std::to_string(t) + " " + gLog->st(data->state) + " " +
                                      (data->parent ? gLog->st(data->parent->state) : std::string("none")));
        }
        T nearest(const T &data) const override
        {
            T r = ompl::NearestNeighborsGNAT<T>::nearest(data);
            std::lock_guard<std::mutex> g(gLog->m);
            int t = gLog->who();
            if (t >= 0)
                gLog->lines.push_back("N " + std::to_string(t) + " " + gLog->st(data->state) + " " + gLog->st(r->state));
            return r;
        }
    };

    class RecMV : public ob::DiscreteMotionValidator
    {
    public:
        using ob::DiscreteMotionValidator::DiscreteMotionValidator;
        bool checkMotion(const ob::State *s1, const ob::State *s2) const override
        {
            bool v = ob::DiscreteMotionValidator::checkMotion(s1, s2);
            std::lock_guard<std::mutex> g(gLog->m);
            int t = gLog->who();
            if (t >= 0)
                gLog->lines.push_back("C " + std::to_string(t) + " " + gLog->st(s1) + " " + gLog->st(s2) + " " + (v ? "1" : "0"));
            return v;
        }
        bool checkMotion(const ob::State *s1, const ob::State *s2, std::pair<ob::State *, double> &lastValid) const override
        {
            return ob::DiscreteMotionValidator::checkMotion(s1, s2, lastValid);
        }
    };

    class RecGoal : public ob::GoalState
    {
    public:
        using ob::GoalState::GoalState;
        bool isSatisfied(const ob::State *st) const override
        {
            return ob::GoalState::isSatisfied(st);
        }
        bool isSatisfied(const ob::State *st, double *distance) const override
        {
            double d = 0.0;
            bool s = ob::GoalState::isSatisfied(st, &d);
            if (distance != nullptr)
                *distance = d;
            int t;
            {
                std::lock_guard<std::mutex> g(gLog->m);
                t = gLog->who();
                if (t >= 0)
                    gLog->lines.push_back("G " + std::to_string(t) + " " + gLog->st(st) + " " + vp::bits(d) + " " + (s ? "1" : "0"));
            }
            if (t >= 0)
                rendezvous();
            return s;
        }
    };

    struct XorShift
    {
        uint64_t s;
        explicit XorShift(uint64_t seed) : s(seed * 0x9E3779B97F4A7C15ull + 0x1234567ull)
        {
            if (s == 0)
                s = 88172645463325252ull;
            next();
            next();
        }
        uint64_t next()
        {
            s ^= s << 13;
            s ^= s >> 7;
            s ^= s << 17;
            return s;
        }
    };

    class PerturbChecker : public ob::StateValidityChecker
    {
    public:
        PerturbChecker(const ob::SpaceInformationPtr &si, vp::Env env, unsigned permille, uint64_t seed)
          : ob::StateValidityChecker(si), env_(std::move(env)), permille_(permille), seed_(seed)
        {
        }
        bool isValid(const ob::State *state) const override
        {
            if (permille_)
            {
                thread_local XorShift r(seed_ ^ std::hash<std::thread::id>()(std::this_thread::get_id()));
                uint64_t x = r.next();
                if (x % 1000 < permille_)
                {
                    if ((x >> 20) & 1)
                        sched_yield();
                    else
                        usleep(1 + ((x >> 24) % 40));
                }
            }
            std::vector<double> r;
            si_->getStateSpace()->copyToReals(r, state);
            return si_->satisfiesBounds(state) && !env_.collides(r);
        }

    private:
        vp::Env env_;
        unsigned permille_;
        uint64_t seed_;
    };

    // ---------------------------------------------------------------- directed: approximate-solution update
    struct Gate
    {
        unsigned workers = 0;
        std::atomic<unsigned> arrived{0};
        std::mutex m;
        std::vector<double> dists;
    };

    class GateGoal : public ob::GoalState
    {
    public:
        GateGoal(const ob::SpaceInformationPtr &si, Gate *g) : ob::GoalState(si), gate_(g)
        {
        }
        bool isSatisfied(const ob::State *st) const override
        {
            return ob::GoalState::isSatisfied(st);
        }
        bool isSatisfied(const ob::State *st, double *distance) const override
        {
            double d = 0.0;
            bool s = ob::GoalState::isSatisfied(st, &d);
            if (distance != nullptr)
                *distance = d;
            if (std::this_thread::get_id() != main_)
            {
                {
                    std::lock_guard<std::mutex> g(gate_->m);
                    gate_->dists.push_back(d);
                }
                gate_->arrived.fetch_add(1, std::memory_order_acq_rel);
                // leave together (bounded: ~50 ms)
                for (unsigned spins = 0; gate_->arrived.load(std::memory_order_acquire) < gate_->workers && spins < 50000; ++spins)
                    if (spins % 64 == 63)
                        usleep(1);
            }
            return s;
        }
        std::thread::id main_ = std::this_thread::get_id();

    private:
        Gate *gate_;
    };

    class DirectedPRRT : public og::pRRT
    {
    public:
        using og::pRRT::pRRT;
        // solve()'s prologue, then the real threadSolve on every worker with OUR SolutionInfo; returns (approxdif, reals of approxsol)
        std::pair<double, std::vector<double>> race(Gate &gate, bool &synced)
        {
            checkValidity();
            samplerArray_.resize(threadCount_);
            while (const ob::State *st = pis_.nextStart())
            {
                auto *motion = new Motion(si_);
                si_->copyState(motion->state, st);
                nn_->add(motion);
            }
            SolutionInfo sol;
            sol.solution = nullptr;
            sol.approxsol = nullptr;
            sol.approxdif = std::numeric_limits<double>::infinity();
            // every worker gets exactly one iteration
            ob::PlannerTerminationCondition ptc([] {
                thread_local bool asked = false;
                bool r = asked;
                asked = true;
                return r;
            });
            sol.lock.lock();
            std::vector<std::thread> th;
            for (unsigned i = 0; i < threadCount_; ++i)
                th.emplace_back([this, i, &ptc, &sol] { threadSolve(i, ptc, &sol); });
            for (unsigned spins = 0; gate.arrived.load(std::memory_order_acquire) < gate.workers && spins < 100000; ++spins)
                usleep(1);
            synced = gate.arrived.load() >= gate.workers;
            usleep(1500);  // let them run from the goal test into the lock (nothing depends on this being enough)
            sol.lock.unlock();
            for (auto &x : th)
                x.join();
            std::vector<double> r;
            if (sol.approxsol != nullptr)
                si_->getStateSpace()->copyToReals(r, sol.approxsol->state);
            return {sol.approxdif, r};
        }
    };

    std::string opPrrtRace(const std::vector<std::string> &t)
    {
        size_t i = 1;
        unsigned rounds = needN(t, i), workers = needN(t, i);
        if (i != t.size() || workers < 2 || workers > 16)
            throw vp::ParseError("prrtrace");
        unsigned syncedRounds = 0, wrong = 0;
        std::string firstWrong = "none";
        for (unsigned r = 0; r < rounds; ++r)
        {
            auto space = std::make_shared<ob::RealVectorStateSpace>(2);
            space->setBounds(0.0, 1.0);
            auto si = std::make_shared<ob::SpaceInformation>(space);
            si->setStateValidityChecker([](const ob::State *) { return true; });
            si->setup();
            Gate gate;
            gate.workers = workers;
            auto pdef = std::make_shared<ob::ProblemDefinition>(si);
            ob::ScopedState<> s(space), g(space);
            s[0] = 0.5;
            s[1] = 0.5;
            g[0] = 0.9;
            g[1] = 0.9;
            pdef->addStartState(s);
            auto gs = std::make_shared<GateGoal>(si, &gate);
            gs->setState(g);
            gs->setThreshold(0.0);  // never satisfied: every update is an approximate-solution update
            pdef->setGoal(gs);
            auto p = std::make_shared<DirectedPRRT>(si);
            p->setThreadCount(workers);
            p->setGoalBias(0.0);
            p->setRange(3.0);  // no steering: the added state is the sample, all distances differ
            p->setProblemDefinition(pdef);
            p->setup();
            bool synced = false;
            auto res = p->race(gate, synced);
            syncedRounds += synced ? 1 : 0;
            double best = std::numeric_limits<double>::infinity();
            for (double d : gate.dists)
                best = std::min(best, d);
            bool ok = gate.dists.size() == workers && res.first == best && !res.second.empty() &&
                      std::sqrt((res.second[0] - 0.9) * (res.second[0] - 0.9) + (res.second[1] - 0.9) * (res.second[1] - 0.9)) == best;
            if (!ok)
            {
                if (wrong++ == 0)
                {
                    firstWrong = std::to_string(r) + ":";
                    for (double d : gate.dists)
                        firstWrong += vp::bits(d) + ",";
                    firstWrong += "->" + vp::bits(res.first);
                }
            }
            p->clear();
        }
        return "prrtrace rounds=" + std::to_string(rounds) + " workers=" + std::to_string(workers) +
               " synced=" + std::to_string(syncedRounds) + " wrong=" + std::to_string(wrong) + " first_wrong=" + firstWrong;
    }

    void opPrrt(const std::vector<std::string> &t, uint64_t rootSeed)
    {
        size_t i = 1;
        unsigned threads = needN(t, i);
        unsigned long budget = needN(t, i);
        unsigned permille = needN(t, i);
        double resolution = needF(t, i), threshold = needF(t, i), range = needF(t, i), goalBias = needF(t, i);
        unsigned long gate = needN(t, i);
        gSlot = 0;
        gGate = static_cast<long>(gate);
        gPaired = 0;
        auto space = vp::parseSpaceX(t, i);
        vp::Env env;
        env.parse(t, i);
        unsigned dim = space->getDimension();
        std::vector<double> start(dim), goal(dim);
        for (auto &v : start)
            v = needF(t, i);
        for (auto &v : goal)
            v = needF(t, i);
        if (i != t.size())
            throw vp::ParseError("trailing");
        Log log;
        log.mainThread = std::this_thread::get_id();
        log.space = space;
        gLog = &log;
        auto si = std::make_shared<ob::SpaceInformation>(space);
        si->setStateValidityChecker(std::make_shared<PerturbChecker>(si, env, permille, rootSeed));
        si->setStateValidityCheckingResolution(resolution);
        si->setMotionValidator(std::make_shared<RecMV>(si));
        si->setup();
        auto pdef = std::make_shared<ob::ProblemDefinition>(si);
        ob::ScopedState<> s(space), g(space);
        space->copyFromReals(s.get(), start);
        space->copyFromReals(g.get(), goal);
        pdef->addStartState(s);
        auto gs = std::make_shared<RecGoal>(si);
        gs->setState(g);
        gs->setThreshold(threshold);
        pdef->setGoal(gs);
        auto p = std::make_shared<og::pRRT>(si);
        p->setThreadCount(threads);
        p->setGoalBias(goalBias);
        if (range > 0.0)
            p->setRange(range);
        p->setProblemDefinition(pdef);
        p->setNearestNeighbors<RecNN>();  // clears and calls setup()
        p->setup();
        auto evals = std::make_shared<std::atomic<unsigned long>>(0);
        ob::PlannerTerminationCondition ptc(
            [evals, budget] { return evals->fetch_add(1, std::memory_order_relaxed) + 1 > budget; });
        ob::PlannerStatus st = p->solve(ptc);
        std::cout << "prrt " << dim << " " << vp::bits(p->getRange()) << " " << vp::bits(threshold) << " " << vp::showReals(goal)
                  << " " << vp::showReals(start) << "\n";
        for (const auto &l : log.lines)
            std::cout << l << "\n";
        ob::PlannerSolution best(nullptr);
        if (pdef->getSolution(best) && best.path_)
        {
            auto *pg = best.path_->as<og::PathGeometric>();
            std::cout << "E " << (best.approximate_ ? "1" : "0") << " " << vp::bits(best.difference_) << " " << pg->getStateCount();
            for (size_t k = 0; k < pg->getStateCount(); ++k)
                std::cout << " " << vp::showReals(vp::realsOf(space, pg->getState(k)));
            std::cout << "\n";
        }
        else
            std::cout << "E none\n";
        std::cout << "Z status=" << vp::statusName(st) << " threads=" << threads << " events=" << log.lines.size()
                  << " workers_seen=" << log.ids.size() << " paired=" << gPaired.load() << " nsol=" << pdef->getSolutionCount()
                  << " valid=" << si->getMotionValidator()->getValidMotionCount()
                  << " invalid=" << si->getMotionValidator()->getInvalidMotionCount()
                  << " resolution_len=" << vp::bits(space->getLongestValidSegmentLength()) << std::endl;
        p->clear();
        gLog = nullptr;
    }
}  // namespace

int main()
{
    std::string line;
    if (!vp::readLine(line))
        return 2;
    auto h = vp::tokens(line);
    if (h.size() != 2 || h[0] != "conctrace" || !vp::parseNat(h[1]))
    {
        std::cout << "bad-header" << std::endl;
        return 2;
    }
    uint64_t seed = *vp::parseNat(h[1]);
    if (seed == 0)
        seed = 1;
    ompl::RNG::setSeed(seed);
    vp::quietLogs();
    while (vp::readLine(line))
    {
        auto t = vp::tokens(line);
        if (t.empty())
            continue;
        try
        {
            if (t[0] == "prrt")
                opPrrt(t, seed);
            else if (t[0] == "prrtrace")
                std::cout << opPrrtRace(t) << std::endl;
            else
                std::cout << "bad-op" << std::endl;
        }
        catch (const vp::ParseError &)
        {
            std::cout << "bad-op" << std::endl;
        }
        catch (const std::exception &e)
        {
            std::cout << "exception " << e.what() << std::endl;
        }
    }
    return 0;
}
