// C19 harness: 2..16 threads hammer the documented thread-safe surface of OMPL (real code from the current tree,
// linked from the cached libompl — plain or TSan-instrumented build), and multi-threaded planners run on box
// environments under schedule perturbation.  One op per input line, one `key=value ...` result line per op.
//
//   header:  conc <seed>                                     (ompl::RNG::setSeed(seed) before anything else)
//   force <threads> <rounds> <burst>                         barrier-and-spin lost-update forcing on valid_/invalid_
//   counters <threads> <calls> <seed>                        shared SpaceInformation: checkMotion / isValid
//   gnat <threads> <n> <queries> <k> <seed>                  shared NearestNeighborsGNAT: nearest / nearestK / nearestR
//   rng <threads> <per>                                      concurrent RNG construction (seed stream)
//   spaces <threads> <per> <list 0|1>                        concurrent StateSpace creation / destruction (+ StateSpace::List)
//   solutions <adders> <readers> <per>                       addSolutionPath / getSolutions on one ProblemDefinition
//   logging <threads> <per>                                  OMPL_INFORM + handler / level changes
//   terminate <pollers> <polled 0|1>                         terminate() from another thread
//   planner <name> <threads> <budget> <perturb_permille> <resolution> <threshold> <space> <boxes> <start> <goal>
//                                                            (doubles as u64 bit patterns; space/boxes as in planning.h)
#include "common/planning.h"
#include <ompl/base/DiscreteMotionValidator.h>
#include <ompl/base/MotionValidator.h>
#include <ompl/datastructures/NearestNeighborsGNAT.h>
#include <ompl/util/RandomNumbers.h>
#include <ompl/util/Console.h>
#include <algorithm>
#include <array>
#include <atomic>
#include <chrono>
#include <map>
#include <random>
#include <sched.h>
#include <set>
#include <thread>
#include <unistd.h>

namespace ob = ompl::base;
namespace og = ompl::geometric;
using vp::needF;
using vp::needN;

namespace
{
    struct XorShift
    {
        uint64_t s;
        explicit XorShift(uint64_t seed) : s(seed * 0x9E3779B97F4A7C15ull + 0x1234567ull)
        {
            if (s == 0)
                s = 88172645463325252ull;
            next();
            next();
        }
        uint64_t next()
        {
            s ^= s << 13;
            s ^= s >> 7;
            s ^= s << 17;
            return s;
        }
        double unit()
        {
            return (next() >> 11) / 9007199254740992.0;
        }
    };

    // sense-reversing spin barrier (no futex: threads leave it within nanoseconds of each other)
    struct SpinBarrier
    {
        explicit SpinBarrier(unsigned n) : n_(n)
        {
        }
        void wait()
        {
            unsigned g = gen_.load(std::memory_order_acquire);
            if (count_.fetch_add(1, std::memory_order_acq_rel) + 1 == n_)
            {
                count_.store(0, std::memory_order_relaxed);
                gen_.fetch_add(1, std::memory_order_release);
            }
            else
            {
                unsigned spins = 0;
                while (gen_.load(std::memory_order_acquire) == g)
                    if (++spins > 2000)
                    {
                        sched_yield();  // more threads than free cores: let the others arrive
                        spins = 0;
                    }
            }
        }
        unsigned n_;
        std::atomic<unsigned> count_{0}, gen_{0};
    };

    template <class F>
    void runThreads(unsigned n, F f)
    {
        std::vector<std::thread> th;
        th.reserve(n);
        for (unsigned i = 0; i < n; ++i)
            th.emplace_back([&f, i] { f(i); });
        for (auto &t : th)
            t.join();
    }

    // ---------------------------------------------------------------- force: the counters alone
    // A motion validator whose checkMotion does nothing but bump the inherited counter, exactly as every shipped
    // validator does on its last line (`valid_++` / `invalid_++` in a const method).
    class BumpValidator : public ob::MotionValidator
    {
    public:
        using ob::MotionValidator::MotionValidator;
        bool checkMotion(const ob::State *, const ob::State *) const override
        {
            valid_++;
            return true;
        }
        bool checkMotion(const ob::State *, const ob::State *, std::pair<ob::State *, double> &) const override
        {
            invalid_++;
            return false;
        }
    };

    std::string opForce(const std::vector<std::string> &t)
    {
        size_t i = 1;
        unsigned threads = needN(t, i), rounds = needN(t, i), burst = needN(t, i);
        auto space = std::make_shared<ob::RealVectorStateSpace>(1);
        space->setBounds(0, 1);
        auto si = std::make_shared<ob::SpaceInformation>(space);
        auto mv = std::make_shared<BumpValidator>(si);
        si->setMotionValidator(mv);
        SpinBarrier bar(threads);
        std::pair<ob::State *, double> lv(nullptr, 0.0);
        runThreads(threads, [&](unsigned) {
            std::pair<ob::State *, double> mine(nullptr, 0.0);
            for (unsigned r = 0; r < rounds; ++r)
            {
                bar.wait();
                for (unsigned b = 0; b < burst; ++b)
                {
                    si->checkMotion(nullptr, nullptr);
                    si->checkMotion(nullptr, nullptr, mine);
                }
            }
        });
        unsigned long expected = (unsigned long)threads * rounds * burst;
        return "force threads=" + std::to_string(threads) + " rounds=" + std::to_string(rounds) +
               " burst=" + std::to_string(burst) + " expected_valid=" + std::to_string(expected) +
               " expected_invalid=" + std::to_string(expected) + " valid=" + std::to_string(mv->getValidMotionCount()) +
               " invalid=" + std::to_string(mv->getInvalidMotionCount()) +
               " checked=" + std::to_string(mv->getCheckedMotionCount());
    }

    // ---------------------------------------------------------------- counters through a shared SpaceInformation
    vp::Env demoEnv2()
    {
        vp::Env e;
        e.pdim = 2;
        e.boxes.push_back({{0.3, 0.0}, {0.4, 0.6}});
        e.boxes.push_back({{0.6, 0.4}, {0.7, 1.0}});
        return e;
    }

    std::string opCounters(const std::vector<std::string> &t)
    {
        size_t i = 1;
        unsigned threads = needN(t, i), calls = needN(t, i);
        uint64_t seed = needN(t, i);
        auto space = std::make_shared<ob::RealVectorStateSpace>(2);
        space->setBounds(0, 1);
        auto si = std::make_shared<ob::SpaceInformation>(space);
        auto svc = std::make_shared<vp::RecordingValidityChecker>(si, demoEnv2(), false);
        si->setStateValidityChecker(svc);
        si->setStateValidityCheckingResolution(0.05);
        si->setup();
        // per thread: `calls` state pairs
        std::vector<std::vector<ob::State *>> A(threads), B(threads);
        std::vector<std::vector<char>> seq(threads), seqValid(threads);
        unsigned long ev = 0, ei = 0;
        for (unsigned th = 0; th < threads; ++th)
        {
            XorShift r(seed * 1000 + th);
            for (unsigned c = 0; c < calls; ++c)
            {
                ob::State *a = si->allocState(), *b = si->allocState();
                auto *ra = a->as<ob::RealVectorStateSpace::StateType>(), *rb = b->as<ob::RealVectorStateSpace::StateType>();
                ra->values[0] = r.unit();
                ra->values[1] = r.unit();
                // short motions (a few subdivisions) so that calls finish — and bump the counters — close together
                rb->values[0] = std::min(1.0, std::max(0.0, ra->values[0] + (r.unit() - 0.5) * 0.2));
                rb->values[1] = std::min(1.0, std::max(0.0, ra->values[1] + (r.unit() - 0.5) * 0.2));
                A[th].push_back(a);
                B[th].push_back(b);
            }
        }
        // sequential reference
        for (unsigned th = 0; th < threads; ++th)
            for (unsigned c = 0; c < calls; ++c)
            {
                bool res;
                if (c % 3 == 2)
                {
                    std::pair<ob::State *, double> lv(nullptr, 0.0);
                    res = si->checkMotion(A[th][c], B[th][c], lv);
                }
                else
                    res = si->checkMotion(A[th][c], B[th][c]);
                (res ? ev : ei)++;
                seq[th].push_back(res);
                seqValid[th].push_back(si->isValid(A[th][c]));
            }
        unsigned long seqTotal = si->getMotionValidator()->getValidMotionCount() + si->getMotionValidator()->getInvalidMotionCount();
        si->getMotionValidator()->resetMotionCounter();
        std::atomic<unsigned long> mismatches{0};
        SpinBarrier bar(threads);
        runThreads(threads, [&](unsigned th) {
            bar.wait();
            for (unsigned c = 0; c < calls; ++c)
            {
                bool res;
                if (c % 3 == 2)
                {
                    std::pair<ob::State *, double> lv(nullptr, 0.0);
                    res = si->checkMotion(A[th][c], B[th][c], lv);
                }
                else
                    res = si->checkMotion(A[th][c], B[th][c]);
                if (res != (bool)seq[th][c])
                    ++mismatches;
                if (si->isValid(A[th][c]) != (bool)seqValid[th][c])
                    ++mismatches;
            }
        });
        unsigned v = si->getMotionValidator()->getValidMotionCount(), iv = si->getMotionValidator()->getInvalidMotionCount();
        for (unsigned th = 0; th < threads; ++th)
            for (unsigned c = 0; c < calls; ++c)
            {
                si->freeState(A[th][c]);
                si->freeState(B[th][c]);
            }
        return "counters threads=" + std::to_string(threads) + " calls=" + std::to_string((unsigned long)threads * calls) +
               " seq_total=" + std::to_string(seqTotal) + " expected_valid=" + std::to_string(ev) +
               " expected_invalid=" + std::to_string(ei) + " valid=" + std::to_string(v) + " invalid=" + std::to_string(iv) +
               " mismatches=" + std::to_string(mismatches.load());
    }

    // ---------------------------------------------------------------- GNAT queries
    std::string opGnat(const std::vector<std::string> &t)
    {
        size_t i = 1;
        unsigned threads = needN(t, i), n = needN(t, i), q = needN(t, i), k = needN(t, i);
        uint64_t seed = needN(t, i);
        XorShift r(seed);
        std::vector<std::array<double, 3>> pts(n + q);
        for (auto &p : pts)
            p = {r.unit(), r.unit(), r.unit()};
        ompl::NearestNeighborsGNAT<int> nn;
        nn.setDistanceFunction([&pts](const int &a, const int &b) {
            double s = 0;
            for (int d = 0; d < 3; ++d)
                s += (pts[a][d] - pts[b][d]) * (pts[a][d] - pts[b][d]);
            return std::sqrt(s);
        });
        for (unsigned j = 0; j < n; ++j)
            nn.add((int)j);
        const double radius = 0.15;
        // sequential answers (exhaustive, independent of the structure) and the structure's own sequential answers
        std::vector<int> seq1(q);
        std::vector<std::vector<int>> seqK(q), seqR(q);
        unsigned long seqWrong = 0;
        for (unsigned j = 0; j < q; ++j)
        {
            int query = (int)(n + j);
            seq1[j] = nn.nearest(query);
            nn.nearestK(query, k, seqK[j]);
            nn.nearestR(query, radius, seqR[j]);
            // exhaustive check of nearest and of the radius set
            int best = 0;
            double bd = 1e300;
            std::set<int> inR;
            for (unsigned p = 0; p < n; ++p)
            {
                double s = 0;
                for (int d = 0; d < 3; ++d)
                    s += (pts[p][d] - pts[query][d]) * (pts[p][d] - pts[query][d]);
                s = std::sqrt(s);
                if (s < bd)
                {
                    bd = s;
                    best = (int)p;
                }
                if (s <= radius)
                    inR.insert((int)p);
            }
            if (best != seq1[j] || std::set<int>(seqR[j].begin(), seqR[j].end()) != inR || seqK[j].size() != std::min(k, n) ||
                (!seqK[j].empty() && seqK[j][0] != best))
                ++seqWrong;
        }
        std::atomic<unsigned long> mismatches{0};
        SpinBarrier bar(threads);
        runThreads(threads, [&](unsigned th) {
            bar.wait();
            std::vector<int> out;
            for (unsigned rep = 0; rep < 2; ++rep)
                for (unsigned jj = 0; jj < q; ++jj)
                {
                    unsigned j = (jj + th * 7) % q;
                    int query = (int)(n + j);
                    if (nn.nearest(query) != seq1[j])
                        ++mismatches;
                    nn.nearestK(query, k, out);
                    if (out != seqK[j])
                        ++mismatches;
                    nn.nearestR(query, radius, out);
                    if (out != seqR[j])
                        ++mismatches;
                }
        });
        return "gnat threads=" + std::to_string(threads) + " n=" + std::to_string(n) + " queries=" +
               std::to_string((unsigned long)threads * q * 6) + " seq_wrong=" + std::to_string(seqWrong) +
               " mismatches=" + std::to_string(mismatches.load());
    }

    // ---------------------------------------------------------------- RNG construction
    std::string opRng(const std::vector<std::string> &t, uint64_t rootSeed)
    {
        size_t i = 1;
        unsigned threads = needN(t, i), per = needN(t, i);
        std::vector<std::vector<std::uint_fast32_t>> got(threads);
        SpinBarrier bar(threads);
        runThreads(threads, [&](unsigned th) {
            got[th].reserve(per);
            bar.wait();
            for (unsigned c = 0; c < per; ++c)
            {
                ompl::RNG rng;
                got[th].push_back(rng.getLocalSeed());
            }
        });
        std::vector<std::uint_fast32_t> all;
        for (auto &g : got)
            all.insert(all.end(), g.begin(), g.end());
        std::multiset<std::uint_fast32_t> ms(all.begin(), all.end());
        std::set<std::uint_fast32_t> distinct(all.begin(), all.end());
        // reference stream: what RNGSeedGenerator draws sequentially (ranlux24_base seeded with the root seed,
        // uniform_int_distribution<>(1, 1e9)); the hand-outs must be one contiguous window of it, as a multiset
        std::ranlux24_base gen(rootSeed);
        std::uniform_int_distribution<> dist(1, 1000000000);
        const size_t horizon = 200000 + all.size();
        std::vector<std::uint_fast32_t> stream(horizon);
        for (auto &s : stream)
            s = dist(gen);
        long window = -1;
        for (size_t p = 0; p + all.size() <= horizon && p < 200000; ++p)
            if (ms.count(stream[p]))
            {
                std::multiset<std::uint_fast32_t> w(stream.begin() + p, stream.begin() + p + all.size());
                if (w == ms)
                    window = (long)p;
                break;
            }
        std::multiset<std::uint_fast32_t> ref;
        size_t refDistinct = 0;
        if (window >= 0)
        {
            std::set<std::uint_fast32_t> d(stream.begin() + window, stream.begin() + window + all.size());
            refDistinct = d.size();
        }
        return "rng threads=" + std::to_string(threads) + " created=" + std::to_string(all.size()) +
               " distinct=" + std::to_string(distinct.size()) + " window=" + std::to_string(window) +
               " ref_distinct=" + std::to_string(refDistinct);
    }

    // ---------------------------------------------------------------- StateSpace registry
    size_t registrySize()
    {
        std::ostringstream os;
        ob::StateSpace::List(os);
        std::string s = os.str();
        return std::count(s.begin(), s.end(), '\n');
    }

    std::string opSpaces(const std::vector<std::string> &t)
    {
        size_t i = 1;
        unsigned threads = needN(t, i), per = needN(t, i), withList = needN(t, i);
        size_t before = registrySize();
        std::vector<std::vector<std::string>> names(threads);
        std::atomic<unsigned long> listed{0};
        SpinBarrier bar(threads);
        runThreads(threads, [&](unsigned th) {
            bar.wait();
            for (unsigned c = 0; c < per; ++c)
            {
                ob::StateSpacePtr sp;
                switch ((c + th) % 3)
                {
                    case 0:
                        sp = std::make_shared<ob::RealVectorStateSpace>(2);
                        break;
                    case 1:
                        sp = std::make_shared<ob::SO2StateSpace>();
                        break;
                    default:
                        sp = std::make_shared<ob::SE2StateSpace>();  // compound: registers three spaces
                        break;
                }
                // the constructor's automatic name is "Space<counter>" until the subclass renames it; the
                // compound's components keep theirs
                if (auto *c2 = dynamic_cast<ob::CompoundStateSpace *>(sp.get()))
                    for (unsigned s = 0; s < c2->getSubspaceCount(); ++s)
                        names[th].push_back(c2->getSubspace(s)->getName());
                names[th].push_back(sp->getName());
                if (withList && c % 16 == 0)
                {
                    std::ostringstream os;
                    ob::StateSpace::List(os);
                    listed += os.str().size() > 0;
                }
            }
        });
        size_t after = registrySize();
        size_t total = 0;
        std::set<std::string> distinct;
        for (auto &v : names)
            for (auto &s : v)
            {
                ++total;
                distinct.insert(s);
            }
        return "spaces threads=" + std::to_string(threads) + " list=" + std::to_string(withList) + " created=" + std::to_string(total) +
               " distinct_names=" + std::to_string(distinct.size()) + " registry_before=" + std::to_string(before) +
               " registry_after=" + std::to_string(after);
    }

    // ---------------------------------------------------------------- solutions of a shared ProblemDefinition
    bool sortedSnapshot(const std::vector<ob::PlannerSolution> &v)
    {
        for (size_t j = 0; j + 1 < v.size(); ++j)
            if (v[j + 1] < v[j])
                return false;
        return true;
    }

    std::string opSolutions(const std::vector<std::string> &t)
    {
        size_t i = 1;
        unsigned adders = needN(t, i), readers = needN(t, i), per = needN(t, i);
        auto space = std::make_shared<ob::RealVectorStateSpace>(1);
        space->setBounds(0, 1e6);
        auto si = std::make_shared<ob::SpaceInformation>(space);
        si->setStateValidityChecker([](const ob::State *) { return true; });
        si->setup();
        auto pdef = std::make_shared<ob::ProblemDefinition>(si);
        // one path per (adder, index), all lengths distinct; every third one is approximate with a distinct difference
        std::vector<std::vector<ob::PathPtr>> paths(adders);
        for (unsigned a = 0; a < adders; ++a)
            for (unsigned c = 0; c < per; ++c)
            {
                auto p = std::make_shared<og::PathGeometric>(si);
                ob::State *s0 = si->allocState(), *s1 = si->allocState();
                s0->as<ob::RealVectorStateSpace::StateType>()->values[0] = 0;
                s1->as<ob::RealVectorStateSpace::StateType>()->values[0] = 1.0 + a + (double)adders * c;
                p->append(s0);
                p->append(s1);
                si->freeState(s0);
                si->freeState(s1);
                paths[a].push_back(p);
            }
        std::atomic<bool> done{false};
        std::atomic<unsigned long> snapshots{0}, badSnapshots{0}, shrink{0};
        SpinBarrier bar(adders + readers);
        std::vector<std::thread> th;
        for (unsigned a = 0; a < adders; ++a)
            th.emplace_back([&, a] {
                bar.wait();
                for (unsigned c = 0; c < per; ++c)
                {
                    double len = 1.0 + a + (double)adders * c;
                    if (c % 3 == 2)
                        pdef->addSolutionPath(paths[a][c], true, len, "t" + std::to_string(a));
                    else
                        pdef->addSolutionPath(paths[a][c], false, 0.0, "t" + std::to_string(a));
                }
            });
        for (unsigned r = 0; r < readers; ++r)
            th.emplace_back([&] {
                bar.wait();
                size_t last = 0;
                while (!done.load())
                {
                    auto snap = pdef->getSolutions();
                    ++snapshots;
                    if (!sortedSnapshot(snap))
                        ++badSnapshots;
                    if (snap.size() < last)
                        ++shrink;
                    last = snap.size();
                    size_t cnt = pdef->getSolutionCount();
                    if (cnt < last)
                        ++shrink;
                    (void)pdef->hasExactSolution();
                    (void)pdef->getSolutionPath();
                    (void)pdef->getSolutionDifference();
                }
            });
        for (unsigned a = 0; a < adders; ++a)
            th[a].join();
        done = true;
        for (unsigned r = 0; r < readers; ++r)
            th[adders + r].join();
        auto fin = pdef->getSolutions();
        std::multiset<double> want, have;
        for (unsigned a = 0; a < adders; ++a)
            for (unsigned c = 0; c < per; ++c)
                want.insert(1.0 + a + (double)adders * c);
        std::set<int> idx;
        for (auto &s : fin)
        {
            have.insert(s.length_);
            idx.insert(s.index_);
        }
        return "solutions adders=" + std::to_string(adders) + " readers=" + std::to_string(readers) +
               " added=" + std::to_string((unsigned long)adders * per) + " final=" + std::to_string(fin.size()) +
               " multiset_ok=" + std::to_string(want == have) + " sorted_ok=" + std::to_string(sortedSnapshot(fin)) +
               " distinct_index=" + std::to_string(idx.size()) + " snapshots_bad=" + std::to_string(badSnapshots.load()) +
               " shrink=" + std::to_string(shrink.load()) + " snapshots_nonzero=" + std::to_string(snapshots.load() > 0);
    }

    // ---------------------------------------------------------------- logging
    // The handler keeps a PLAIN counter on purpose: ompl::msg::log serialises handler calls under its own mutex, so
    // the count must still be exact (and TSan must stay silent) — if that lock goes, this is where it shows.
    class CountingHandler : public ompl::msg::OutputHandler
    {
    public:
        void log(const std::string &text, ompl::msg::LogLevel, const char *, int) override
        {
            ++count;
            bytes += text.size();
        }
        unsigned long count = 0, bytes = 0;
    };

    std::string opLogging(const std::vector<std::string> &t)
    {
        size_t i = 1;
        unsigned threads = needN(t, i), per = needN(t, i);
        CountingHandler h1, h2;
        ompl::msg::OutputHandler *old = ompl::msg::getOutputHandler();
        ompl::msg::LogLevel oldLevel = ompl::msg::getLogLevel();
        ompl::msg::useOutputHandler(&h1);
        ompl::msg::setLogLevel(ompl::msg::LOG_INFO);
        std::atomic<bool> done{false};
        std::atomic<unsigned long> getterNull{0};
        SpinBarrier bar(threads + 1);
        std::thread toggler([&] {
            bar.wait();
            unsigned n = 0;
            while (!done.load())
            {
                ompl::msg::useOutputHandler((n++ & 1) ? &h1 : &h2);
                ompl::msg::setLogLevel((n & 2) ? ompl::msg::LOG_INFO : ompl::msg::LOG_DEBUG);
                if (ompl::msg::getOutputHandler() == nullptr)
                    ++getterNull;
                (void)ompl::msg::getLogLevel();
            }
        });
        runThreads(threads, [&](unsigned th) {
            bar.wait();
            for (unsigned c = 0; c < per; ++c)
            {
                OMPL_INFORM("thread %u message %u", th, c);
                if (ompl::msg::getOutputHandler() == nullptr)
                    ++getterNull;
            }
        });
        done = true;
        toggler.join();
        ompl::msg::useOutputHandler(old);
        ompl::msg::setLogLevel(oldLevel);
        return "logging threads=" + std::to_string(threads) + " sent=" + std::to_string((unsigned long)threads * per) +
               " received=" + std::to_string(h1.count + h2.count) + " getter_null=" + std::to_string(getterNull.load());
    }

    // ---------------------------------------------------------------- terminate() from another thread
    std::string opTerminate(const std::vector<std::string> &t)
    {
        size_t i = 1;
        unsigned pollers = needN(t, i), polled = needN(t, i);
        std::atomic<unsigned long> fnCalls{0};
        auto fn = [&fnCalls] {
            ++fnCalls;
            return false;
        };
        std::unique_ptr<ob::PlannerTerminationCondition> ptc(
            polled ? new ob::PlannerTerminationCondition(fn, 0.0005) : new ob::PlannerTerminationCondition(fn));
        std::vector<std::atomic<unsigned long>> polls(pollers);
        for (auto &p : polls)
            p = 0;
        std::atomic<unsigned> seen{0}, seenBefore{0};
        std::atomic<bool> requested{false};
        auto deadline = std::chrono::steady_clock::now() + std::chrono::seconds(60);  // hang guard only
        SpinBarrier bar(pollers + 1);
        std::vector<std::thread> th;
        for (unsigned p = 0; p < pollers; ++p)
            th.emplace_back([&, p] {
                bar.wait();
                for (;;)
                {
                    bool before = requested.load();
                    if (ptc->eval())
                    {
                        ++seen;
                        if (!before && !requested.load())
                            ++seenBefore;  // true although nobody asked: a phantom termination
                        break;
                    }
                    if ((++polls[p] & 0xfff) == 0 && std::chrono::steady_clock::now() > deadline)
                        break;
                }
            });
        bar.wait();
        // let every poller evaluate a few thousand times first
        for (unsigned p = 0; p < pollers; ++p)
            while (polls[p].load() < 2000 && std::chrono::steady_clock::now() < deadline)
                sched_yield();
        requested = true;
        ptc->terminate();
        for (auto &x : th)
            x.join();
        bool sticky = ptc->eval() && (*ptc)();
        ptc.reset();  // joins the evaluation thread of the polled form
        return "terminate pollers=" + std::to_string(pollers) + " polled=" + std::to_string(polled) +
               " seen=" + std::to_string(seen.load()) + " phantom=" + std::to_string(seenBefore.load()) +
               " sticky=" + std::to_string(sticky);
    }

    // ---------------------------------------------------------------- multi-threaded planners
    // validity = in bounds and outside every box; with probability perturb/1000 the call yields or sleeps a few
    // microseconds first (it runs on the planner's worker threads), to shake the schedule
    class PerturbChecker : public ob::StateValidityChecker
    {
    public:
        PerturbChecker(const ob::SpaceInformationPtr &si, vp::Env env, unsigned permille, uint64_t seed)
          : ob::StateValidityChecker(si), env_(std::move(env)), permille_(permille), seed_(seed)
        {
        }
        bool isValid(const ob::State *state) const override
        {
            ++calls_;
            if (permille_)
            {
                thread_local XorShift r(seed_ ^ std::hash<std::thread::id>()(std::this_thread::get_id()));
                uint64_t x = r.next();
                if (x % 1000 < permille_)
                {
                    if ((x >> 20) & 1)
                        sched_yield();
                    else
                        usleep(1 + ((x >> 24) % 40));
                }
            }
            std::vector<double> r;
            si_->getStateSpace()->copyToReals(r, state);
            return si_->satisfiesBounds(state) && !env_.collides(r);
        }
        unsigned long calls() const
        {
            return calls_;
        }

    private:
        vp::Env env_;
        unsigned permille_;
        uint64_t seed_;
        mutable std::atomic<unsigned long> calls_{0};
    };

    std::string opPlanner(const std::vector<std::string> &t, uint64_t rootSeed)
    {
        size_t i = 1;
        if (i >= t.size())
            throw vp::ParseError("planner");
        std::string name = t[i++];
        unsigned threads = needN(t, i);
        unsigned long budget = needN(t, i);
        unsigned permille = needN(t, i);
        double resolution = needF(t, i), threshold = needF(t, i);
        auto space = vp::parseSpaceX(t, i);
        vp::Env env;
        env.parse(t, i);
        unsigned dim = space->getDimension();
        std::vector<double> start(dim), goal(dim);
        for (auto &v : start)
            v = needF(t, i);
        for (auto &v : goal)
            v = needF(t, i);
        if (i != t.size())
            throw vp::ParseError("trailing");
        auto si = std::make_shared<ob::SpaceInformation>(space);
        auto svc = std::make_shared<PerturbChecker>(si, env, permille, rootSeed);
        si->setStateValidityChecker(svc);
        si->setStateValidityCheckingResolution(resolution);
        si->setup();
        auto pdef = std::make_shared<ob::ProblemDefinition>(si);
        ob::ScopedState<> s(space), g(space);
        space->copyFromReals(s.get(), start);
        space->copyFromReals(g.get(), goal);
        pdef->addStartState(s);
        auto gs = std::make_shared<ob::GoalState>(si);
        gs->setState(g);
        gs->setThreshold(threshold);
        pdef->setGoal(gs);
        ob::PlannerPtr pl;
        if (name == "pRRT")
        {
            auto p = std::make_shared<og::pRRT>(si);
            p->setThreadCount(threads);
            pl = p;
        }
        else if (name == "pSBL")
        {
            auto p = std::make_shared<og::pSBL>(si);
            p->setThreadCount(threads);
            pl = p;
        }
        else if (name == "CForest")
        {
            auto p = std::make_shared<og::CForest>(si);
            p->setNumThreads(threads);
            pl = p;
        }
        else if (name == "PRM")
            pl = std::make_shared<og::PRM>(si);
        else if (name == "APS")
        {
            auto p = std::make_shared<og::AnytimePathShortening>(si);
            for (unsigned k = 0; k < threads; ++k)
            {
                ob::PlannerPtr sub;
                if (k % 2 == 0)
                    sub = std::make_shared<og::RRT>(si);
                else
                    sub = std::make_shared<og::RRTConnect>(si);
                p->addPlanner(sub);
            }
            pl = p;
        }
        else
            throw vp::ParseError("planner name");
        pl->setProblemDefinition(pdef);
        pl->setup();
        auto counter = std::make_shared<vp::EvalCounter>();
        counter->fireAt = budget;
        ob::PlannerTerminationCondition ptc = vp::evalCountPtc(counter);
        ob::PlannerStatus st = pl->solve(ptc);
        std::string out = "planner name=" + name + " threads=" + std::to_string(threads) + " status=" + vp::statusName(st) +
                          " resolution_len=" + vp::bits(space->getLongestValidSegmentLength()) +
                          " checked=" + std::to_string(si->getMotionValidator()->getCheckedMotionCount()) +
                          " validity_calls=" + std::to_string(svc->calls()) + " nsol=" + std::to_string(pdef->getSolutionCount());
        ob::PlannerSolution best(nullptr);
        if (pdef->getSolution(best) && best.path_)
        {
            auto *pg = best.path_->as<og::PathGeometric>();
            out += " approx=" + std::to_string(best.approximate_) + " diff=" + vp::bits(best.difference_) +
                   " nstates=" + std::to_string(pg->getStateCount()) + " path";
            for (size_t k = 0; k < pg->getStateCount(); ++k)
                out += " " + vp::showReals(vp::realsOf(space, pg->getState(k)));
        }
        else
            out += " nstates=0";
        // every stored solution must be a path object (the set is shared by the planner's threads)
        pl->clear();
        return out;
    }
}  // namespace

int main()
{
    std::string line;
    if (!vp::readLine(line))
        return 2;
    auto h = vp::tokens(line);
    if (h.size() != 2 || h[0] != "conc" || !vp::parseNat(h[1]))
    {
        std::cout << "bad-header" << std::endl;
        return 2;
    }
    uint64_t seed = *vp::parseNat(h[1]);
    if (seed == 0)
        seed = 1;
    ompl::RNG::setSeed(seed);
    vp::quietLogs();
    while (vp::readLine(line))
    {
        auto t = vp::tokens(line);
        if (t.empty())
            continue;
        std::string out;
        try
        {
            if (t[0] == "force")
                out = opForce(t);
            else if (t[0] == "counters")
                out = opCounters(t);
            else if (t[0] == "gnat")
                out = opGnat(t);
            else if (t[0] == "rng")
                out = opRng(t, seed);
            else if (t[0] == "spaces")
                out = opSpaces(t);
            else if (t[0] == "solutions")
                out = opSolutions(t);
            else if (t[0] == "logging")
                out = opLogging(t);
            else if (t[0] == "terminate")
                out = opTerminate(t);
            else if (t[0] == "planner")
                out = opPlanner(t, seed);
            else
                out = "bad-op";
        }
        catch (const vp::ParseError &)
        {
            out = "bad-op";
        }
        catch (const std::exception &e)
        {
            out = std::string("exception ") + e.what();
        }
        std::cout << out << std::endl;
    }
    return 0;
}
