// C19 harness: 2..16 threads hammer the documented thread-safe surface of OMPL (real code from the current tree,
// linked from the cached libompl — plain or TSan-instrumented build), and multi-threaded planners run on box
// environments under schedule perturbation.  One op per input line, one `key=value ...` result line per op.
//
//   header:  conc <seed>                                     (ompl::RNG::setSeed(seed) before anything else)
//   force <threads> <rounds> <burst>                         barrier-and-spin lost-update forcing on valid_/invalid_
//   counters <threads> <calls> <seed>                        shared SpaceInformation: checkMotion / isValid
//   gnat <threads> <n> <queries> <k> <seed> [<reps> <small>] shared NearestNeighborsGNAT: nearest / nearestK / nearestR, every
//                                                            answer vs sequential vs brute force; small=1: degree 4, leaves of 8
//   rng <threads> <per> [<mode>]                             concurrent RNG construction (seed stream); mode 1: setSeed after first use
//   spaces <threads> <per> <list 0|1>                        concurrent StateSpace creation / destruction (+ StateSpace::List)
//   solutions <adders> <readers> <per>                       addSolutionPath / getSolutions on one ProblemDefinition
//   logging <threads> <per>                                  OMPL_INFORM + handler / level changes
//   goallazy <readers> <samples> <seed>                      GoalLazySamples: sampling thread + readers of every entry point + addState
//                                                            from the new-state callback; stop / restart / destruction while sampling
//   goalctl <pollers> <cycles> <mode>                        GoalLazySamples control surface: start/stop cycles vs pollers of isSampling();
//                                                            mode 1: two threads call stopSampling() at the same moment
//   logpark <rounds>                                         directed: a handler that parks inside log() while a second thread
//                                                            logs / replaces the handler (overlap, stale handler, order, counts)
//   solmix <adders> <readers> <clearers> <per> <seed>        add / getSolutions / clearSolutionPaths mixed; real-time-order oracle
//   solrace <k> <rounds>                                     directed: an add whose sort is held open (objective hook) while
//                                                            clear + k adds run; outcome must be one of the sequential ones
//   cfrace <rounds> [<free>]                                 directed: two real CForest instances report through
//                                                            CForest::newSolutionFound; the worse report (A) is held inside the
//                                                            objective's cost comparison until the better one (B) is through;
//                                                            then one un-choreographed run, <free> reports per instance (no
//                                                            handshake, so that TSan sees the accesses as they are)
//   cfsamplers <instances> <budget> <own_validator 0|1> [<monitor 0|1>]
//                                                            monitor=1: a thread polls CForest's planner progress properties (best cost,
//                                                            shared paths, shared states) during solve, as tools::Benchmark does
//                                                            real CForest with RRT* instances; the user's sampler allocator holds every
//                                                            instance but the first inside its (lazy, in-solve) sampler allocation
//                                                            until the first one has been planning for a while; own_validator=1:
//                                                            a user motion validator without shared counters
//   terminate <pollers> <form 0|1|2>                         terminate() from another thread; 0 direct, 1 periodic,
//                                                            2 periodic with a predicate that is blocked inside its call
//                                                            while terminate() arrives (handshake)
//   planner <name> <threads> <budget> <perturb_permille> <resolution> <threshold> <space> <boxes> <start> <goal>
//                                                            (doubles as u64 bit patterns; space/boxes as in planning.h)
#include "common/planning.h"
#include <ompl/base/DiscreteMotionValidator.h>
#include <ompl/base/MotionValidator.h>
#include <ompl/base/goals/GoalLazySamples.h>
#include <ompl/datastructures/NearestNeighborsGNAT.h>
#include <ompl/util/RandomNumbers.h>
#include <ompl/util/Console.h>
#include <algorithm>
#include <array>
#include <atomic>
#include <chrono>
#include <cstdio>
#include <map>
#include <random>
#include <sched.h>
#include <set>
#include <thread>
#include <unistd.h>

namespace ob = ompl::base;
namespace og = ompl::geometric;
using vp::needF;
using vp::needN;

namespace
{
    struct XorShift
    {
        uint64_t s;
        explicit XorShift(uint64_t seed) : s(seed * 0x9E3779B97F4A7C15ull + 0x1234567ull)
        {
            if (s == 0)
                s = 88172645463325252ull;
            next();
            next();
        }
        uint64_t next()
        {
            s ^= s << 13;
            s ^= s >> 7;
            s ^= s << 17;
            return s;
        }
        double unit()
        {
            return (next() >> 11) / 9007199254740992.0;
        }
    };

    // sense-reversing spin barrier (no futex: threads leave it within nanoseconds of each other)
    struct SpinBarrier
    {
        explicit SpinBarrier(unsigned n) : n_(n)
        {
        }
        void wait()
        {
            unsigned g = gen_.load(std::memory_order_acquire);
            if (count_.fetch_add(1, std::memory_order_acq_rel) + 1 == n_)
            {
                count_.store(0, std::memory_order_relaxed);
                gen_.fetch_add(1, std::memory_order_release);
            }
            else
            {
                unsigned spins = 0;
                while (gen_.load(std::memory_order_acquire) == g)
                    if (++spins > 2000)
                    {
                        sched_yield();  // more threads than free cores: let the others arrive
                        spins = 0;
                    }
            }
        }
        unsigned n_;
        std::atomic<unsigned> count_{0}, gen_{0};
    };

    template <class F>
    void runThreads(unsigned n, F f)
    {
        std::vector<std::thread> th;
        th.reserve(n);
        for (unsigned i = 0; i < n; ++i)
            th.emplace_back([&f, i] { f(i); });
        for (auto &t : th)
            t.join();
    }

    // ---------------------------------------------------------------- force: the counters alone
    // A motion validator whose checkMotion does nothing but bump the inherited counter, exactly as every shipped
    // validator does on its last line (`valid_++` / `invalid_++` in a const method).
    class BumpValidator : public ob::MotionValidator
    {
    public:
        using ob::MotionValidator::MotionValidator;
        bool checkMotion(const ob::State *, const ob::State *) const override
        {
            valid_++;
            return true;
        }
        bool checkMotion(const ob::State *, const ob::State *, std::pair<ob::State *, double> &) const override
        {
            invalid_++;
            return false;
        }
    };

    std::string opForce(const std::vector<std::string> &t)
    {
        size_t i = 1;
        unsigned threads = needN(t, i), rounds = needN(t, i), burst = needN(t, i);
        auto space = std::make_shared<ob::RealVectorStateSpace>(1);
        space->setBounds(0, 1);
        auto si = std::make_shared<ob::SpaceInformation>(space);
        auto mv = std::make_shared<BumpValidator>(si);
        si->setMotionValidator(mv);
        SpinBarrier bar(threads);
        std::pair<ob::State *, double> lv(nullptr, 0.0);
        runThreads(threads, [&](unsigned) {
            std::pair<ob::State *, double> mine(nullptr, 0.0);
            for (unsigned r = 0; r < rounds; ++r)
            {
                bar.wait();
                for (unsigned b = 0; b < burst; ++b)
                {
                    si->checkMotion(nullptr, nullptr);
                    si->checkMotion(nullptr, nullptr, mine);
                }
            }
        });
        unsigned long expected = (unsigned long)threads * rounds * burst;
        return "force threads=" + std::to_string(threads) + " rounds=" + std::to_string(rounds) +
               " burst=" + std::to_string(burst) + " expected_valid=" + std::to_string(expected) +
               " expected_invalid=" + std::to_string(expected) + " valid=" + std::to_string(mv->getValidMotionCount()) +
               " invalid=" + std::to_string(mv->getInvalidMotionCount()) +
               " checked=" + std::to_string(mv->getCheckedMotionCount());
    }

    // ---------------------------------------------------------------- counters through a shared SpaceInformation
    vp::Env demoEnv2()
    {
        vp::Env e;
        e.pdim = 2;
        e.boxes.push_back({{0.3, 0.0}, {0.4, 0.6}});
        e.boxes.push_back({{0.6, 0.4}, {0.7, 1.0}});
        return e;
    }

    std::string opCounters(const std::vector<std::string> &t)
    {
        size_t i = 1;
        unsigned threads = needN(t, i), calls = needN(t, i);
        uint64_t seed = needN(t, i);
        auto space = std::make_shared<ob::RealVectorStateSpace>(2);
        space->setBounds(0, 1);
        auto si = std::make_shared<ob::SpaceInformation>(space);
        auto svc = std::make_shared<vp::RecordingValidityChecker>(si, demoEnv2(), false);
        si->setStateValidityChecker(svc);
        si->setStateValidityCheckingResolution(0.05);
        si->setup();
        // per thread: `calls` state pairs
        std::vector<std::vector<ob::State *>> A(threads), B(threads);
        std::vector<std::vector<char>> seq(threads), seqValid(threads);
        unsigned long ev = 0, ei = 0;
        for (unsigned th = 0; th < threads; ++th)
        {
            XorShift r(seed * 1000 + th);
            for (unsigned c = 0; c < calls; ++c)
            {
                ob::State *a = si->allocState(), *b = si->allocState();
                auto *ra = a->as<ob::RealVectorStateSpace::StateType>(), *rb = b->as<ob::RealVectorStateSpace::StateType>();
                ra->values[0] = r.unit();
                ra->values[1] = r.unit();
                // short motions (a few subdivisions) so that calls finish — and bump the counters — close together
                rb->values[0] = std::min(1.0, std::max(0.0, ra->values[0] + (r.unit() - 0.5) * 0.2));
                rb->values[1] = std::min(1.0, std::max(0.0, ra->values[1] + (r.unit() - 0.5) * 0.2));
                A[th].push_back(a);
                B[th].push_back(b);
            }
        }
        // sequential reference
        for (unsigned th = 0; th < threads; ++th)
            for (unsigned c = 0; c < calls; ++c)
            {
                bool res;
                if (c % 3 == 2)
                {
                    std::pair<ob::State *, double> lv(nullptr, 0.0);
                    res = si->checkMotion(A[th][c], B[th][c], lv);
                }
                else
                    res = si->checkMotion(A[th][c], B[th][c]);
                (res ? ev : ei)++;
                seq[th].push_back(res);
                seqValid[th].push_back(si->isValid(A[th][c]));
            }
        unsigned long seqTotal = si->getMotionValidator()->getValidMotionCount() + si->getMotionValidator()->getInvalidMotionCount();
        si->getMotionValidator()->resetMotionCounter();
        std::atomic<unsigned long> mismatches{0};
        SpinBarrier bar(threads);
        runThreads(threads, [&](unsigned th) {
            bar.wait();
            for (unsigned c = 0; c < calls; ++c)
            {
                bool res;
                if (c % 3 == 2)
                {
                    std::pair<ob::State *, double> lv(nullptr, 0.0);
                    res = si->checkMotion(A[th][c], B[th][c], lv);
                }
                else
                    res = si->checkMotion(A[th][c], B[th][c]);
                if (res != (bool)seq[th][c])
                    ++mismatches;
                if (si->isValid(A[th][c]) != (bool)seqValid[th][c])
                    ++mismatches;
            }
        });
        unsigned v = si->getMotionValidator()->getValidMotionCount(), iv = si->getMotionValidator()->getInvalidMotionCount();
        for (unsigned th = 0; th < threads; ++th)
            for (unsigned c = 0; c < calls; ++c)
            {
                si->freeState(A[th][c]);
                si->freeState(B[th][c]);
            }
        return "counters threads=" + std::to_string(threads) + " calls=" + std::to_string((unsigned long)threads * calls) +
               " seq_total=" + std::to_string(seqTotal) + " expected_valid=" + std::to_string(ev) +
               " expected_invalid=" + std::to_string(ei) + " valid=" + std::to_string(v) + " invalid=" + std::to_string(iv) +
               " mismatches=" + std::to_string(mismatches.load());
    }

    // ---------------------------------------------------------------- GNAT queries
    std::string opGnat(const std::vector<std::string> &t)
    {
        size_t i = 1;
        unsigned threads = needN(t, i), n = needN(t, i), q = needN(t, i), k = needN(t, i);
        uint64_t seed = needN(t, i);
        unsigned reps = 2, small = 0;
        if (i < t.size())
        {
            reps = needN(t, i);
            small = needN(t, i);
        }
        XorShift r(seed);
        std::vector<std::array<double, 3>> pts(n + q);
        for (auto &p : pts)
            p = {r.unit(), r.unit(), r.unit()};
        // small: many internal nodes (degree 2..6, at most 8 points per leaf) so that concurrent queries keep
        // meeting in the same internal nodes; otherwise the defaults (degree 4..12, 50 per leaf)
        ompl::NearestNeighborsGNAT<int> nn(small ? 4 : 8, small ? 2 : 4, small ? 6 : 12, small ? 8 : 50);
        nn.setDistanceFunction([&pts](const int &a, const int &b) {
            double s = 0;
            for (int d = 0; d < 3; ++d)
                s += (pts[a][d] - pts[b][d]) * (pts[a][d] - pts[b][d]);
            return std::sqrt(s);
        });
        for (unsigned j = 0; j < n; ++j)
            nn.add((int)j);
        const double radius = 0.15;
        // sequential answers (exhaustive, independent of the structure) and the structure's own sequential answers
        std::vector<int> seq1(q);
        std::vector<std::vector<int>> seqK(q), seqR(q);
        unsigned long seqWrong = 0;
        for (unsigned j = 0; j < q; ++j)
        {
            int query = (int)(n + j);
            seq1[j] = nn.nearest(query);
            nn.nearestK(query, k, seqK[j]);
            nn.nearestR(query, radius, seqR[j]);
            // exhaustive check of nearest and of the radius set
            int best = 0;
            double bd = 1e300;
            std::set<int> inR;
            for (unsigned p = 0; p < n; ++p)
            {
                double s = 0;
                for (int d = 0; d < 3; ++d)
                    s += (pts[p][d] - pts[query][d]) * (pts[p][d] - pts[query][d]);
                s = std::sqrt(s);
                if (s < bd)
                {
                    bd = s;
                    best = (int)p;
                }
                if (s <= radius)
                    inR.insert((int)p);
            }
            if (best != seq1[j] || std::set<int>(seqR[j].begin(), seqR[j].end()) != inR || seqK[j].size() != std::min(k, n) ||
                (!seqK[j].empty() && seqK[j][0] != best))
                ++seqWrong;
        }
        std::atomic<unsigned long> mismatches{0};
        SpinBarrier bar(threads);
        runThreads(threads, [&](unsigned th) {
            bar.wait();
            std::vector<int> out;
            for (unsigned rep = 0; rep < reps; ++rep)
                for (unsigned jj = 0; jj < q; ++jj)
                {
                    unsigned j = (jj + th * 7) % q;
                    int query = (int)(n + j);
                    if (nn.nearest(query) != seq1[j])
                        ++mismatches;
                    nn.nearestK(query, k, out);
                    if (out != seqK[j])
                        ++mismatches;
                    nn.nearestR(query, radius, out);
                    if (out != seqR[j])
                        ++mismatches;
                }
        });
        return "gnat threads=" + std::to_string(threads) + " n=" + std::to_string(n) + " queries=" +
               std::to_string((unsigned long)threads * q * 3 * reps) + " small=" + std::to_string(small) + " seq_wrong=" + std::to_string(seqWrong) +
               " mismatches=" + std::to_string(mismatches.load());
    }

    // ---------------------------------------------------------------- RNG construction
    std::string opRng(const std::vector<std::string> &t, uint64_t rootSeed)
    {
        size_t i = 1;
        unsigned threads = needN(t, i), per = needN(t, i);
        // optional mode 1: setSeed AFTER first use (some generators exist already; the library logs an error but reseeds the
        // seed generator all the same): the concurrent hand-outs must then be a window of the stream of the NEW seed
        unsigned mode = i < t.size() ? needN(t, i) : 0;
        if (mode == 1)
        {
            for (int k = 0; k < 3; ++k)
            {
                ompl::RNG first;
                (void)first.getLocalSeed();
            }
            rootSeed = rootSeed + 17;
            ompl::RNG::setSeed(rootSeed);
        }
        std::vector<std::vector<std::uint_fast32_t>> got(threads);
        SpinBarrier bar(threads);
        runThreads(threads, [&](unsigned th) {
            got[th].reserve(per);
            bar.wait();
            for (unsigned c = 0; c < per; ++c)
            {
                ompl::RNG rng;
                got[th].push_back(rng.getLocalSeed());
            }
        });
        std::vector<std::uint_fast32_t> all;
        for (auto &g : got)
            all.insert(all.end(), g.begin(), g.end());
        std::multiset<std::uint_fast32_t> ms(all.begin(), all.end());
        std::set<std::uint_fast32_t> distinct(all.begin(), all.end());
        // reference stream: what RNGSeedGenerator draws sequentially (ranlux24_base seeded with the root seed,
        // uniform_int_distribution<>(1, 1e9)); the hand-outs must be one contiguous window of it, as a multiset
        std::ranlux24_base gen(rootSeed);
        std::uniform_int_distribution<> dist(1, 1000000000);
        const size_t horizon = 200000 + all.size();
        std::vector<std::uint_fast32_t> stream(horizon);
        for (auto &s : stream)
            s = dist(gen);
        long window = -1;
        for (size_t p = 0; p + all.size() <= horizon && p < 200000; ++p)
            if (ms.count(stream[p]))
            {
                std::multiset<std::uint_fast32_t> w(stream.begin() + p, stream.begin() + p + all.size());
                if (w == ms)
                    window = (long)p;
                break;
            }
        std::multiset<std::uint_fast32_t> ref;
        size_t refDistinct = 0;
        if (window >= 0)
        {
            std::set<std::uint_fast32_t> d(stream.begin() + window, stream.begin() + window + all.size());
            refDistinct = d.size();
        }
        // per-thread view: the k-th generator of two different threads must not get the same seed more often than the
        // reference window repeats values (a per-thread seed generator would make whole columns equal)
        size_t equalColumns = 0;
        for (unsigned c = 0; c < per; ++c)
        {
            bool allEqual = threads >= 2;
            for (unsigned th = 1; th < threads && allEqual; ++th)
                allEqual = got[th][c] == got[0][c];
            equalColumns += allEqual ? 1 : 0;
        }
        return "rng threads=" + std::to_string(threads) + " mode=" + std::to_string(mode) + " equal_columns=" + std::to_string(equalColumns) +
               " created=" + std::to_string(all.size()) +
               " distinct=" + std::to_string(distinct.size()) + " window=" + std::to_string(window) +
               " ref_distinct=" + std::to_string(refDistinct);
    }

    // ---------------------------------------------------------------- StateSpace registry
    size_t registrySize()
    {
        std::ostringstream os;
        ob::StateSpace::List(os);
        std::string s = os.str();
        return std::count(s.begin(), s.end(), '\n');
    }

    std::string opSpaces(const std::vector<std::string> &t)
    {
        size_t i = 1;
        unsigned threads = needN(t, i), per = needN(t, i), withList = needN(t, i);
        size_t before = registrySize();
        std::vector<std::vector<std::string>> names(threads);
        std::atomic<unsigned long> listed{0};
        SpinBarrier bar(threads);
        runThreads(threads, [&](unsigned th) {
            bar.wait();
            for (unsigned c = 0; c < per; ++c)
            {
                ob::StateSpacePtr sp;
                switch ((c + th) % 3)
                {
                    case 0:
                        sp = std::make_shared<ob::RealVectorStateSpace>(2);
                        break;
                    case 1:
                        sp = std::make_shared<ob::SO2StateSpace>();
                        break;
                    default:
                        sp = std::make_shared<ob::SE2StateSpace>();  // compound: registers three spaces
                        break;
                }
                // the constructor's automatic name is "Space<counter>" until the subclass renames it; the
                // compound's components keep theirs
                if (auto *c2 = dynamic_cast<ob::CompoundStateSpace *>(sp.get()))
                    for (unsigned s = 0; s < c2->getSubspaceCount(); ++s)
                        names[th].push_back(c2->getSubspace(s)->getName());
                names[th].push_back(sp->getName());
                if (withList && c % 16 == 0)
                {
                    std::ostringstream os;
                    ob::StateSpace::List(os);
                    listed += os.str().size() > 0;
                }
            }
        });
        size_t after = registrySize();
        size_t total = 0;
        std::set<std::string> distinct;
        for (auto &v : names)
            for (auto &s : v)
            {
                ++total;
                distinct.insert(s);
            }
        return "spaces threads=" + std::to_string(threads) + " list=" + std::to_string(withList) + " created=" + std::to_string(total) +
               " distinct_names=" + std::to_string(distinct.size()) + " registry_before=" + std::to_string(before) +
               " registry_after=" + std::to_string(after);
    }

    // ---------------------------------------------------------------- solutions of a shared ProblemDefinition
    bool sortedSnapshot(const std::vector<ob::PlannerSolution> &v)
    {
        for (size_t j = 0; j + 1 < v.size(); ++j)
            if (v[j + 1] < v[j])
                return false;
        return true;
    }

    std::string opSolutions(const std::vector<std::string> &t)
    {
        size_t i = 1;
        unsigned adders = needN(t, i), readers = needN(t, i), per = needN(t, i);
        auto space = std::make_shared<ob::RealVectorStateSpace>(1);
        space->setBounds(0, 1e6);
        auto si = std::make_shared<ob::SpaceInformation>(space);
        si->setStateValidityChecker([](const ob::State *) { return true; });
        si->setup();
        auto pdef = std::make_shared<ob::ProblemDefinition>(si);
        // one path per (adder, index), all lengths distinct; every third one is approximate with a distinct difference
        std::vector<std::vector<ob::PathPtr>> paths(adders);
        for (unsigned a = 0; a < adders; ++a)
            for (unsigned c = 0; c < per; ++c)
            {
                auto p = std::make_shared<og::PathGeometric>(si);
                ob::State *s0 = si->allocState(), *s1 = si->allocState();
                s0->as<ob::RealVectorStateSpace::StateType>()->values[0] = 0;
                s1->as<ob::RealVectorStateSpace::StateType>()->values[0] = 1.0 + a + (double)adders * c;
                p->append(s0);
                p->append(s1);
                si->freeState(s0);
                si->freeState(s1);
                paths[a].push_back(p);
            }
        std::atomic<bool> done{false};
        std::atomic<unsigned long> snapshots{0}, badSnapshots{0}, shrink{0};
        SpinBarrier bar(adders + readers);
        std::vector<std::thread> th;
        for (unsigned a = 0; a < adders; ++a)
            th.emplace_back([&, a] {
                bar.wait();
                for (unsigned c = 0; c < per; ++c)
                {
                    double len = 1.0 + a + (double)adders * c;
                    if (c % 3 == 2)
                        pdef->addSolutionPath(paths[a][c], true, len, "t" + std::to_string(a));
                    else
                        pdef->addSolutionPath(paths[a][c], false, 0.0, "t" + std::to_string(a));
                }
            });
        for (unsigned r = 0; r < readers; ++r)
            th.emplace_back([&] {
                bar.wait();
                size_t last = 0;
                while (!done.load())
                {
                    auto snap = pdef->getSolutions();
                    ++snapshots;
                    if (!sortedSnapshot(snap))
                        ++badSnapshots;
                    if (snap.size() < last)
                        ++shrink;
                    last = snap.size();
                    size_t cnt = pdef->getSolutionCount();
                    if (cnt < last)
                        ++shrink;
                    (void)pdef->hasExactSolution();
                    (void)pdef->getSolutionPath();
                    (void)pdef->getSolutionDifference();
                }
            });
        for (unsigned a = 0; a < adders; ++a)
            th[a].join();
        done = true;
        for (unsigned r = 0; r < readers; ++r)
            th[adders + r].join();
        auto fin = pdef->getSolutions();
        std::multiset<double> want, have;
        for (unsigned a = 0; a < adders; ++a)
            for (unsigned c = 0; c < per; ++c)
                want.insert(1.0 + a + (double)adders * c);
        std::set<int> idx;
        for (auto &s : fin)
        {
            have.insert(s.length_);
            idx.insert(s.index_);
        }
        return "solutions adders=" + std::to_string(adders) + " readers=" + std::to_string(readers) +
               " added=" + std::to_string((unsigned long)adders * per) + " final=" + std::to_string(fin.size()) +
               " multiset_ok=" + std::to_string(want == have) + " sorted_ok=" + std::to_string(sortedSnapshot(fin)) +
               " distinct_index=" + std::to_string(idx.size()) + " snapshots_bad=" + std::to_string(badSnapshots.load()) +
               " shrink=" + std::to_string(shrink.load()) + " snapshots_nonzero=" + std::to_string(snapshots.load() > 0);
    }

    // ---------------------------------------------------------------- solutions with clears: real-time-order oracle
    // Every call takes a ticket from one atomic clock when it starts and when it returns.  Whatever the linearization,
    //  (R) a solution whose add RETURNED before some clear STARTED cannot be in the final set (ids are never re-added),
    //  (D) a solution whose add STARTED after every clear had RETURNED must be in the final set,
    // and the same for every snapshot a reader took (with the clears/adds that returned before the snapshot started).
    std::string opSolMix(const std::vector<std::string> &t)
    {
        size_t i = 1;
        unsigned adders = needN(t, i), readers = needN(t, i), clearers = needN(t, i), per = needN(t, i);
        uint64_t seed = needN(t, i);
        auto space = std::make_shared<ob::RealVectorStateSpace>(1);
        space->setBounds(0, 1e7);
        auto si = std::make_shared<ob::SpaceInformation>(space);
        si->setStateValidityChecker([](const ob::State *) { return true; });
        si->setup();
        auto pdef = std::make_shared<ob::ProblemDefinition>(si);
        struct Call
        {
            uint64_t t0, t1;
        };
        std::atomic<uint64_t> clock{1};
        std::vector<std::vector<ob::PathPtr>> paths(adders);
        for (unsigned a = 0; a < adders; ++a)
            for (unsigned c = 0; c < per; ++c)
            {
                auto p = std::make_shared<og::PathGeometric>(si);
                ob::State *s0 = si->allocState(), *s1 = si->allocState();
                s0->as<ob::RealVectorStateSpace::StateType>()->values[0] = 0;
                s1->as<ob::RealVectorStateSpace::StateType>()->values[0] = 1.0 + a + (double)adders * c;
                p->append(s0);
                p->append(s1);
                si->freeState(s0);
                si->freeState(s1);
                paths[a].push_back(p);
            }
        std::vector<std::vector<Call>> addLog(adders, std::vector<Call>(per)), clearLog(clearers);
        struct Snap
        {
            uint64_t t0, t1;
            std::vector<double> ids;
        };
        std::vector<std::vector<Snap>> snaps(readers);
        std::atomic<bool> done{false};
        std::atomic<unsigned long> unsorted{0};
        SpinBarrier bar(adders + readers + clearers);
        std::vector<std::thread> th;
        for (unsigned a = 0; a < adders; ++a)
            th.emplace_back([&, a] {
                XorShift r(seed * 131 + a);
                bar.wait();
                for (unsigned c = 0; c < per; ++c)
                {
                    double len = 1.0 + a + (double)adders * c;
                    addLog[a][c].t0 = clock.fetch_add(1);
                    pdef->addSolutionPath(paths[a][c], c % 3 == 2, c % 3 == 2 ? len : 0.0, "t" + std::to_string(a));
                    addLog[a][c].t1 = clock.fetch_add(1);
                    if (r.next() % 8 == 0)
                        sched_yield();
                }
            });
        for (unsigned cidx = 0; cidx < clearers; ++cidx)
            th.emplace_back([&, cidx] {
                XorShift r(seed * 977 + cidx);
                bar.wait();
                // a handful of clears spread over the run of the adders
                for (unsigned c = 0; c < 6 && !done.load(); ++c)
                {
                    for (unsigned w = 0, n = 50 + r.next() % 400; w < n; ++w)
                        sched_yield();
                    Call k;
                    k.t0 = clock.fetch_add(1);
                    pdef->clearSolutionPaths();
                    k.t1 = clock.fetch_add(1);
                    clearLog[cidx].push_back(k);
                }
            });
        for (unsigned rd = 0; rd < readers; ++rd)
            th.emplace_back([&, rd] {
                bar.wait();
                while (!done.load())
                {
                    Snap s;
                    s.t0 = clock.fetch_add(1);
                    auto v = pdef->getSolutions();
                    s.t1 = clock.fetch_add(1);
                    if (!sortedSnapshot(v))
                        ++unsorted;
                    if (snaps[rd].size() < 300)
                    {
                        for (auto &x : v)
                            s.ids.push_back(x.length_);
                        snaps[rd].push_back(std::move(s));
                    }
                    (void)pdef->getSolutionCount();
                    (void)pdef->hasExactSolution();
                }
            });
        for (unsigned a = 0; a < adders; ++a)
            th[a].join();
        done = true;
        for (unsigned k = adders; k < th.size(); ++k)
            th[k].join();
        auto fin = pdef->getSolutions();
        std::map<double, Call> addOf;
        for (unsigned a = 0; a < adders; ++a)
            for (unsigned c = 0; c < per; ++c)
                addOf[1.0 + a + (double)adders * c] = addLog[a][c];
        std::vector<Call> clears;
        for (auto &v : clearLog)
            clears.insert(clears.end(), v.begin(), v.end());
        unsigned long resurrected = 0, dropped = 0, unknown = 0, dup = 0, snapResurrected = 0, snapDropped = 0;
        // observation = a getSolutions() call that started at ticket obsStart and returned at obsEnd
        auto judge = [&](const std::vector<double> &ids, uint64_t obsStart, uint64_t obsEnd, unsigned long &res,
                         unsigned long &drp) {
            std::set<double> have(ids.begin(), ids.end());
            if (have.size() != ids.size())
                ++dup;
            for (double id : have)
            {
                auto it = addOf.find(id);
                if (it == addOf.end())
                {
                    ++unknown;
                    continue;
                }
                // (R) its add returned before a clear started, and that clear returned before the observation started
                for (auto &c : clears)
                    if (c.t1 < obsStart && it->second.t1 < c.t0)
                    {
                        ++res;
                        break;
                    }
            }
            // (D) its add returned before the observation started and no clear can be ordered between the two:
            // every clear either returned before the add started or started after the observation returned
            for (auto &kv : addOf)
                if (kv.second.t1 < obsStart && !have.count(kv.first))
                {
                    bool excused = false;
                    for (auto &c : clears)
                        if (!(c.t1 < kv.second.t0 || c.t0 > obsEnd))
                            excused = true;
                    if (!excused)
                        ++drp;
                }
        };
        std::vector<double> finIds;
        for (auto &s : fin)
            finIds.push_back(s.length_);
        judge(finIds, ~0ull, ~0ull, resurrected, dropped);
        unsigned long nsnaps = 0;
        for (auto &v : snaps)
            for (auto &s : v)
            {
                ++nsnaps;
                judge(s.ids, s.t0, s.t1, snapResurrected, snapDropped);
            }
        return "solmix adders=" + std::to_string(adders) + " readers=" + std::to_string(readers) + " clearers=" +
               std::to_string(clearers) + " adds=" + std::to_string((unsigned long)adders * per) + " clears=" +
               std::to_string(clears.size()) + " final=" + std::to_string(fin.size()) + " resurrected=" +
               std::to_string(resurrected) + " dropped=" + std::to_string(dropped) + " unknown=" + std::to_string(unknown) +
               " duplicates=" + std::to_string(dup) + " sorted_ok=" + std::to_string(sortedSnapshot(fin)) +
               " snapshots=" + std::to_string(nsnaps) + " snapshots_unsorted=" + std::to_string(unsorted.load()) +
               " snap_resurrected=" + std::to_string(snapResurrected) + " snap_dropped=" + std::to_string(snapDropped);
    }

    // ---------------------------------------------------------------- directed add / clear race
    // The solutions carry an objective whose isCostBetterThan can hold one particular thread inside the comparison —
    // i.e. inside the std::sort of ITS add — until the main thread has run clearSolutionPaths() and k further adds
    // (bounded wait: when add sorts under the lock, as it should, the main thread simply blocks until the wait runs out).
    class HookObjective : public ob::PathLengthOptimizationObjective
    {
    public:
        using ob::PathLengthOptimizationObjective::PathLengthOptimizationObjective;
        bool isCostBetterThan(ob::Cost c1, ob::Cost c2) const override
        {
            if (armed.load() && holdThisThread() && !held.exchange(true))
            {
                inSort = true;
                auto until = std::chrono::steady_clock::now() + std::chrono::milliseconds(150);
                while (!release.load() && std::chrono::steady_clock::now() < until)
                    sched_yield();
                if (!release.load())
                    ++timeouts;
            }
            return c1.value() < c2.value();
        }
        static bool &holdThisThread()
        {
            thread_local bool h = false;
            return h;
        }
        mutable std::atomic<bool> armed{false}, held{false}, inSort{false}, release{false};
        mutable std::atomic<unsigned> timeouts{0};
    };

    std::string opSolRace(const std::vector<std::string> &t)
    {
        size_t i = 1;
        unsigned k = needN(t, i), rounds = needN(t, i);
        auto space = std::make_shared<ob::RealVectorStateSpace>(1);
        space->setBounds(0, 1e7);
        auto si = std::make_shared<ob::SpaceInformation>(space);
        si->setStateValidityChecker([](const ob::State *) { return true; });
        si->setup();
        unsigned long bad = 0, held = 0, timeouts = 0;
        std::string firstBad;
        for (unsigned round = 0; round < rounds; ++round)
        {
            auto pdef = std::make_shared<ob::ProblemDefinition>(si);
            auto opt = std::make_shared<HookObjective>(si);
            pdef->setOptimizationObjective(opt);
            auto mk = [&](double len) {
                auto p = std::make_shared<og::PathGeometric>(si);
                ob::State *s0 = si->allocState(), *s1 = si->allocState();
                s0->as<ob::RealVectorStateSpace::StateType>()->values[0] = 0;
                s1->as<ob::RealVectorStateSpace::StateType>()->values[0] = len;
                p->append(s0);
                p->append(s1);
                si->freeState(s0);
                si->freeState(s1);
                ob::PlannerSolution sol(p);
                sol.setOptimized(opt, ob::Cost(len), false);
                return sol;
            };
            // old solutions 1..k, the raced one k+1 (x), the new ones 101..100+k
            for (unsigned j = 1; j <= k; ++j)
                pdef->addSolutionPath(mk(j));
            opt->armed = true;
            std::thread A([&] {
                HookObjective::holdThisThread() = true;
                pdef->addSolutionPath(mk(k + 1));
                HookObjective::holdThisThread() = false;
            });
            auto until = std::chrono::steady_clock::now() + std::chrono::seconds(10);
            while (!opt->inSort.load() && std::chrono::steady_clock::now() < until)
                sched_yield();
            held += opt->inSort.load();
            pdef->clearSolutionPaths();
            for (unsigned j = 1; j <= k; ++j)
                pdef->addSolutionPath(mk(100 + j));
            opt->release = true;
            A.join();
            timeouts += opt->timeouts.load();
            // sequential outcomes: {101..100+k} with or without x
            std::multiset<double> have, want, wantX;
            for (auto &s : pdef->getSolutions())
                have.insert(s.length_);
            for (unsigned j = 1; j <= k; ++j)
                want.insert(100 + j);
            wantX = want;
            wantX.insert(k + 1);
            if (have != want && have != wantX)
            {
                ++bad;
                if (firstBad.empty())
                    for (double d : have)
                        firstBad += (firstBad.empty() ? "" : ",") + std::to_string((long)d);
            }
        }
        return "solrace k=" + std::to_string(k) + " rounds=" + std::to_string(rounds) + " held=" + std::to_string(held) +
               " lock_waits=" + std::to_string(timeouts) + " bad=" + std::to_string(bad) +
               " first_bad=" + (firstBad.empty() ? std::string("-") : firstBad);
    }

    // ---------------------------------------------------------------- CForest::newSolutionFound, directed schedule
    // (construction of seeded/C19-s4/demo.cpp.)  Two instances of a tiny planner run inside a real CForest, each on the worker
    // thread CForest::solve() starts for it, and report one solution each through the intermediate-solution callback CForest
    // installs: A cost a, B cost b.  The schedule  "A enters the cost comparison of its report -> B does its whole report ->
    // A finishes"  is forced without sleeps: the objective's isCostBetterThan computes its answer and then holds A until B
    // had its turn; B looks at CForest's own mutex (protected, through a derived class): if A owns it while comparing (the
    // report is a monitor, as it must be) B lets A finish first and queues behind it.
    // Sequential spec of the monitor: best cost afterwards = min(a, b); paths shared = number of strict improvements in SOME
    // sequential order of the two reports; best cost = cost of the best solution in the problem definition.
    std::atomic<bool> cfArmed{false}, cfAComparing{false}, cfRelease{false};
    std::atomic<int> cfSerialised{-1};
    thread_local int cfRole = -1;
    thread_local bool cfInReport = false;
    double cfCost[2] = {0., 0.};
    // g++'s TSan pass does not instrument a class-type argument passed by value straight from memory: in
    // `opt_->isCostBetterThan(cost, bestCost_)` the load of bestCost_ (`movsd 0x168(%r12),%xmm1`) carries no __tsan_read8, so
    // the library's own comparison read is invisible to the race detector wherever it stands.  The hook therefore reads the
    // field once itself (instrumented, through the derived class) at the very point of the comparison, on the same thread,
    // holding exactly the locks the library holds there: ordered by the mutex when the report is a monitor, a reported race
    // against the other instance's update when the comparison was moved out of the lock.
    double (*cfPeekFn)() = nullptr;
    double cfPeekSink = 0;
    unsigned cfFree = 0;  // > 0: un-choreographed run, this many reports per instance

    class CfObjective : public ob::PathLengthOptimizationObjective
    {
    public:
        using ob::PathLengthOptimizationObjective::PathLengthOptimizationObjective;
        bool isCostBetterThan(ob::Cost c1, ob::Cost c2) const override
        {
            if (cfRole == 0 && cfInReport && cfPeekFn)
                cfPeekSink = cfPeekFn();
            const bool better = ob::OptimizationObjective::isCostBetterThan(c1, c2);
            // (relaxed on purpose: the choreography must not itself order A's comparison before B's update — then a race
            // detector still sees the two accesses to CForest's field exactly as unordered as the library leaves them)
            if (cfRole == 0 && cfInReport && cfArmed.exchange(false, std::memory_order_relaxed))
            {
                cfAComparing.store(true, std::memory_order_relaxed);
                auto until = std::chrono::steady_clock::now() + std::chrono::seconds(20);  // hang guard only
                while (!cfRelease.load(std::memory_order_relaxed) && std::chrono::steady_clock::now() < until)
                    std::this_thread::yield();
            }
            return better;
        }
    };

    class ProbedCForest : public og::CForest
    {
    public:
        using og::CForest::CForest;
        double peekBestCost()
        {
            return bestCost_.value();
        }
        bool reportInProgress()
        {
            for (int i = 0; i < 4; ++i)  // try_lock may fail spuriously; a held mutex fails every time
                if (newSolutionFoundMutex_.try_lock())
                {
                    newSolutionFoundMutex_.unlock();
                    return false;
                }
            return true;
        }
    };
    ProbedCForest *cfForest = nullptr;
    double cfPeekImpl()
    {
        return cfForest ? cfForest->peekBestCost() : 0.;
    }
    int cfCount = 0;

    class CfReporter : public ob::Planner
    {
    public:
        CfReporter(const ob::SpaceInformationPtr &si) : ob::Planner(si, "Reporter" + std::to_string(cfCount)), id_(cfCount++)
        {
            specs_.canReportIntermediateSolutions = true;
            specs_.optimizingPaths = true;
            declareParam<bool>("focus_search", this, &CfReporter::setFocusSearch, &CfReporter::getFocusSearch, "0,1");
        }
        ~CfReporter() override
        {
            for (auto *st : states_)
                si_->freeState(st);
        }
        void setFocusSearch(bool f)
        {
            focus_ = f;
        }
        bool getFocusSearch() const
        {
            return focus_;
        }
        ob::PlannerStatus solve(const ob::PlannerTerminationCondition &) override
        {
            cfRole = id_;
            const ob::OptimizationObjectivePtr opt = pdef_->getOptimizationObjective();
            // (0,0) -> (0,h) -> (4,h) -> (4,0): length 4 + 2h
            const double h = (cfCost[id_] - 4.) / 2.;
            const double xy[4][2] = {{0., 0.}, {0., h}, {4., h}, {4., 0.}};
            auto path(std::make_shared<og::PathGeometric>(si_));
            std::vector<const ob::State *> cstates;
            for (const auto &p : xy)
            {
                ob::State *st = si_->allocState();
                st->as<ob::RealVectorStateSpace::StateType>()->values[0] = p[0];
                st->as<ob::RealVectorStateSpace::StateType>()->values[1] = p[1];
                states_.push_back(st);
                cstates.push_back(st);
                path->append(st);
            }
            const ob::Cost cost = path->cost(opt);
            const ob::ReportIntermediateSolutionFn report = pdef_->getIntermediateSolutionCallback();
            auto doReport = [&] {
                cfInReport = true;
                report(this, cstates, cost);
                cfInReport = false;
            };
            if (cfFree)
            {
                // both instances report strictly improving costs as fast as they can: A 2·cfFree+100, …, B one less each
                for (unsigned k = 0; k < cfFree; ++k)
                {
                    report(this, cstates, ob::Cost(100. + 2. * (cfFree - k) - id_));
                    if (k % 7 == 3)
                        std::this_thread::yield();
                }
            }
            else if (id_ == 0)
            {
                cfArmed = true;
                doReport();
            }
            else
            {
                auto until = std::chrono::steady_clock::now() + std::chrono::seconds(20);
                while (!cfAComparing.load(std::memory_order_relaxed) && std::chrono::steady_clock::now() < until)
                    std::this_thread::yield();
                if (cfForest->reportInProgress())
                {
                    cfSerialised = 1;  // A owns the critical section while comparing: queue behind it
                    cfRelease.store(true, std::memory_order_relaxed);
                    doReport();
                }
                else
                {
                    cfSerialised = 0;  // A's comparison is not covered by the critical section: B's report fits in completely
                    doReport();
                    cfRelease.store(true, std::memory_order_relaxed);
                }
            }
            pdef_->addSolutionPath(path, false, 0.0, getName());
            return ob::PlannerStatus::EXACT_SOLUTION;
        }

    private:
        int id_;
        bool focus_{false};
        std::vector<ob::State *> states_;
    };

    std::string opCfRace(const std::vector<std::string> &t)
    {
        size_t i = 1;
        unsigned rounds = needN(t, i), freeReports = i < t.size() ? needN(t, i) : 0;
        unsigned long bad = 0, serialised = 0, overtaken = 0;
        std::string firstBad = "-";
        cfPeekFn = &cfPeekImpl;
        for (unsigned round = 0; round < rounds + (freeReports ? 1 : 0); ++round)
        {
            cfFree = round == rounds ? freeReports : 0;
            // A is the worse report in even rounds (the case a check-then-act split gets wrong), the better one in odd rounds
            double a = round % 2 == 0 ? 10. + round : 6., b = round % 2 == 0 ? 8. : 9. + round;
            cfCost[0] = a;
            cfCost[1] = b;
            cfArmed = false;
            cfAComparing = false;
            cfRelease = false;
            cfSerialised = -1;
            cfCount = 0;
            auto space(std::make_shared<ob::RealVectorStateSpace>(2));
            space->setBounds(-1., 50.);
            auto si(std::make_shared<ob::SpaceInformation>(space));
            si->setStateValidityChecker([](const ob::State *) { return true; });
            si->setup();
            ob::ScopedState<> start(space), goal(space);
            start[0] = 0.;
            start[1] = 0.;
            goal[0] = 4.;
            goal[1] = 0.;
            auto pdef(std::make_shared<ob::ProblemDefinition>(si));
            pdef->setStartAndGoalStates(start, goal, 1e-6);
            auto opt(std::make_shared<CfObjective>(si));
            pdef->setOptimizationObjective(opt);
            auto cforest(std::make_shared<ProbedCForest>(si));
            cfForest = cforest.get();
            cforest->setProblemDefinition(pdef);
            cforest->addPlannerInstances<CfReporter>(2);
            cforest->setup();
            cforest->solve(ob::plannerNonTerminatingCondition());
            const double best = std::stod(cforest->getBestCost());
            const unsigned long shared = std::stoul(cforest->getNumPathsShared());
            const double pdefBest = pdef->hasSolution() ? pdef->getSolutionPath()->cost(opt).value() : -1.;
            if (cfFree)
            {
                // un-choreographed run: the smallest cost reported is B's last one, 101; every report is a candidate improvement
                bool okFree = std::fabs(best - 101.) < 1e-9 && shared >= 1 && shared <= 2ul * cfFree;
                if (!okFree)
                {
                    ++bad;
                    if (firstBad == "-")
                        firstBad = "free:best=" + std::to_string((long)best) + ",min_reported=101,shared=" + std::to_string(shared);
                }
                cfFree = 0;
                cfForest = nullptr;
                continue;
            }
            const double expected = std::min(a, b);
            // improvements in the order A;B and in the order B;A
            const unsigned long sAB = 1 + (b < a), sBA = 1 + (a < b);
            serialised += cfSerialised.load() == 1;
            overtaken += cfSerialised.load() == 0;
            bool ok = std::fabs(best - expected) < 1e-9 && std::fabs(best - pdefBest) < 1e-9 && (shared == sAB || shared == sBA) &&
                      cfSerialised.load() >= 0;
            if (!ok)
            {
                ++bad;
                if (firstBad == "-")
                    firstBad = "round" + std::to_string(round) + ":A=" + std::to_string((long)a) + ",B=" + std::to_string((long)b) +
                               ",best=" + std::to_string((long)best) + ",pdef_best=" + std::to_string((long)pdefBest) +
                               ",shared=" + std::to_string(shared) + ",B_overtook_A=" + std::to_string(cfSerialised.load() == 0);
            }
            cfForest = nullptr;
        }
        return "cfrace rounds=" + std::to_string(rounds) + " serialised=" + std::to_string(serialised) +
               " overtaken=" + std::to_string(overtaken) + " bad=" + std::to_string(bad) + " first_bad=" + firstBad;
    }

    // ---------------------------------------------------------------- CForest: lazy sampler allocation vs solution sharing
    // RRT* allocates its sampler at the start of solve(), i.e. on the worker thread CForest started for it, and the CForest
    // space wrapper registers it with CForest::addSampler (push_back under addSamplerMutex_).  Another instance that has
    // already found a solution walks samplers_ in newSolutionFound() WITHOUT that mutex, and calls setStatesToSample() on the
    // other instances' samplers, whose sample*() test statesToSample_.empty() without statesLock_.
    // A slow sampler allocator is ordinary user code: here it holds every worker but the first until the first one has made
    // a few thousand validity calls (so it has found and shared solutions), then lets them register.
    class PlainMotionValidator : public ob::MotionValidator
    {
    public:
        using ob::MotionValidator::MotionValidator;
        bool checkMotion(const ob::State *s1, const ob::State *s2) const override
        {
            if (!si_->isValid(s2))
                return false;
            int nd = si_->getStateSpace()->validSegmentCount(s1, s2);
            ob::State *test = si_->allocState();
            bool ok = true;
            for (int j = 1; j < nd && ok; ++j)
            {
                si_->getStateSpace()->interpolate(s1, s2, (double)j / (double)nd, test);
                ok = si_->isValid(test);
            }
            si_->freeState(test);
            return ok;
        }
        bool checkMotion(const ob::State *s1, const ob::State *s2, std::pair<ob::State *, double> &lastValid) const override
        {
            int nd = si_->getStateSpace()->validSegmentCount(s1, s2);
            ob::State *test = si_->allocState();
            bool ok = true;
            for (int j = 1; j <= nd && ok; ++j)
            {
                si_->getStateSpace()->interpolate(s1, s2, (double)j / (double)nd, test);
                if (!si_->isValid(test))
                {
                    lastValid.second = (double)(j - 1) / (double)nd;
                    if (lastValid.first)
                        si_->getStateSpace()->interpolate(s1, s2, lastValid.second, lastValid.first);
                    ok = false;
                }
            }
            si_->freeState(test);
            return ok;
        }
    };

    // CForest switches its RRT* instances to focused (informed) search, whose sampler takes the space's DEFAULT sampler —
    // a user sampler allocator is bypassed, so the hook is the space's own allocDefaultStateSampler()
    class StallSpace : public ob::RealVectorStateSpace
    {
    public:
        using ob::RealVectorStateSpace::RealVectorStateSpace;
        ob::StateSamplerPtr allocDefaultStateSampler() const override
        {
            if (onAlloc)
                onAlloc();
            return ob::RealVectorStateSpace::allocDefaultStateSampler();
        }
        std::function<void()> onAlloc;
    };

    std::string opCfSamplers(const std::vector<std::string> &t)
    {
        size_t i = 1;
        unsigned instances = needN(t, i);
        unsigned long budget = needN(t, i);
        unsigned ownValidator = needN(t, i);
        unsigned monitor = i < t.size() ? needN(t, i) : 0;
        auto space = std::make_shared<StallSpace>(2);
        space->setBounds(0, 1);
        std::atomic<unsigned long> validity{0};
        std::atomic<unsigned> held{0};
        const std::thread::id mainId = std::this_thread::get_id();
        std::mutex seenMutex;
        std::vector<std::thread::id> seenWorkers;  // worker threads in the order of their first sampler allocation
        space->onAlloc = [&]() {
            const auto me = std::this_thread::get_id();
            if (me != mainId)
            {
                size_t index;
                bool firstCall = false;
                {
                    std::lock_guard<std::mutex> g(seenMutex);
                    auto it = std::find(seenWorkers.begin(), seenWorkers.end(), me);
                    if (it == seenWorkers.end())
                    {
                        seenWorkers.push_back(me);
                        it = seenWorkers.end() - 1;
                        firstCall = true;
                    }
                    index = it - seenWorkers.begin();
                }
                // only the LAST instance to arrive is held (at its first allocation): the others have registered their samplers,
                // so the sharing instance's walk over samplers_ has other samplers to visit while this one is still outside
                if (firstCall && index + 1 == instances)
                {
                    ++held;
                    auto until = std::chrono::steady_clock::now() + std::chrono::seconds(20);  // hang guard only
                    while (validity.load(std::memory_order_relaxed) < 6000 * (unsigned long)(instances - 1) &&
                           std::chrono::steady_clock::now() < until)
                        std::this_thread::yield();
                }
            }
        };
        auto si = std::make_shared<ob::SpaceInformation>(space);
        si->setStateValidityChecker([&validity](const ob::State *st) {
            validity.fetch_add(1, std::memory_order_relaxed);
            const auto *v = st->as<ob::RealVectorStateSpace::StateType>()->values;
            return !(v[0] > 0.45 && v[0] < 0.55 && v[1] < 0.7);
        });
        if (ownValidator)
            si->setMotionValidator(std::make_shared<PlainMotionValidator>(si));
        si->setStateValidityCheckingResolution(0.02);
        si->setup();
        auto pdef = std::make_shared<ob::ProblemDefinition>(si);
        ob::ScopedState<> s(space), g(space);
        s[0] = 0.2;
        s[1] = 0.2;
        g[0] = 0.8;
        g[1] = 0.2;
        pdef->setStartAndGoalStates(s, g, 0.05);
        auto cf = std::make_shared<og::CForest>(si);
        cf->setNumThreads(instances);
        cf->setProblemDefinition(pdef);
        cf->setup();
        auto counter = std::make_shared<vp::EvalCounter>();
        counter->fireAt = budget;
        ob::PlannerTerminationCondition ptc(
            [counter] { return counter->evals.fetch_add(1, std::memory_order_relaxed) + 1 > counter->fireAt; });
        // the progress properties are public, registered with addPlannerProgressProperty, and exist to be polled from another
        // thread while the planner runs (tools::Benchmark's collector thread does exactly this)
        std::atomic<bool> solving{true};
        unsigned long polls = 0, costUp = 0, countDown = 0;
        std::thread mon;
        if (monitor)
            mon = std::thread([&] {
                const auto props = cf->getPlannerProgressProperties();
                double lastCost = std::numeric_limits<double>::infinity();
                long lastPaths = 0, lastStates = 0;
                while (solving.load(std::memory_order_relaxed))
                {
                    for (const auto &p : props)
                    {
                        const std::string v = p.second();
                        if (p.first.rfind("best cost", 0) == 0)
                        {
                            double c = std::atof(v.c_str());
                            if (c == c)  // not NaN (the value before solve() initialises it)
                            {
                                if (c > lastCost + 1e-12)
                                    ++costUp;
                                lastCost = std::min(lastCost, c);
                            }
                        }
                        else
                        {
                            long n = std::atol(v.c_str());
                            long &last = p.first.rfind("shared paths", 0) == 0 ? lastPaths : lastStates;
                            if (n < last)
                                ++countDown;
                            last = std::max(last, n);
                        }
                    }
                    ++polls;
                    std::this_thread::yield();
                }
            });
        ob::PlannerStatus st = cf->solve(ptc);
        solving.store(false, std::memory_order_relaxed);
        if (mon.joinable())
            mon.join();
        std::string out = "cfsamplers instances=" + std::to_string(instances) + " own_validator=" + std::to_string(ownValidator) +
                          " monitor=" + std::to_string(monitor) + " polls_nonzero=" + std::to_string(polls > 0) +
                          " cost_went_up=" + std::to_string(costUp) + " count_went_down=" + std::to_string(countDown) +
                          " status=" + vp::statusName(st) + " held=" + std::to_string(held.load()) +
                          " paths_shared=" + cf->getNumPathsShared() + " states_shared=" + cf->getNumStatesShared() +
                          " nsol=" + std::to_string(pdef->getSolutionCount());
        cf->clear();
        return out;
    }

    // ---------------------------------------------------------------- logging
    // The handler keeps a PLAIN counter on purpose: ompl::msg::log serialises handler calls under its own mutex, so
    // the count must still be exact (and TSan must stay silent) — if that lock goes, this is where it shows.
    class CountingHandler : public ompl::msg::OutputHandler
    {
    public:
        void log(const std::string &text, ompl::msg::LogLevel, const char *, int) override
        {
            ++count;
            bytes += text.size();
        }
        unsigned long count = 0, bytes = 0;
    };

    std::string opLogging(const std::vector<std::string> &t)
    {
        size_t i = 1;
        unsigned threads = needN(t, i), per = needN(t, i);
        CountingHandler h1, h2;
        ompl::msg::OutputHandler *old = ompl::msg::getOutputHandler();
        ompl::msg::LogLevel oldLevel = ompl::msg::getLogLevel();
        ompl::msg::useOutputHandler(&h1);
        ompl::msg::setLogLevel(ompl::msg::LOG_INFO);
        std::atomic<bool> done{false};
        std::atomic<unsigned long> getterNull{0};
        SpinBarrier bar(threads + 1);
        std::thread toggler([&] {
            bar.wait();
            unsigned n = 0;
            while (!done.load())
            {
                ompl::msg::useOutputHandler((n++ & 1) ? &h1 : &h2);
                ompl::msg::setLogLevel((n & 2) ? ompl::msg::LOG_INFO : ompl::msg::LOG_DEBUG);
                if (ompl::msg::getOutputHandler() == nullptr)
                    ++getterNull;
                (void)ompl::msg::getLogLevel();
            }
        });
        runThreads(threads, [&](unsigned th) {
            bar.wait();
            for (unsigned c = 0; c < per; ++c)
            {
                OMPL_INFORM("thread %u message %u", th, c);
                if (ompl::msg::getOutputHandler() == nullptr)
                    ++getterNull;
            }
        });
        done = true;
        toggler.join();
        ompl::msg::useOutputHandler(old);
        ompl::msg::setLogLevel(oldLevel);
        return "logging threads=" + std::to_string(threads) + " sent=" + std::to_string((unsigned long)threads * per) +
               " received=" + std::to_string(h1.count + h2.count) + " getter_null=" + std::to_string(getterNull.load());
    }

    // ---------------------------------------------------------------- terminate() from another thread
    std::string opTerminate(const std::vector<std::string> &t)
    {
        size_t i = 1;
        unsigned pollers = needN(t, i), form = needN(t, i);
        std::atomic<unsigned long> fnCalls{0};
        // form 2: once armed, the predicate announces that it is inside its call and stays there until the main
        // thread has called terminate() (bounded wait), then answers false — the answer the periodic evaluation
        // thread is about to cache is older than the termination request
        std::atomic<bool> armed{false}, inFn{false}, released{false};
        auto fn = [&] {
            ++fnCalls;
            if (form == 2 && armed.load() && !released.load())
            {
                inFn = true;
                auto until = std::chrono::steady_clock::now() + std::chrono::seconds(5);
                while (!released.load() && std::chrono::steady_clock::now() < until)
                    sched_yield();
            }
            return false;
        };
        std::unique_ptr<ob::PlannerTerminationCondition> ptc(
            form ? new ob::PlannerTerminationCondition(fn, 0.0005) : new ob::PlannerTerminationCondition(fn));
        std::vector<std::atomic<unsigned long>> polls(pollers);
        for (auto &p : polls)
            p = 0;
        std::atomic<unsigned> seen{0}, seenBefore{0};
        std::atomic<bool> requested{false}, giveUp{false};
        auto deadline = std::chrono::steady_clock::now() + std::chrono::seconds(60);  // hang guard only
        SpinBarrier bar(pollers + 1);
        std::vector<std::thread> th;
        for (unsigned p = 0; p < pollers; ++p)
            th.emplace_back([&, p] {
                bar.wait();
                while (!giveUp.load())
                {
                    bool before = requested.load();
                    if (ptc->eval())
                    {
                        ++seen;
                        if (!before && !requested.load())
                            ++seenBefore;  // true although nobody asked: a phantom termination
                        break;
                    }
                    ++polls[p];
                }
            });
        bar.wait();
        // let every poller evaluate a few thousand times first
        for (unsigned p = 0; p < pollers; ++p)
            while (polls[p].load() < 2000 && std::chrono::steady_clock::now() < deadline)
                sched_yield();
        unsigned handshake = 0;
        if (form == 2)
        {
            armed = true;
            while (!inFn.load() && std::chrono::steady_clock::now() < deadline)
                sched_yield();
            handshake = inFn.load();
        }
        requested = true;
        ptc->terminate();
        released = true;  // the blocked predicate now returns its (stale) false
        // every poller must see the request; they get 5 s (the hang guard of a run that has already failed)
        auto until = std::chrono::steady_clock::now() + std::chrono::seconds(5);
        while (seen.load() < pollers && std::chrono::steady_clock::now() < until)
            sched_yield();
        // the stale answer must not undo the request later either
        std::this_thread::sleep_for(std::chrono::milliseconds(form == 2 ? 5 : 0));
        bool sticky = ptc->eval() && (*ptc)();
        giveUp = true;
        for (auto &x : th)
            x.join();
        ptc.reset();  // joins the evaluation thread of the periodic form
        return "terminate pollers=" + std::to_string(pollers) + " polled=" + std::to_string(form) +
               " handshake=" + std::to_string(handshake) + " seen=" + std::to_string(seen.load()) +
               " phantom=" + std::to_string(seenBefore.load()) + " sticky=" + std::to_string(sticky);
    }

    // ---------------------------------------------------------------- GoalLazySamples ("remains thread safe")
    // goallazy <readers> <samples> <seed>: a sampling thread fills the goal while <readers> threads use every const/locked
    // entry point; the new-state callback adds extra states through addState(); stopSampling / startSampling / destruction
    // while sampling from the main thread.  Everything the oracle compares is determined by the sampler's sequence.
    std::string opGoalLazy(const std::vector<std::string> &t)
    {
        size_t i = 1;
        unsigned readers = needN(t, i);
        unsigned long samples = needN(t, i);
        uint64_t seed = needN(t, i);
        if (i != t.size() || readers < 1 || readers > 16)
            throw vp::ParseError("goallazy");
        auto space = std::make_shared<ob::RealVectorStateSpace>(2);
        space->setBounds(0.0, 1.0);
        auto si = std::make_shared<ob::SpaceInformation>(space);
        si->setStateValidityChecker([](const ob::State *st) {
            double x = st->as<ob::RealVectorStateSpace::StateType>()->values[0];
            return x < 0.4 || x > 0.6;
        });
        si->setup();
        const double minDist = 0.03;
        // the sampler (called by the sampling thread only): points with y < 0.9
        XorShift rng(seed);
        std::vector<std::array<double, 2>> produced;   // written by the sampling thread, read after it was joined
        std::atomic<unsigned long> calls{0}, trueCalls{0};
        auto sampler = [&](const ob::GoalLazySamples *, ob::State *st) {
            unsigned long n = calls.fetch_add(1, std::memory_order_relaxed);
            if (n >= samples)
                return false;
            double x = rng.unit(), y = 0.9 * rng.unit();
            st->as<ob::RealVectorStateSpace::StateType>()->values[0] = x;
            st->as<ob::RealVectorStateSpace::StateType>()->values[1] = y;
            produced.push_back({x, y});
            trueCalls.fetch_add(1, std::memory_order_relaxed);
            if (n % 16 == 0)
                usleep(20);   // let the readers and the main thread in
            return true;
        };
        auto goal = std::make_shared<ob::GoalLazySamples>(si, sampler, false, minDist);
        // callback: every 8th new state adds one extra state (row y = 0.95, 0.02 apart, at most 40) through addState()
        std::atomic<unsigned> news{0}, extras{0};
        ob::GoalLazySamples *gp = goal.get();
        goal->setNewStateCallback([&, gp](const ob::State *) {
            unsigned k = news.fetch_add(1, std::memory_order_relaxed);
            if (k % 8 == 7 && extras.load() < 40)
            {
                ob::ScopedState<> e(si);
                e[0] = 0.1 + 0.02 * extras.fetch_add(1, std::memory_order_relaxed);
                e[1] = 0.95;
                gp->addState(e.get());
            }
        });
        std::atomic<bool> done{false};
        std::atomic<unsigned long> readerBad{0}, monotoneBad{0}, reads{0};
        std::vector<std::thread> rd;
        for (unsigned r = 0; r < readers; ++r)
            rd.emplace_back([&] {
                ob::ScopedState<> st(si);
                std::size_t lastCount = 0;
                unsigned lastAttempts = 0;
                while (!done.load(std::memory_order_acquire))
                {
                    std::size_t c = goal->getStateCount();
                    if (c < lastCount)
                        ++monotoneBad;
                    lastCount = c;
                    unsigned a = goal->samplingAttemptsCount();
                    if (a < lastAttempts)
                        ++monotoneBad;
                    lastAttempts = a;
                    if (goal->hasStates())
                    {
                        goal->sampleGoal(st.get());
                        double x = st[0], y = st[1];
                        bool sampleRow = y < 0.9 && (x < 0.4 || x > 0.6) && x >= 0.0 && x <= 1.0;
                        bool extraRow = y == 0.95 && x >= 0.1 - 1e-12 && x <= 0.9;
                        if (!sampleRow && !extraRow)
                            ++readerBad;
                        if (!(goal->distanceGoal(st.get()) == 0.0))
                            ++readerBad;   // a state of the goal is at distance 0 from the goal
                        if (goal->maxSampleCount() < c)
                            ++readerBad;
                    }
                    (void)goal->couldSample();
                    (void)goal->isSampling();
                    reads.fetch_add(1, std::memory_order_relaxed);
                }
            });
        // phase 1: start, stop after about a third of the samples
        goal->startSampling();
        while (calls.load() < samples / 3)
            sched_yield();
        goal->stopSampling();
        bool stopOk = !goal->isSampling();
        std::size_t c1 = goal->getStateCount();
        unsigned long calls1 = calls.load();
        usleep(2000);
        stopOk = stopOk && goal->getStateCount() == c1 && calls.load() == calls1;   // joined: nothing can be added any more
        // phase 2: restart, run the sampler dry
        goal->startSampling();
        bool restartOk = true;
        auto t0 = std::chrono::steady_clock::now();
        while (calls.load() <= samples && std::chrono::steady_clock::now() - t0 < std::chrono::seconds(60))
            sched_yield();
        goal->stopSampling();
        restartOk = calls.load() > samples && !goal->isSampling();
        done = true;
        for (auto &x : rd)
            x.join();
        // expected content, sequentially: valid samples in order, each accepted iff farther than minDist from everything
        // accepted so far (the extras sit in their own row, >= 0.05 away from every sample and 0.02 > minDist? no: 0.02 <
        // minDist does not matter, addState() does not test distances)
        std::vector<std::array<double, 2>> acc;
        for (auto &p : produced)
        {
            if (!(p[0] < 0.4 || p[0] > 0.6))
                continue;
            bool far = true;
            for (auto &q : acc)
                if (std::sqrt((p[0] - q[0]) * (p[0] - q[0]) + (p[1] - q[1]) * (p[1] - q[1])) <= minDist)
                {
                    far = false;
                    break;
                }
            if (far)
                acc.push_back(p);
        }
        std::size_t count = goal->getStateCount();
        // every goal state is an accepted sample or an extra, each exactly once
        unsigned long foreign = 0;
        std::multiset<std::pair<double, double>> have;
        for (std::size_t k = 0; k < count; ++k)
        {
            const auto *v = goal->getState(k)->as<ob::RealVectorStateSpace::StateType>()->values;
            have.insert({v[0], v[1]});
        }
        std::multiset<std::pair<double, double>> want;
        for (auto &p : acc)
            want.insert({p[0], p[1]});
        for (unsigned k = 0; k < extras.load(); ++k)
            want.insert({0.1 + 0.02 * k, 0.95});
        if (have != want)
            foreign = 1;
        unsigned attempts = goal->samplingAttemptsCount();
        // phase 3: destruction while sampling
        std::atomic<unsigned long> calls3{0};
        auto endless = [&](const ob::GoalLazySamples *, ob::State *st) {
            calls3.fetch_add(1, std::memory_order_relaxed);
            st->as<ob::RealVectorStateSpace::StateType>()->values[0] = 0.1;
            st->as<ob::RealVectorStateSpace::StateType>()->values[1] = 0.1;
            usleep(50);
            return true;
        };
        auto g3 = std::make_shared<ob::GoalLazySamples>(si, endless, true, minDist);
        while (calls3.load() < 20)
            sched_yield();
        g3.reset();   // ~GoalLazySamples joins the thread
        unsigned long after = calls3.load();
        usleep(2000);
        bool destroyOk = calls3.load() == after;
        goal.reset();
        return "goallazy readers=" + std::to_string(readers) + " produced=" + std::to_string(produced.size()) +
               " expected=" + std::to_string(acc.size() + extras.load()) + " count=" + std::to_string(count) +
               " extras=" + std::to_string(extras.load()) + " content_ok=" + std::to_string(foreign == 0 ? 1 : 0) +
               " attempts=" + std::to_string(attempts) + " true_calls=" + std::to_string(trueCalls.load()) +
               " stop_ok=" + std::to_string(stopOk) + " restart_ok=" + std::to_string(restartOk) +
               " destroy_ok=" + std::to_string(destroyOk) + " reader_bad=" + std::to_string(readerBad.load()) +
               " monotone_bad=" + std::to_string(monotoneBad.load()) + " reads=" + std::to_string(reads.load());
    }

    // goalctl <pollers> <cycles> <mode>: the control surface of GoalLazySamples from several threads.
    //   mode 0: ONE controller thread cycles startSampling() / stopSampling() while <pollers> threads poll isSampling(),
    //           couldSample(), getStateCount() (what a planner thread does while the user starts and stops the sampling);
    //   mode 1: after every start, TWO threads call stopSampling() at the same moment (barrier).
    // Oracle: after stopSampling() has returned (in every caller) isSampling() is false and the sampler is not called again
    // until the next startSampling(); every cycle samples (the sampler is called at least once after a start); no exception.
    std::string opGoalCtl(const std::vector<std::string> &t)
    {
        size_t i = 1;
        unsigned pollers = needN(t, i), cycles = needN(t, i), mode = needN(t, i);
        if (i != t.size() || pollers > 16 || mode > 1)
            throw vp::ParseError("goalctl");
        auto space = std::make_shared<ob::RealVectorStateSpace>(1);
        space->setBounds(0.0, 1.0);
        auto si = std::make_shared<ob::SpaceInformation>(space);
        si->setStateValidityChecker([](const ob::State *) { return true; });
        si->setup();
        std::atomic<unsigned long> calls{0};
        auto sampler = [&](const ob::GoalLazySamples *, ob::State *st) {
            unsigned long n = calls.fetch_add(1, std::memory_order_relaxed);
            st->as<ob::RealVectorStateSpace::StateType>()->values[0] = (n % 7) / 7.0;   // 7 distinct states, then rejections
            usleep(20);
            return true;
        };
        auto goal = std::make_shared<ob::GoalLazySamples>(si, sampler, false, 0.01);
        std::atomic<bool> done{false};
        std::atomic<unsigned long> polls{0}, seenSampling{0};
        std::vector<std::thread> ps;
        for (unsigned p = 0; p < pollers; ++p)
            ps.emplace_back([&] {
                while (!done.load(std::memory_order_acquire))
                {
                    if (goal->isSampling())
                        seenSampling.fetch_add(1, std::memory_order_relaxed);
                    (void)goal->couldSample();
                    (void)goal->getStateCount();
                    polls.fetch_add(1, std::memory_order_relaxed);
                }
            });
        unsigned long stillSampling = 0, calledAfterStop = 0, idleCycles = 0, exceptions = 0;
        for (unsigned c = 0; c < cycles; ++c)
        {
            unsigned long before = calls.load();
            goal->startSampling();
            auto t0 = std::chrono::steady_clock::now();
            while (calls.load() < before + 3 && std::chrono::steady_clock::now() - t0 < std::chrono::seconds(5))
                sched_yield();
            if (calls.load() == before)
                ++idleCycles;
            if (mode == 0)
                goal->stopSampling();
            else
            {
                // two callers at the same moment; a watchdog bounds the wait (two joins of one std::thread may never return)
                auto bar = std::make_shared<SpinBarrier>(2);
                auto finished = std::make_shared<std::atomic<unsigned>>(0);
                auto exc = std::make_shared<std::atomic<unsigned>>(0);
                auto stopper = [goal, bar, finished, exc] {
                    bar->wait();
                    try
                    {
                        goal->stopSampling();
                    }
                    catch (const std::exception &)
                    {
                        exc->fetch_add(1);
                    }
                    finished->fetch_add(1);
                };
                std::thread a(stopper), b(stopper);
                auto w0 = std::chrono::steady_clock::now();
                while (finished->load() < 2 && std::chrono::steady_clock::now() - w0 < std::chrono::seconds(4))
                    usleep(200);
                if (finished->load() < 2)
                {
                    // report and leave the process without joining the stuck threads
                    std::cout << "goalctl pollers=" << pollers << " cycles=" << cycles << " mode=" << mode << " hung_in_cycle=" << c
                              << " finished_callers=" << finished->load() << " exceptions=" << exc->load() << std::endl;
                    std::_Exit(0);
                }
                a.join();
                b.join();
                exceptions += exc->load();
            }
            if (goal->isSampling())
                ++stillSampling;
            unsigned long after = calls.load();
            usleep(300);
            if (calls.load() != after)
                ++calledAfterStop;
        }
        done = true;
        for (auto &x : ps)
            x.join();
        std::size_t count = goal->getStateCount();
        goal.reset();
        return "goalctl pollers=" + std::to_string(pollers) + " cycles=" + std::to_string(cycles) + " mode=" + std::to_string(mode) +
               " still_sampling=" + std::to_string(stillSampling) + " called_after_stop=" + std::to_string(calledAfterStop) +
               " hung_in_cycle=-1 idle_cycles=" + std::to_string(idleCycles) + " exceptions=" + std::to_string(exceptions) +
               " states=" + std::to_string(count) + " polls=" + std::to_string(polls.load()) +
               " seen_sampling=" + std::to_string(seenSampling.load());
    }

    // ---------------------------------------------------------------- directed: a handler that parks inside log()
    // The console promises that OutputHandler::log() is entered by one thread at a time ("it is likely the outputhandler
    // does some I/O, so we serialize it") - handlers carry no synchronisation of their own - and, as a consequence of the
    // same lock, that useOutputHandler / noOutputHandler / restorePreviousOutputHandler return only when no message is
    // being written by the handler they replace (its owner may destroy it then).  ParkHandler records entries and exits
    // with atomics; in a round, the first thread to enter parks inside log() until a second thread has announced that it
    // is about to call the console (handshake) and a bounded time has passed - on a correct console the second thread
    // simply blocks on the console lock for that time.
    class ParkHandler : public ompl::msg::OutputHandler
    {
    public:
        void log(const std::string &text, ompl::msg::LogLevel, const char *, int) override
        {
            int now = inside.fetch_add(1, std::memory_order_acq_rel) + 1;
            if (now > 1)
                overlap.fetch_add(1, std::memory_order_relaxed);
            received.fetch_add(1, std::memory_order_relaxed);
            // program order per sender: "<sender> <serial>"
            unsigned sender = 0, serial = 0;
            if (std::sscanf(text.c_str(), "park %u %u", &sender, &serial) == 2 && sender < 64)
            {
                unsigned prev = (*lastSerial)[sender].exchange(serial + 1, std::memory_order_acq_rel);
                if (prev != serial)
                    orderBad.fetch_add(1, std::memory_order_relaxed);
            }
            if (armed.exchange(false, std::memory_order_acq_rel))
            {
                parked.store(true, std::memory_order_release);
                // stay inside until the partner has announced its call and then `hold` more microseconds (or it got in)
                auto t0 = std::chrono::steady_clock::now();
                bool seenPartner = false;
                auto tPartner = t0;
                for (;;)
                {
                    auto t = std::chrono::steady_clock::now();
                    if (inside.load(std::memory_order_acquire) > 1)
                        break;  // somebody else is in here with us: that is the observation
                    if (!seenPartner && partnerCalling.load(std::memory_order_acquire))
                    {
                        seenPartner = true;
                        tPartner = t;
                    }
                    if (seenPartner && t - tPartner > std::chrono::microseconds(3000))
                        break;
                    if (t - t0 > std::chrono::milliseconds(500))
                        break;  // the partner never came: give up (liveness of the harness itself)
                    sched_yield();
                }
                parked.store(false, std::memory_order_release);
            }
            inside.fetch_sub(1, std::memory_order_acq_rel);
        }
        std::atomic<int> inside{0};
        std::atomic<unsigned long> overlap{0}, received{0}, orderBad{0};
        std::atomic<bool> armed{false}, parked{false}, partnerCalling{false};
        std::array<std::atomic<unsigned>, 64> *lastSerial = nullptr;  // shared by the handlers of one scenario
    };

    // logpark <rounds>: per round four scenarios, each with thread A parked inside h1.log():
    //   0 a second thread logs               -> must not be inside a handler together with A
    //   1 useOutputHandler(&h2) / 2 noOutputHandler() / 3 restorePreviousOutputHandler() from the main thread
    //                                        -> when the call returns, nobody may still be executing inside h1
    std::string opLogPark(const std::vector<std::string> &t)
    {
        size_t i = 1;
        unsigned rounds = needN(t, i);
        if (i != t.size())
            throw vp::ParseError("logpark");
        ompl::msg::OutputHandler *old = ompl::msg::getOutputHandler();
        ompl::msg::LogLevel oldLevel = ompl::msg::getLogLevel();
        unsigned long overlap = 0, sent = 0, received = 0, orderBad = 0, notParked = 0;
        unsigned long stale[4] = {0, 0, 0, 0};
        bool liveness = true;
        for (unsigned r = 0; r < rounds; ++r)
            for (unsigned sc = 0; sc < 4; ++sc)
            {
                ParkHandler h1, h2;
                std::array<std::atomic<unsigned>, 64> serials{};
                h1.lastSerial = h2.lastSerial = &serials;
                ompl::msg::useOutputHandler(&h2);   // previous := whatever, current := h2
                ompl::msg::useOutputHandler(&h1);   // previous := h2, current := h1
                ompl::msg::setLogLevel(ompl::msg::LOG_INFO);
                h1.armed = true;
                std::atomic<unsigned> serialA{0};
                std::thread a([&] {
                    OMPL_INFORM("park %u %u", 0u, serialA.fetch_add(1));
                    OMPL_INFORM("park %u %u", 0u, serialA.fetch_add(1));
                });
                sent += 2;
                auto t0 = std::chrono::steady_clock::now();
                while (!h1.parked.load(std::memory_order_acquire) && std::chrono::steady_clock::now() - t0 < std::chrono::seconds(2))
                    sched_yield();
                if (!h1.parked.load(std::memory_order_acquire))
                    ++notParked;
                if (sc == 0)
                {
                    std::thread b([&] {
                        h1.partnerCalling.store(true, std::memory_order_release);
                        OMPL_INFORM("park %u %u", 1u, 0u);
                        OMPL_WARN("park %u %u", 1u, 1u);
                    });
                    sent += 2;
                    b.join();
                }
                else
                {
                    h1.partnerCalling.store(true, std::memory_order_release);
                    if (sc == 1)
                        ompl::msg::useOutputHandler(&h2);
                    else if (sc == 2)
                        ompl::msg::noOutputHandler();
                    else
                        ompl::msg::restorePreviousOutputHandler();
                    // the call has returned: the replaced handler must be idle (its owner may destroy it now)
                    if (h1.inside.load(std::memory_order_acquire) != 0)
                        ++stale[sc];
                }
                a.join();
                // A's second message goes to whatever handler is current after the replacement (none for sc == 2)
                unsigned long got = h1.received + h2.received;
                unsigned long want = sc == 0 ? 4 : (sc == 2 ? 1 : 2);
                // sc 2: A's second message may have been sent before or after noOutputHandler(): 1 or 2 are both sequential outcomes
                if (!(got == want || (sc == 2 && got == 2)))
                    liveness = false;
                received += got;
                overlap += h1.overlap + h2.overlap;
                orderBad += h1.orderBad + h2.orderBad;
                ompl::msg::useOutputHandler(old);
            }
        ompl::msg::useOutputHandler(old);
        ompl::msg::setLogLevel(oldLevel);
        return "logpark rounds=" + std::to_string(rounds) + " parked_missing=" + std::to_string(notParked) +
               " overlap=" + std::to_string(overlap) + " stale_use=" + std::to_string(stale[1]) +
               " stale_none=" + std::to_string(stale[2]) + " stale_restore=" + std::to_string(stale[3]) +
               " order_bad=" + std::to_string(orderBad) + " counts_ok=" + std::to_string(liveness ? 1 : 0) +
               " sent=" + std::to_string(sent) + " received=" + std::to_string(received);
    }

    // ---------------------------------------------------------------- multi-threaded planners
    // validity = in bounds and outside every box; with probability perturb/1000 the call yields or sleeps a few
    // microseconds first (it runs on the planner's worker threads), to shake the schedule
    class PerturbChecker : public ob::StateValidityChecker
    {
    public:
        PerturbChecker(const ob::SpaceInformationPtr &si, vp::Env env, unsigned permille, uint64_t seed)
          : ob::StateValidityChecker(si), env_(std::move(env)), permille_(permille), seed_(seed)
        {
        }
        bool isValid(const ob::State *state) const override
        {
            calls_.fetch_add(1, std::memory_order_relaxed);  // relaxed: must not order the planner's worker threads
            if (permille_)
            {
                thread_local XorShift r(seed_ ^ std::hash<std::thread::id>()(std::this_thread::get_id()));
                uint64_t x = r.next();
                if (x % 1000 < permille_)
                {
                    if ((x >> 20) & 1)
                        sched_yield();
                    else
                        usleep(1 + ((x >> 24) % 40));
                }
            }
            std::vector<double> r;
            si_->getStateSpace()->copyToReals(r, state);
            return si_->satisfiesBounds(state) && !env_.collides(r);
        }
        unsigned long calls() const
        {
            return calls_;
        }

    private:
        vp::Env env_;
        unsigned permille_;
        uint64_t seed_;
        mutable std::atomic<unsigned long> calls_{0};
    };

    std::string opPlanner(const std::vector<std::string> &t, uint64_t rootSeed)
    {
        size_t i = 1;
        if (i >= t.size())
            throw vp::ParseError("planner");
        std::string name = t[i++];
        unsigned threads = needN(t, i);
        unsigned long budget = needN(t, i);
        unsigned permille = needN(t, i);
        double resolution = needF(t, i), threshold = needF(t, i);
        auto space = vp::parseSpaceX(t, i);
        vp::Env env;
        env.parse(t, i);
        unsigned dim = space->getDimension();
        std::vector<double> start(dim), goal(dim);
        for (auto &v : start)
            v = needF(t, i);
        for (auto &v : goal)
            v = needF(t, i);
        if (i != t.size())
            throw vp::ParseError("trailing");
        auto si = std::make_shared<ob::SpaceInformation>(space);
        auto svc = std::make_shared<PerturbChecker>(si, env, permille, rootSeed);
        si->setStateValidityChecker(svc);
        si->setStateValidityCheckingResolution(resolution);
        si->setup();
        auto pdef = std::make_shared<ob::ProblemDefinition>(si);
        ob::ScopedState<> s(space), g(space);
        space->copyFromReals(s.get(), start);
        space->copyFromReals(g.get(), goal);
        pdef->addStartState(s);
        auto gs = std::make_shared<ob::GoalState>(si);
        gs->setState(g);
        gs->setThreshold(threshold);
        pdef->setGoal(gs);
        ob::PlannerPtr pl;
        if (name == "pRRT")
        {
            auto p = std::make_shared<og::pRRT>(si);
            p->setThreadCount(threads);
            pl = p;
        }
        else if (name == "pSBL")
        {
            auto p = std::make_shared<og::pSBL>(si);
            p->setThreadCount(threads);
            pl = p;
        }
        else if (name == "CForest")
        {
            auto p = std::make_shared<og::CForest>(si);
            p->setNumThreads(threads);
            pl = p;
        }
        else if (name == "PRM")
            pl = std::make_shared<og::PRM>(si);
        else if (name == "APS")
        {
            auto p = std::make_shared<og::AnytimePathShortening>(si);
            for (unsigned k = 0; k < threads; ++k)
            {
                ob::PlannerPtr sub;
                if (k % 2 == 0)
                    sub = std::make_shared<og::RRT>(si);
                else
                    sub = std::make_shared<og::RRTConnect>(si);
                p->addPlanner(sub);
            }
            pl = p;
        }
        else
            throw vp::ParseError("planner name");
        pl->setProblemDefinition(pdef);
        pl->setup();
        auto counter = std::make_shared<vp::EvalCounter>();
        counter->fireAt = budget;
        // evaluation-counting condition with a RELAXED counter: the seq_cst `++evals` of vp::evalCountPtc is an
        // acquire-release operation every worker performs every iteration, i.e. a happens-before edge between all worker
        // threads all the time, which hides from the race detector every race whose two accesses are an iteration apart
        ob::PlannerTerminationCondition ptc(
            [counter] { return counter->evals.fetch_add(1, std::memory_order_relaxed) + 1 > counter->fireAt; });
        ob::PlannerStatus st = pl->solve(ptc);
        std::string out = "planner name=" + name + " threads=" + std::to_string(threads) + " status=" + vp::statusName(st) +
                          " resolution_len=" + vp::bits(space->getLongestValidSegmentLength()) +
                          " checked=" + std::to_string(si->getMotionValidator()->getCheckedMotionCount()) +
                          " validity_calls=" + std::to_string(svc->calls()) + " nsol=" + std::to_string(pdef->getSolutionCount());
        if (auto *aps = dynamic_cast<og::AnytimePathShortening *>(pl.get()))
        {
            // bookkeeping oracle (model: AStep; theorem aps_best_cost_is_min_of_stored): bestCost_ is the cost of a stored path
            // and no stored path is cheaper.  bestCost_ through a derived class (protected member), costs recomputed from the
            // stored path objects with the objective APS used - the same computation on the same states, bit for bit.
            struct Peek : og::AnytimePathShortening
            {
                using og::AnytimePathShortening::bestCost_;
            };
            double best = (aps->*(&Peek::bestCost_)).value();  // pointer to member: no cast of the object
            auto opt = pdef->getOptimizationObjective();
            double minStored = std::numeric_limits<double>::infinity();
            bool member = false;
            for (const auto &sol : pdef->getSolutions())
                if (sol.path_ && opt)
                {
                    double c = sol.path_->cost(opt).value();
                    minStored = std::min(minStored, c);
                    member = member || c == best;
                }
            out += " aps_best=" + vp::bits(best) + " aps_min_stored=" + vp::bits(minStored) + " aps_best_is_stored=" +
                   std::to_string((member || pdef->getSolutionCount() == 0) ? 1 : 0);
        }
        if (auto *cf = dynamic_cast<og::CForest *>(pl.get()))
            out += " shared_paths=" + cf->getNumPathsShared() + " shared_states=" + cf->getNumStatesShared();  // no " path" in a key
        ob::PlannerSolution best(nullptr);
        if (pdef->getSolution(best) && best.path_)
        {
            auto *pg = best.path_->as<og::PathGeometric>();
            out += " approx=" + std::to_string(best.approximate_) + " diff=" + vp::bits(best.difference_) +
                   " nstates=" + std::to_string(pg->getStateCount()) + " path";
            for (size_t k = 0; k < pg->getStateCount(); ++k)
                out += " " + vp::showReals(vp::realsOf(space, pg->getState(k)));
        }
        else
            out += " nstates=0";
        // every stored solution must be a path object (the set is shared by the planner's threads)
        pl->clear();
        return out;
    }
}  // namespace

int main()
{
    std::string line;
    if (!vp::readLine(line))
        return 2;
    auto h = vp::tokens(line);
    if (h.size() != 2 || h[0] != "conc" || !vp::parseNat(h[1]))
    {
        std::cout << "bad-header" << std::endl;
        return 2;
    }
    uint64_t seed = *vp::parseNat(h[1]);
    if (seed == 0)
        seed = 1;
    ompl::RNG::setSeed(seed);
    vp::quietLogs();
    while (vp::readLine(line))
    {
        auto t = vp::tokens(line);
        if (t.empty())
            continue;
        std::string out;
        try
        {
            if (t[0] == "force")
                out = opForce(t);
            else if (t[0] == "counters")
                out = opCounters(t);
            else if (t[0] == "gnat")
                out = opGnat(t);
            else if (t[0] == "rng")
                out = opRng(t, seed);
            else if (t[0] == "spaces")
                out = opSpaces(t);
            else if (t[0] == "solutions")
                out = opSolutions(t);
            else if (t[0] == "solmix")
                out = opSolMix(t);
            else if (t[0] == "solrace")
                out = opSolRace(t);
            else if (t[0] == "cfsamplers")
                out = opCfSamplers(t);
            else if (t[0] == "cfrace")
                out = opCfRace(t);
            else if (t[0] == "logging")
                out = opLogging(t);
            else if (t[0] == "logpark")
                out = opLogPark(t);
            else if (t[0] == "goallazy")
                out = opGoalLazy(t);
            else if (t[0] == "goalctl")
                out = opGoalCtl(t);
            else if (t[0] == "terminate")
                out = opTerminate(t);
            else if (t[0] == "planner")
                out = opPlanner(t, seed);
            else
                out = "bad-op";
        }
        catch (const vp::ParseError &)
        {
            out = "bad-op";
        }
        catch (const std::exception &e)
        {
            out = std::string("exception ") + e.what();
        }
        std::cout << out << std::endl;
    }
    return 0;
}
