// C12 harness (second lap of round 10): `ompl::control::Syclop::RegionSet` -- the counting PDF Syclop keeps per decomposition
// (start regions / goal regions): insert(r) is `regions.add(r, 1)` for a new region and
// `regions.update(elem, regions.getWeight(elem) + 1)` otherwise; clear(); sampleUniform(); size(); empty().
// RegionSet is a private nested class of Syclop and the PDF's storage is private: both are opened for THIS translation unit only
// (every other header Syclop.h needs is included before the access specifiers are redefined).  One output line per op:
//   <result> | n=.. ix=.. rows=.. [len:bits,..]* cells=<region>:<back-pointer ok>;...   (cells in PDF element order)
#include "common/proto.h"
#include <boost/graph/astar_search.hpp>
#include <boost/graph/graph_traits.hpp>
#include <boost/graph/adjacency_list.hpp>
#include <unordered_map>
#include <functional>
#include <map>
#include <utility>
#include <vector>
#include "ompl/control/planners/PlannerIncludes.h"
#include "ompl/control/planners/syclop/Decomposition.h"
#include "ompl/control/planners/syclop/GridDecomposition.h"
#include "ompl/util/Hash.h"
#define private public
#define protected public
#include "ompl/datastructures/PDF.h"
#include "ompl/control/planners/syclop/Syclop.h"
#undef private
#undef protected

using RS = ompl::control::Syclop::RegionSet;

static std::string dump(RS &s)
{
    auto &p = s.regions;
    std::string o = "n=" + std::to_string(p.size()) + " ix=";
    for (size_t i = 0; i < p.data_.size(); ++i)
        o += (i ? "," : "") + std::to_string(p.data_[i]->index_);
    o += " rows=" + std::to_string(p.tree_.size());
    for (const auto &row : p.tree_)
    {
        o += " [" + std::to_string(row.size()) + ":";
        for (size_t j = 0; j < row.size(); ++j)
            o += (j ? "," : "") + vp::bits(row[j]);
        o += "]";
    }
    o += " cells=";
    for (size_t i = 0; i < p.data_.size(); ++i)
    {
        int r = p.data_[i]->data_;
        auto it = s.regToElem.find(r);
        o += (i ? ";" : "") + std::to_string(r) + ":" + (it != s.regToElem.end() && it->second == p.data_[i] ? "1" : "0");
    }
    o += " map=" + std::to_string(s.regToElem.size());
    return o;
}

int main()
{
    std::string line;
    if (!vp::readLine(line) || line != "regionset")
    {
        std::cout << "bad-header\n";
        return 2;
    }
    RS s;
    auto fin = [&](const std::string &r) { std::cout << r << " | " << dump(s) << std::endl; };
    while (vp::readLine(line))
    {
        auto t = vp::tokens(line);
        if (t.empty())
            continue;
        if (t[0] == "ins" && t.size() == 2 && vp::parseNat(t[1]))
        {
            s.insert((int)*vp::parseNat(t[1]));
            fin("ok");
        }
        else if (t[0] == "clear" && t.size() == 1)
        {
            s.clear();
            fin("ok");
        }
        else if (t[0] == "smp" && t.size() == 1)
        {
            int r = s.sampleUniform();   // own RNG: the value is only checked for membership
            fin("r=" + std::to_string(r));
        }
        else if (t[0] == "sz" && t.size() == 1)
            fin("sz=" + std::to_string(s.size()) + " e=" + (s.empty() ? "1" : "0"));
        else
            std::cout << "bad-op" << std::endl;
    }
    return 0;
}
