// C12 (fifth engine) harness: the cell PDFs of the REAL ompl::geometric::SBL (tStart_.pdf / tGoal_.pdf) — a user of
// ompl::PDF whose protocol differs from EST's: motions are REMOVED (lazy validation), so cells shrink
// (`pdf.update(elem_, 1.0/size)`), empty cells leave the PDF (`pdf.remove(elem_)`, the swap with the last leaf while the
// other cells keep their `elem_` handles) and are re-created later (`pdf.add(cell, 1.0)`).
// Two modes after the configuration lines (as in the projest harness: bounds / boxes / res / range / goal / thr / start /
// proj / seed):
//   ops            then scripted calls of the planner's own protected methods through a derived class:
//       add <s|g> <parent id | -1> <x>*dim     Motion + parent/children links as solve() makes them, addMotion(tree, motion)  -> m=<id>
//       rm <s|g> <id>                           removeMotion(tree, motion) (removes the motion and, recursively, its children)   -> ok
//       sel <s|g>                               selectMotion(tree)                                                              -> m=<id> | null
//   go <iters>     SBL::solve with a termination condition that fires after <iters> evaluations -> status
// After every op (and after solve) both trees are dumped: `T<s|g> size=<tree.size> grid=<grid.size()> pdf n= ix= rows= [..]
// cells=<coord:count:back-pointer ok:grid lookup ok:motion ids>;…` with the cells in PDF element order.
// `private` of PDF.h is opened for this translation unit only; everything of SBL used here is protected (derived class).
#include "common/proto.h"
#include <ompl/util/Exception.h>
#include <vector>
#define private public
#include <ompl/datastructures/PDF.h>
#undef private
#include "common/planning.h"
#include <ompl/base/spaces/RealVectorStateProjections.h>
#include <ompl/base/spaces/RealVectorStateSpace.h>
#include <map>
#include <set>

namespace ob = ompl::base;
namespace og = ompl::geometric;

class OpenSBL : public og::SBL
{
public:
    using og::SBL::SBL;
    using M = og::SBL::Motion;
    std::map<M *, long> ids;     // motions created by the scripted ops
    std::vector<M *> byId;

    void seedRng(std::uint_fast32_t s)
    {
        rng_.setLocalSeed(s);
    }
    TreeData &tree(bool start)
    {
        return start ? tStart_ : tGoal_;
    }
    long opAdd(bool start, long parent, const std::vector<double> &x)
    {
        auto *m = new M(si_);
        for (size_t d = 0; d < x.size(); ++d)
            m->state->as<ob::RealVectorStateSpace::StateType>()->values[d] = x[d];
        m->valid = parent < 0;
        if (parent >= 0)
        {
            M *p = byId[parent];
            m->parent = p;
            m->root = p->root;
            p->children.push_back(m);
        }
        else
            m->root = m->state;
        ids[m] = (long)byId.size();
        byId.push_back(m);
        addMotion(tree(start), m);
        return ids[m];
    }
    void collect(M *m, std::vector<M *> &out)
    {
        out.push_back(m);
        for (auto *c : m->children)
            collect(c, out);
    }
    void opRemove(bool start, long id)
    {
        std::vector<M *> dead;
        collect(byId[id], dead);
        removeMotion(tree(start), byId[id]);
        for (auto *m : dead)
        {
            byId[ids[m]] = nullptr;
            ids.erase(m);
        }
    }
    long opSelect(bool start)
    {
        M *m = selectMotion(tree(start));
        if (!m)
            return -1;
        auto it = ids.find(m);
        return it == ids.end() ? -2 : it->second;
    }
    std::string dumpTree(bool start, bool withStates)
    {
        TreeData &t = tree(start);
        auto &p = t.pdf;
        std::string s = std::string("T") + (start ? "s" : "g") + " size=" + std::to_string(t.size) + " grid=" +
                        std::to_string(t.grid.size()) + " pdf n=" + std::to_string(p.size()) + " ix=";
        for (size_t i = 0; i < p.data_.size(); ++i)
            s += (i ? "," : "") + std::to_string(p.data_[i]->index_);
        s += " rows=" + std::to_string(p.tree_.size());
        for (const auto &row : p.tree_)
        {
            s += " [" + std::to_string(row.size()) + ":";
            for (size_t j = 0; j < row.size(); ++j)
                s += (j ? "," : "") + vp::bits(row[j]);
            s += "]";
        }
        s += " cells=";
        for (size_t i = 0; i < p.data_.size(); ++i)
        {
            GridCell *c = p.data_[i]->data_;
            std::string co;
            for (int d = 0; d < c->coord.size(); ++d)
                co += (d ? "," : "") + std::to_string(c->coord[d]);
            s += (i ? ";" : "") + co + ":" + std::to_string(c->data.size()) + ":" + (c->data.elem_ == p.data_[i] ? "1" : "0") + ":" +
                 (t.grid.getCell(c->coord) == c ? "1" : "0") + ":";
            for (unsigned j = 0; j < c->data.size(); ++j)
            {
                M *m = c->data[j];
                if (withStates)
                {
                    std::vector<double> r;
                    si_->getStateSpace()->copyToReals(r, m->state);
                    std::string st;
                    for (size_t q = 0; q < r.size(); ++q)
                        st += (q ? "_" : "") + vp::bits(r[q]);
                    s += (j ? "," : "") + st;
                }
                else
                {
                    auto it = ids.find(m);
                    s += (j ? "," : "") + (it == ids.end() ? std::string("?") : std::to_string(it->second));
                }
            }
        }
        return s;
    }
    void freeScripted()
    {
        // motions created by the ops are owned by the trees (freeMemory() walks the grids)
    }
};

int main()
{
    vp::quietLogs();
    std::string line;
    if (!vp::readLine(line))
        return 2;
    auto hdr = vp::tokens(line);
    if (hdr.size() != 2 || hdr[0] != "sbl" || !vp::parseNat(hdr[1]) || *vp::parseNat(hdr[1]) == 0)
    {
        std::cout << "bad-header\n";
        return 2;
    }
    const unsigned dim = *vp::parseNat(hdr[1]);
    std::vector<double> lo, hi, goal;
    std::vector<std::vector<double>> starts;
    vp::Env env;
    double res = 0.01, range = 0.0, thr = std::numeric_limits<double>::epsilon();
    unsigned long seed = 1, iters = 0;
    std::vector<unsigned int> comps;
    std::vector<double> cellSizes;
    std::string mode;
    try
    {
        while (vp::readLine(line))
        {
            auto t = vp::tokens(line);
            if (t.empty())
                continue;
            size_t i = 1;
            const std::string &op = t[0];
            auto floats = [&](size_t n) {
                std::vector<double> v;
                for (size_t k = 0; k < n; ++k)
                    v.push_back(vp::needF(t, i));
                return v;
            };
            if (op == "bounds" && t.size() == 1 + 2 * dim)
            {
                lo = floats(dim);
                hi = floats(dim);
            }
            else if (op == "boxes")
            {
                i = 0;
                env.parse(t, i);
                if (i != t.size() || env.pdim > dim)
                    throw vp::ParseError("boxes");
            }
            else if (op == "res" && t.size() == 2)
                res = vp::needF(t, i);
            else if (op == "range" && t.size() == 2)
                range = vp::needF(t, i);
            else if (op == "bias" && t.size() == 2)
                (void)vp::needF(t, i);
            else if (op == "thr" && t.size() == 2)
                thr = vp::needF(t, i);
            else if (op == "goal" && t.size() == 1 + dim)
                goal = floats(dim);
            else if (op == "start" && t.size() == 1 + dim)
                starts.push_back(floats(dim));
            else if (op == "proj" && t.size() >= 2)
            {
                unsigned k = vp::needN(t, i);
                if (k == 0 || t.size() != 2 + 2 * k)
                    throw vp::ParseError("proj");
                for (unsigned j = 0; j < k; ++j)
                {
                    unsigned c = vp::needN(t, i);
                    if (c >= dim)
                        throw vp::ParseError("proj component");
                    comps.push_back(c);
                }
                for (unsigned j = 0; j < k; ++j)
                    cellSizes.push_back(vp::needF(t, i));
            }
            else if (op == "seed" && t.size() == 2)
                seed = vp::needN(t, i);
            else if (op == "iters" && t.size() == 2)
                iters = vp::needN(t, i);
            else if ((op == "go" || op == "ops") && t.size() == 1)
            {
                mode = op;
                break;
            }
            else
                throw vp::ParseError(line);
        }
        if (lo.size() != dim || goal.size() != dim || comps.empty() || mode.empty())
            throw vp::ParseError("incomplete configuration");
    }
    catch (const std::exception &e)
    {
        std::cout << "bad-op " << e.what() << "\n";
        return 2;
    }

    ompl::RNG::setSeed(seed ? seed : 1);
    auto space = std::make_shared<ob::RealVectorStateSpace>(dim);
    ob::RealVectorBounds b(dim);
    for (unsigned d = 0; d < dim; ++d)
    {
        b.low[d] = lo[d];
        b.high[d] = hi[d];
    }
    space->setBounds(b);
    auto si = std::make_shared<ob::SpaceInformation>(space);
    auto vc = std::make_shared<vp::RecordingValidityChecker>(si, env, false);
    si->setStateValidityChecker(vc);
    si->setStateValidityCheckingResolution(res);
    si->setup();

    auto pdef = std::make_shared<ob::ProblemDefinition>(si);
    for (const auto &st : starts)
    {
        ob::ScopedState<> s(space);
        for (unsigned d = 0; d < dim; ++d)
            s[d] = st[d];
        pdef->addStartState(s);
    }
    auto gs = std::make_shared<ob::GoalState>(si);
    {
        ob::ScopedState<> g(space);
        for (unsigned d = 0; d < dim; ++d)
            g[d] = goal[d];
        gs->setState(g);
    }
    gs->setThreshold(thr);
    pdef->setGoal(gs);

    auto planner = std::make_shared<OpenSBL>(si);
    planner->setProblemDefinition(pdef);
    planner->setRange(range);
    planner->setProjectionEvaluator(std::make_shared<ob::RealVectorOrthogonalProjectionEvaluator>(space, cellSizes, comps));
    planner->setup();
    planner->seedRng((std::uint_fast32_t)(seed * 7919u + 12345u));

    if (mode == "go")
    {
        auto cnt = std::make_shared<vp::EvalCounter>();
        cnt->fireAt = iters;
        ob::PlannerStatus st = planner->solve(vp::evalCountPtc(cnt));
        std::cout << "status=" << vp::statusName(st) << " | " << planner->dumpTree(true, true) << " | " << planner->dumpTree(false, true)
                  << std::endl;
        return 0;
    }
    auto fin = [&](const std::string &r) {
        std::cout << r << " | " << planner->dumpTree(true, false) << " | " << planner->dumpTree(false, false) << std::endl;
    };
    while (vp::readLine(line))
    {
        auto t = vp::tokens(line);
        if (t.empty())
            continue;
        const std::string &op = t[0];
        bool treeOk = t.size() >= 2 && (t[1] == "s" || t[1] == "g");
        bool start = treeOk && t[1] == "s";
        if (op == "add" && treeOk && t.size() == 3 + dim && vp::parseInt(t[2]))
        {
            long par = *vp::parseInt(t[2]);
            std::vector<double> x;
            bool ok = par >= -1 && (par < 0 || ((size_t)par < planner->byId.size() && planner->byId[par]));
            for (unsigned d = 0; d < dim && ok; ++d)
            {
                auto v = vp::parseBits(t[3 + d]);
                if (!v)
                    ok = false;
                else
                    x.push_back(*v);
            }
            if (!ok) { fin("dead"); continue; }
            fin("m=" + std::to_string(planner->opAdd(start, par, x)));
        }
        else if (op == "rm" && treeOk && t.size() == 3 && vp::parseNat(t[2]))
        {
            size_t id = *vp::parseNat(t[2]);
            if (id >= planner->byId.size() || !planner->byId[id]) { fin("dead"); continue; }
            planner->opRemove(start, (long)id);
            fin("ok");
        }
        else if (op == "clear" && t.size() == 1)
        {
            // SBL::clear(): frees every motion, clears both grids and both PDFs; the planner is then used again
            planner->clear();
            planner->ids.clear();
            for (auto &m : planner->byId)
                m = nullptr;
            fin("ok");
        }
        else if (op == "sel" && treeOk && t.size() == 2)
        {
            if (planner->tree(start).pdf.empty()) { fin("empty"); continue; }   // selectMotion on an empty tree throws
            long m = planner->opSelect(start);
            fin(m == -1 ? std::string("null") : "m=" + std::to_string(m));
        }
        else
            std::cout << "bad-op" << std::endl;
    }
    return 0;
}
