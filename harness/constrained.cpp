// C16 harness: drives the real constrained state spaces of libompl (ProjectedStateSpace, AtlasStateSpace,
// TangentBundleStateSpace, ConstrainedMotionValidator, their samplers, a few planners) through the line protocol.
//
// Recording wrappers (no source hooks; everything is virtual in OMPL):
//  * RecCon : ob::Constraint — overrides function, jacobian, project and isSatisfied, records every call
//    (inputs / outputs / return value) in call order and delegates project/isSatisfied to the base class:
//        F <x:n> <f:m>            Constraint::function(x, f)           (not recorded while inside a numerical jacobian)
//        J <x:n>                  Constraint::jacobian(x, ·)           (recorded at entry)
//        B                        entry of Constraint::project(x)
//        P <xin:n> <ret> <xout:n> Constraint::project(x)               (recorded at exit, i.e. after its inner F/J events)
//        S <x:n> <ret>            Constraint::isSatisfied(x)           (recorded at exit, after its inner F event)
//  * RecValid : StateValidityChecker —   V <x:n> <ret>
//  * Rec<Space> : the space itself; overrides the virtual discreteGeodesic, calls the base class and records
//        G <interpolate> <ret> <hasList> <k> <states k*n>               (what checkMotion / interpolate got back)
//
// header:  constrained space=<proj|atlas|tb> con=<name> n=<ambient> delta=<bits> lambda=<bits> tol=<bits> maxit=<k>
//                      lo=<bits> hi=<bits> seed=<k> obs=<none|axis:lobits:hibits>
//                      [aeps= arho= aalpha= aexp= abackoff=<bits> amaxc=<k> asep=<0|1>]   non-default atlas parameters
// ops (doubles are u64 bit patterns, a state is n of them):
//   proj <x>                         -> ret=<b> x=<xout> | <events>
//   sat <x>                          -> sat=<b> | <events>
//   params                           -> params eps=<bits> cosa=<bits> backoff=<bits> maxc=<k> rhos=<bits> | params none
//   clog <0|1>                       -> ok        (chart log on/off; when on every line gets ` || <chart log>` appended)
//   newchart <x>                     -> chart=<cid|-1>     (AtlasStateSpace::newChart)
//   ipscan <cid>                     -> scanned=<k>  (directed inPolytope/borderCheck queries around every boundary of the chart)
//   setdelta <bits> | setlambda <bits> | aclear        -> ok   (mid-script: ConstrainedStateSpace::setDelta / setLambda, AtlasStateSpace::clear)
//   interpo <1|2> <from> <to> <t>    -> r=<x> | <events>   (interpolate with the output aliased to from (1) / to (2))
//   settol <bits> | setmaxiter <k>   -> ok        (Constraint::setTolerance / setMaxIterations mid-script; existing charts are kept)
//   anchor <x>                       -> ok                            (AtlasStateSpace::anchorChart; no-op for proj)
//   sample u | sample n <x> <d> | sample g <x> <sd>   -> s=<x> | <events>
//   geo <interp> <from> <to>         -> ok=<b> n=<k> <states> | <events>
//   interp <from> <to> <t>           -> r=<x> | <events>              (events contain the inner G record)
//   gi <t> <k> <states>              -> idx=<i>                       (base-class geodesicInterpolate on a given list)
//   cm1 <s1> <s2>                    -> v=<b> | <events>
//   cm2 <hasFirst> <s1> <s2>         -> v=<b> first=<x> second=<bits> | <events>   (sentinels when untouched)
//   plan <planner> <evals> <start> <goal> -> status=<s> exact=<b> k=<len> <states>     (recording off)
#include "common/proto.h"
#include <dlfcn.h>
#include <cmath>
#include <map>
#include <memory>
#include <set>
#include <ompl/base/Constraint.h>
#include <ompl/base/SpaceInformation.h>
#include <ompl/base/spaces/constraint/AtlasStateSpace.h>
// AtlasChart's polytope_ / radius_ and Halfspace's u_ / usqnorm_ / rhs_ / complement_ / owner_ are private: opened for
// this translation unit only (harness side, no source hook) so the chart log can dump them.  Everything AtlasChart.h
// includes has been included above, so only AtlasChart.h itself is affected.
#define private public
#define protected public
#include <ompl/base/spaces/constraint/AtlasChart.h>
#undef private
#undef protected
#include <ompl/base/ConstrainedSpaceInformation.h>
#include <ompl/base/spaces/RealVectorStateSpace.h>
#include <ompl/base/spaces/constraint/ConstrainedStateSpace.h>
#include <ompl/base/spaces/constraint/ProjectedStateSpace.h>
#include <ompl/base/spaces/constraint/AtlasStateSpace.h>
#include <ompl/base/spaces/constraint/TangentBundleStateSpace.h>
#include <ompl/base/ProblemDefinition.h>
#include <ompl/base/PlannerTerminationCondition.h>
#include <ompl/base/goals/GoalState.h>
#include <ompl/geometric/PathGeometric.h>
#include <ompl/geometric/planners/rrt/RRT.h>
#include <ompl/geometric/planners/rrt/RRTConnect.h>
#include <ompl/geometric/planners/rrt/RRTstar.h>
#include <ompl/geometric/planners/prm/PRM.h>
#include <ompl/geometric/planners/kpiece/KPIECE1.h>
#include <ompl/geometric/planners/kpiece/BKPIECE1.h>
#include <ompl/geometric/planners/est/EST.h>
#include <ompl/geometric/planners/informedtrees/BITstar.h>
#include <ompl/util/Console.h>
#include <ompl/util/RandomNumbers.h>

namespace ob = ompl::base;
namespace og = ompl::geometric;

static bool g_rec = false;
static std::string g_ev;  // recorded events of the current op
static const double SENT_STATE = 12345.678;
static const double SENT_FRAC = -7.0;

static void evTok(const std::string &s)
{
    g_ev += ' ';
    g_ev += s;
}
template <class V>
static void evVec(const V &x)
{
    for (Eigen::Index i = 0; i < x.size(); ++i)
        evTok(vp::bits(x[i]));
}

// ------------------------------------------------------------------------------------------ chart-level recording
// AtlasChart's methods and AtlasStateSpace::getChart/owningChart/sampleChart are not virtual.  They are exported by
// libompl.so and every call to them from AtlasStateSpace.cpp / TangentBundleStateSpace.cpp goes through the PLT, so
// the harness *interposes* them: it defines the same member functions (same mangled names; the executable's
// definition pre-empts the library's), records the call and forwards to the library's own code found with
// dlsym(RTLD_NEXT).  No source hook; the code that runs is the library's.  Only top-level calls are recorded
// (g_nest > 0 while inside an interposed call: psi calls phi, getChart calls owningChart/newChart/psiInverse/...).
//   GC <x:n> <force> <cid|-1> <created>   AtlasStateSpace::getChart(state, force, &created)
//   OC <x:n> <cid|-1>                      AtlasStateSpace::owningChart(state)
//   SC <cid> <origin:n>                    AtlasStateSpace::sampleChart()
//   PI <cid> <x:n> <u:k>                   AtlasChart::psiInverse(x, u)
//   PSI <cid> <u:k> <ret> <x:n>            AtlasChart::psi(u, x)
//   PHI <cid> <u:k> <x:n>                  AtlasChart::phi(u, x)
//   IP <cid> <u:k> <ret>                   AtlasChart::inPolytope(u)
//   BC <cid>                               AtlasChart::borderCheck(u)
static int g_nest = 0;
static std::map<const void *, int> g_chartId;
static std::string chartTok(const void *c)
{
    if (c == nullptr)
        return "-1";
    auto it = g_chartId.find(c);
    if (it == g_chartId.end())
        it = g_chartId.emplace(c, (int)g_chartId.size()).first;
    return std::to_string(it->second);
}
// ---- chart log (round 4): a *complete chronological* log of the polytope bookkeeping, nested calls included,
// switched on by the op `clog 1`:
//   NCH <cid> <radius>                                   first appearance of a chart in the log
//   GH <c1> <c2> <w12:k> <w21:k> <cp> <getNeighborCount c1> <.. c2> <u1:k> <usq1> <rhs1> <u2:k> <usq2> <rhs2>
//        AtlasChart::generateHalfspace(c1, c2); w12 = c1->psiInverse(c2 origin), w21 = c2->psiInverse(c1 origin)
//        (recomputed with the library's own psiInverse), then the two new halfspaces as the library left them;
//        cp = complements and owners are cross-linked as they should be
//   IPK <cid> <u:k> <ret>                                AtlasChart::inPolytope(u) (no ignored halfspaces)
//   BCK <cid> <v:k> <nh> { <v'_j:k> <uc_j:k> <usqc_j> <rhsc_j> }*nh
//        AtlasChart::borderCheck(v); per halfspace j: v'_j = complement owner's psiInverse(psi(v)) (recomputed with
//        the library's own maps) and the complement halfspace *after* the call
static bool g_clogOn = false;
static std::string g_clog;
static std::set<const void *> g_announced;
static void clTok(const std::string &s)
{
    g_clog += ' ';
    g_clog += s;
}
template <class V>
static void clVec(const V &x)
{
    for (Eigen::Index i = 0; i < x.size(); ++i)
        clTok(vp::bits(x[i]));
}
static void announce(const ompl::base::AtlasChart *c)
{
    if (g_announced.insert(c).second)
    {
        clTok("NCH");
        clTok(chartTok(c));
        clTok(vp::bits(c->radius_));
    }
}

// candidates of the owningChart call in progress (chart log only): per candidate chart the psiInverse -> phi -> inPolytope
// triple the library's loop makes, in the order of chartNN_.nearestR
struct OwnCand
{
    const void *chart = nullptr;
    Eigen::VectorXd temp;
    int inP = -1;
};
static bool g_ownActive = false;
static std::vector<OwnCand> g_ownCands;
static bool g_ownCalled = false;
static const void *g_ownRet = nullptr;

struct Nest
{
    bool top;
    Nest() : top(g_nest == 0 && g_rec)
    {
        ++g_nest;
    }
    ~Nest()
    {
        --g_nest;
    }
};
template <class Fn>
static Fn nextSym(const char *name)
{
    void *p = dlsym(RTLD_NEXT, name);
    if (!p)
    {
        std::cerr << "interposition: symbol not found: " << name << "\n";
        std::abort();
    }
    return reinterpret_cast<Fn>(p);
}
using CRef = const Eigen::Ref<const Eigen::VectorXd> &;
using MRef = Eigen::Ref<Eigen::VectorXd>;

bool ompl::base::AtlasChart::psi(CRef u, MRef out) const
{
    using Fn = bool (*)(const AtlasChart *, CRef, MRef);
    static Fn real = nextSym<Fn>("_ZNK4ompl4base10AtlasChart3psiERKN5Eigen3RefIKNS2_6MatrixIdLin1ELi1ELi0ELin1ELi1EEELi0ENS2_11InnerStrideILi1EEEEENS3_IS5_Li0ES8_EE");
    if (!g_rec && !g_clogOn)  // nothing is being recorded (planner runs): straight through to the library
        return real(this, u, out);
    Nest nst;
    Eigen::VectorXd uin = u;
    bool r = real(this, u, out);
    if (nst.top)
    {
        evTok("PSI");
        evTok(chartTok(this));
        evVec(uin);
        evTok(r ? "1" : "0");
        evVec(out);
    }
    return r;
}
void ompl::base::AtlasChart::phi(CRef u, MRef out) const
{
    using Fn = void (*)(const AtlasChart *, CRef, MRef);
    static Fn real = nextSym<Fn>("_ZNK4ompl4base10AtlasChart3phiERKN5Eigen3RefIKNS2_6MatrixIdLin1ELi1ELi0ELin1ELi1EEELi0ENS2_11InnerStrideILi1EEEEENS3_IS5_Li0ES8_EE");
    if (!g_rec && !g_clogOn)  // nothing is being recorded (planner runs): straight through to the library
    {
        real(this, u, out);
        return;
    }
    Nest nst;
    Eigen::VectorXd uin = u;
    real(this, u, out);
    if (g_ownActive && !g_ownCands.empty() && g_ownCands.back().chart == this)
        g_ownCands.back().temp = out;
    if (nst.top)
    {
        evTok("PHI");
        evTok(chartTok(this));
        evVec(uin);
        evVec(out);
    }
}
void ompl::base::AtlasChart::psiInverse(CRef x, MRef out) const
{
    using Fn = void (*)(const AtlasChart *, CRef, MRef);
    static Fn real = nextSym<Fn>("_ZNK4ompl4base10AtlasChart10psiInverseERKN5Eigen3RefIKNS2_6MatrixIdLin1ELi1ELi0ELin1ELi1EEELi0ENS2_11InnerStrideILi1EEEEENS3_IS5_Li0ES8_EE");
    if (!g_rec && !g_clogOn)  // nothing is being recorded (planner runs): straight through to the library
    {
        real(this, x, out);
        return;
    }
    Nest nst;
    Eigen::VectorXd xin = x;
    real(this, x, out);
    if (g_ownActive)
    {
        g_ownCands.emplace_back();
        g_ownCands.back().chart = this;
    }
    if (nst.top)
    {
        evTok("PI");
        evTok(chartTok(this));
        evVec(xin);
        evVec(out);
    }
}
bool ompl::base::AtlasChart::inPolytope(CRef u, const Halfspace *i1, const Halfspace *i2) const
{
    using Fn = bool (*)(const AtlasChart *, CRef, const Halfspace *, const Halfspace *);
    static Fn real = nextSym<Fn>("_ZNK4ompl4base10AtlasChart10inPolytopeERKN5Eigen3RefIKNS2_6MatrixIdLin1ELi1ELi0ELin1ELi1EEELi0ENS2_11InnerStrideILi1EEEEEPKNS1_9HalfspaceESE_");
    if (!g_rec && !g_clogOn)  // nothing is being recorded (planner runs): straight through to the library
        return real(this, u, i1, i2);
    Nest nst;
    bool r = real(this, u, i1, i2);
    if (g_ownActive && !g_ownCands.empty() && g_ownCands.back().chart == this)
        g_ownCands.back().inP = r ? 1 : 0;
    if (g_clogOn && i1 == nullptr && i2 == nullptr)
    {
        announce(this);
        clTok("IPK");
        clTok(chartTok(this));
        clVec(u);
        clTok(r ? "1" : "0");
    }
    if (nst.top)
    {
        evTok("IP");
        evTok(chartTok(this));
        evVec(u);
        evTok(r ? "1" : "0");
    }
    return r;
}
void ompl::base::AtlasChart::borderCheck(CRef v) const
{
    using Fn = void (*)(const AtlasChart *, CRef);
    static Fn real = nextSym<Fn>("_ZNK4ompl4base10AtlasChart11borderCheckERKN5Eigen3RefIKNS2_6MatrixIdLin1ELi1ELi0ELin1ELi1EEELi0ENS2_11InnerStrideILi1EEEEE");
    if (!g_rec && !g_clogOn)  // nothing is being recorded (planner runs): straight through to the library
    {
        real(this, v);
        return;
    }
    Nest nst;
    std::vector<Eigen::VectorXd> vps;
    if (g_clogOn)
    {
        Eigen::VectorXd x(n_);
        psi(v, x);  // what checkNear computes (its verdict is ignored there too)
        for (Halfspace *h : polytope_)
        {
            const AtlasChart *co = h->complement_->owner_;
            Eigen::VectorXd vp_(co->k_);
            co->psiInverse(x, vp_);
            vps.push_back(vp_);
        }
    }
    real(this, v);
    if (g_clogOn)
    {
        announce(this);
        clTok("BCK");
        clTok(chartTok(this));
        clVec(v);
        clTok(std::to_string(polytope_.size()));
        for (size_t j = 0; j < polytope_.size(); ++j)
        {
            const Halfspace *c = polytope_[j]->complement_;
            clVec(vps[j]);
            clVec(c->u_);
            clTok(vp::bits(c->usqnorm_));
            clTok(vp::bits(c->rhs_));
        }
    }
    if (nst.top)
    {
        evTok("BC");
        evTok(chartTok(this));
    }
}
void ompl::base::AtlasChart::generateHalfspace(AtlasChart *c1, AtlasChart *c2)
{
    using Fn = void (*)(AtlasChart *, AtlasChart *);
    static Fn real = nextSym<Fn>("_ZN4ompl4base10AtlasChart17generateHalfspaceEPS1_S2_");
    if (!g_rec && !g_clogOn)  // nothing is being recorded (planner runs): straight through to the library
    {
        real(c1, c2);
        return;
    }
    Nest nst;
    real(c1, c2);
    if (g_clogOn)
    {
        announce(c1);
        announce(c2);
        Eigen::VectorXd w12(c1->k_), w21(c2->k_);
        c1->psiInverse(*c2->getOrigin(), w12);
        c2->psiInverse(*c1->getOrigin(), w21);
        const Halfspace *l1 = c1->polytope_.back(), *l2 = c2->polytope_.back();
        bool cp = l1->complement_ == l2 && l2->complement_ == l1 && l1->owner_ == c1 && l2->owner_ == c2;
        clTok("GH");
        clTok(chartTok(c1));
        clTok(chartTok(c2));
        clVec(w12);
        clVec(w21);
        clTok(cp ? "1" : "0");
        clTok(std::to_string(c1->getNeighborCount()));
        clTok(std::to_string(c2->getNeighborCount()));
        clVec(l1->u_);
        clTok(vp::bits(l1->usqnorm_));
        clTok(vp::bits(l1->rhs_));
        clVec(l2->u_);
        clTok(vp::bits(l2->usqnorm_));
        clTok(vp::bits(l2->rhs_));
    }
}
ompl::base::AtlasChart *ompl::base::AtlasStateSpace::getChart(const StateType *state, bool force, bool *created) const
{
    using Fn = AtlasChart *(*)(const AtlasStateSpace *, const StateType *, bool, bool *);
    static Fn real = nextSym<Fn>("_ZNK4ompl4base15AtlasStateSpace8getChartEPKNS1_9StateTypeEbPb");
    if (!g_rec && !g_clogOn)  // nothing is being recorded (planner runs): straight through to the library
        return real(this, state, force, created);
    Nest nst;
    bool before = created ? *created : false;
    const AtlasChart *cached = state->getChart();
    size_t nBefore = charts_.size();
    g_ownCalled = false;
    AtlasChart *c = real(this, state, force, created);
    if (g_clogOn)
    {
        // GCK <cached cid|-1> <force> <owningChart called> <its answer|-1> <chart made by newChart|-1> <returned|-1> <created written>
        bool ownCalled = g_ownCalled;
        const void *ownRet = ownCalled ? g_ownRet : nullptr;
        const void *fresh = charts_.size() > nBefore ? (const void *)charts_.back() : nullptr;
        clTok("GCK");
        clTok(chartTok(cached));
        clTok(force ? "1" : "0");
        clTok(ownCalled ? "1" : "0");
        clTok(chartTok(ownRet));
        clTok(chartTok(fresh));
        clTok(chartTok(c));
        clTok((created == nullptr || before) ? "x" : (*created ? "1" : "0"));
    }
    if (nst.top)
    {
        evTok("GC");
        evVec(*state);
        evTok(force ? "1" : "0");
        evTok(chartTok(c));
        evTok((created && *created && !before) ? "1" : "0");
    }
    return c;
}
ompl::base::AtlasChart *ompl::base::AtlasStateSpace::owningChart(const StateType *state) const
{
    using Fn = AtlasChart *(*)(const AtlasStateSpace *, const StateType *);
    static Fn real = nextSym<Fn>("_ZNK4ompl4base15AtlasStateSpace11owningChartEPKNS1_9StateTypeE");
    if (!g_rec && !g_clogOn)  // nothing is being recorded (planner runs): straight through to the library
        return real(this, state);
    Nest nst;
    if (g_clogOn)
    {
        g_ownActive = true;
        g_ownCands.clear();
    }
    AtlasChart *c = real(this, state);
    g_ownActive = false;
    g_ownCalled = true;
    g_ownRet = c;
    if (g_clogOn)
    {
        // OWN <x:n> <epsilon_> <ncand> { <cid> <inPolytope> <phi(psiInverse(x)):n> }* <returned cid|-1>
        clTok("OWN");
        clVec(*state);
        clTok(vp::bits(epsilon_));
        clTok(std::to_string(g_ownCands.size()));
        for (auto &cd : g_ownCands)
        {
            clTok(chartTok(cd.chart));
            clTok(std::to_string(cd.inP));
            clVec(cd.temp);
        }
        clTok(chartTok(c));
    }
    if (nst.top)
    {
        evTok("OC");
        evVec(*state);
        evTok(chartTok(c));
    }
    return c;
}
ompl::base::AtlasChart *ompl::base::AtlasStateSpace::sampleChart() const
{
    using Fn = AtlasChart *(*)(const AtlasStateSpace *);
    static Fn real = nextSym<Fn>("_ZNK4ompl4base15AtlasStateSpace11sampleChartEv");
    if (!g_rec && !g_clogOn)  // nothing is being recorded (planner runs): straight through to the library
        return real(this);
    Nest nst;
    AtlasChart *c = real(this);
    if (nst.top)
    {
        evTok("SC");
        evTok(chartTok(c));
        evVec(*c->getOrigin());
    }
    return c;
}

// ------------------------------------------------------------------------------------------ constraints
// The formulas are mirrored term by term (same operation order) in checks/c16.py.
struct RecCon : ob::Constraint
{
    std::string kind;
    unsigned n, m;
    mutable int depth = 0;  // > 0 while inside the base-class numerical jacobian
    bool numJac = false;
    bool silent = false;  // component of a ConstraintIntersection: the intersection object does the recording

    static unsigned coDim(const std::string &k)
    {
        return (k == "spherepl" || k == "nearpar" || k == "isect" || k == "semising") ? 2 : 1;
    }
    RecCon(const std::string &k, unsigned n_, double tol, unsigned maxit)
      : ob::Constraint(n_, coDim(k), tol), kind(k), n(n_), m(coDim(k))
    {
        setMaxIterations(maxit);
        if (kind == "spherenj")
        {
            kind = "sphere";
            numJac = true;
        }
    }

    template <class X>
    double sumsq(const X &x, unsigned from = 0) const
    {
        double s = 0;
        for (unsigned i = from; i < n; ++i)
            s += x[i] * x[i];
        return s;
    }

    void eval(const Eigen::Ref<const Eigen::VectorXd> &x, Eigen::Ref<Eigen::VectorXd> out) const
    {
        if (kind == "sphere")
            out[0] = std::sqrt(sumsq(x)) - 1.0;
        else if (kind == "torus")
        {
            double rho = std::sqrt(x[0] * x[0] + x[1] * x[1]);
            double a = rho - 1.0;
            double s = a * a + sumsq(x, 2);
            out[0] = std::sqrt(s) - 0.4;
        }
        else if (kind == "plane")
        {
            double s = 0;
            for (unsigned i = 0; i < n; ++i)
                s += (double)(i + 1) * x[i];
            out[0] = s / (double)(n + 1) - 0.25;
        }
        else if (kind == "spherepl")
        {
            out[0] = std::sqrt(sumsq(x)) - 1.0;
            out[1] = x[n - 1] - 0.3 * x[0] - 0.1;
        }
        else if (kind == "plane2")
            out[0] = x[n - 1] - 0.3 * x[0] - 0.1;
        else if (kind == "quartic")
        {
            double a = sumsq(x) - 1.0;
            out[0] = a * a;
        }
        else if (kind == "quarticg")
        {
            double x2 = x[0] * x[0];
            out[0] = x[n - 1] - 25.0 * (x2 * x2);
        }
        else if (kind == "semising")
        {
            // sphere ∩ { x_last * max(0, x0)^2 = 0 }: for x0 > 0 a regular (n-2)-manifold (x_last = 0); for x0 <= 0 the second
            // row of the Jacobian vanishes identically: every manifold point there is singular (no tangent space, no chart)
            double h = x[0] > 0 ? x[0] * x[0] : 0.0;
            out[0] = std::sqrt(sumsq(x)) - 1.0;
            out[1] = x[n - 1] * h;
        }
        else if (kind == "hemi")
        {
            // upper unit hemisphere as a graph: NOT finite everywhere (NaN outside the unit cylinder)
            double q = 0;
            for (unsigned i = 0; i + 1 < n; ++i)
                q += x[i] * x[i];
            out[0] = x[n - 1] - std::sqrt(1.0 - q);
        }
        else if (kind == "logg")
        {
            // graph of 0.5*log(1 + x0): NaN for x0 < -1, +inf at x0 = -1
            out[0] = x[n - 1] - 0.5 * std::log(1.0 + x[0]);
        }
        else  // nearpar
        {
            out[0] = x[0] + x[1] - 0.2;
            out[1] = x[0] + 1.001 * x[1] + 0.05 * x[2] - 0.2;
        }
    }

    void function(const Eigen::Ref<const Eigen::VectorXd> &x, Eigen::Ref<Eigen::VectorXd> out) const override
    {
        eval(x, out);
        if (!silent && g_rec && depth == 0 && g_nest == 0)
        {
            evTok("F");
            evVec(x);
            evVec(out);
        }
    }

    void jacobian(const Eigen::Ref<const Eigen::VectorXd> &x, Eigen::Ref<Eigen::MatrixXd> out) const override
    {
        if (!silent && g_rec && depth == 0 && g_nest == 0)
        {
            evTok("J");
            evVec(x);
        }
        if (numJac)
        {
            ++depth;
            ob::Constraint::jacobian(x, out);
            --depth;
            return;
        }
        out.setZero();
        if (kind == "sphere" || kind == "spherepl")
        {
            // like Eigen's normalized(): the zero vector stays zero (a non-finite Jacobian makes Eigen 3.4's
            // JacobiSVD::solve read an uninitialised rank inside Constraint::project; see notes/C16.md)
            double r = std::sqrt(sumsq(x));
            for (unsigned i = 0; i < n; ++i)
                out(0, i) = r > 0 ? x[i] / r : 0.0;
            if (kind == "spherepl")
            {
                out(1, 0) += -0.3;
                out(1, n - 1) += 1.0;
            }
        }
        else if (kind == "torus")
        {
            double rho = std::sqrt(x[0] * x[0] + x[1] * x[1]);
            double a = rho - 1.0;
            double s = std::sqrt(a * a + sumsq(x, 2));
            if (rho > 0 && s > 0)
            {
                out(0, 0) = a * (x[0] / rho) / s;
                out(0, 1) = a * (x[1] / rho) / s;
            }
            for (unsigned i = 2; i < n; ++i)
                out(0, i) = s > 0 ? x[i] / s : 0.0;
        }
        else if (kind == "plane")
            for (unsigned i = 0; i < n; ++i)
                out(0, i) = (double)(i + 1) / (double)(n + 1);
        else if (kind == "plane2")
        {
            out(0, 0) += -0.3;
            out(0, n - 1) += 1.0;
        }
        else if (kind == "quartic")
        {
            double a = sumsq(x) - 1.0;
            for (unsigned i = 0; i < n; ++i)
                out(0, i) = 4.0 * a * x[i];
        }
        else if (kind == "quarticg")
        {
            out(0, 0) = -100.0 * x[0] * x[0] * x[0];
            out(0, n - 1) += 1.0;
        }
        else if (kind == "semising")
        {
            double r = std::sqrt(sumsq(x));
            for (unsigned i = 0; i < n; ++i)
                out(0, i) = r > 0 ? x[i] / r : 0.0;
            if (x[0] > 0)
            {
                out(1, 0) = x[n - 1] * 2.0 * x[0];
                out(1, n - 1) = x[0] * x[0];
            }
        }
        else if (kind == "hemi")
        {
            // kept finite outside the domain (see the sphere above: a non-finite Jacobian crashes Eigen's SVD solve)
            double q = 0;
            for (unsigned i = 0; i + 1 < n; ++i)
                q += x[i] * x[i];
            double sq = std::sqrt(1.0 - q);
            for (unsigned i = 0; i + 1 < n; ++i)
                out(0, i) = sq > 0 ? x[i] / sq : 0.0;
            out(0, n - 1) = 1.0;
        }
        else if (kind == "logg")
        {
            double a = 1.0 + x[0];
            out(0, 0) = a > 0 ? -0.5 / a : 0.0;
            out(0, n - 1) += 1.0;
        }
        else
        {
            out(0, 0) = 1;
            out(0, 1) = 1;
            out(1, 0) = 1;
            out(1, 1) = 1.001;
            out(1, 2) = 0.05;
        }
    }

    bool project(Eigen::Ref<Eigen::VectorXd> x) const override
    {
        Eigen::VectorXd in = x;
        if (!silent && g_rec && depth == 0 && g_nest == 0)
            evTok("B");
        bool r = ob::Constraint::project(x);
        if (!silent && g_rec && depth == 0 && g_nest == 0)
        {
            evTok("P");
            evVec(in);
            evTok(r ? "1" : "0");
            evVec(x);
        }
        return r;
    }

    bool isSatisfied(const Eigen::Ref<const Eigen::VectorXd> &x) const override
    {
        bool r = ob::Constraint::isSatisfied(x);
        if (!silent && g_rec && depth == 0 && g_nest == 0)
        {
            evTok("S");
            evVec(x);
            evTok(r ? "1" : "0");
        }
        return r;
    }
    double distance(const Eigen::Ref<const Eigen::VectorXd> &x) const override
    {
        ++depth;   // its inner function() call is not a separate oracle question
        double d = ob::Constraint::distance(x);
        --depth;
        if (!silent && g_rec && depth == 0 && g_nest == 0)
        {
            evTok("CD");
            evVec(x);
            evTok(vp::bits(d));
        }
        return d;
    }
    using ob::Constraint::distance;
    using ob::Constraint::function;
    using ob::Constraint::isSatisfied;
    using ob::Constraint::jacobian;
    using ob::Constraint::project;
};


// The library's own ConstraintIntersection (Constraint.h) over two plain components: sphere and the plane
// x[n-1] - 0.3 x[0] - 0.1 = 0 — the same manifold as the hand-stacked kind "spherepl", but function() / jacobian() are the
// library's stacking code.  The intersection object records (same event format, m = 2); the components are silent.
struct RecIsect : ob::ConstraintIntersection
{
    mutable int depth = 0;
    bool silent = false;
    static std::vector<ob::ConstraintPtr> parts(unsigned n, double tol, unsigned maxit)
    {
        auto c1 = std::make_shared<RecCon>("sphere", n, tol, maxit);
        auto c2 = std::make_shared<RecCon>("plane2", n, tol, maxit);
        c1->silent = c2->silent = true;
        return {c1, c2};
    }
    RecIsect(unsigned n, double tol, unsigned maxit) : ob::ConstraintIntersection(n, parts(n, tol, maxit))
    {
        setTolerance(tol);
        setMaxIterations(maxit);
    }
    void function(const Eigen::Ref<const Eigen::VectorXd> &x, Eigen::Ref<Eigen::VectorXd> out) const override
    {
        ob::ConstraintIntersection::function(x, out);
        if (g_rec && depth == 0 && g_nest == 0)
        {
            evTok("F");
            evVec(x);
            evVec(out);
        }
    }
    void jacobian(const Eigen::Ref<const Eigen::VectorXd> &x, Eigen::Ref<Eigen::MatrixXd> out) const override
    {
        if (g_rec && depth == 0 && g_nest == 0)
        {
            evTok("J");
            evVec(x);
        }
        ob::ConstraintIntersection::jacobian(x, out);
    }
    bool project(Eigen::Ref<Eigen::VectorXd> x) const override
    {
        Eigen::VectorXd in = x;
        if (g_rec && depth == 0 && g_nest == 0)
            evTok("B");
        bool r = ob::Constraint::project(x);
        if (g_rec && depth == 0 && g_nest == 0)
        {
            evTok("P");
            evVec(in);
            evTok(r ? "1" : "0");
            evVec(x);
        }
        return r;
    }
    bool isSatisfied(const Eigen::Ref<const Eigen::VectorXd> &x) const override
    {
        bool r = ob::Constraint::isSatisfied(x);
        if (g_rec && depth == 0 && g_nest == 0)
        {
            evTok("S");
            evVec(x);
            evTok(r ? "1" : "0");
        }
        return r;
    }
    double distance(const Eigen::Ref<const Eigen::VectorXd> &x) const override
    {
        ++depth;
        double d = ob::Constraint::distance(x);
        --depth;
        if (g_rec && depth == 0 && g_nest == 0)
        {
            evTok("CD");
            evVec(x);
            evTok(vp::bits(d));
        }
        return d;
    }
    using ob::Constraint::distance;
    using ob::Constraint::function;
    using ob::Constraint::isSatisfied;
    using ob::Constraint::jacobian;
    using ob::Constraint::project;
};

struct RecValid : ob::StateValidityChecker
{
    int axis = -1;
    double lo = 0, hi = 0;
    unsigned n;
    RecValid(const ob::SpaceInformationPtr &si, unsigned n_) : ob::StateValidityChecker(si), n(n_)
    {
    }
    bool isValid(const ob::State *s) const override
    {
        const auto &x = *s->as<ob::ConstrainedStateSpace::StateType>();
        bool r = true;
        if (axis >= 0 && x[axis] > lo && x[axis] < hi)
            r = false;
        if (g_rec)
        {
            evTok("V");
            evVec(x);
            evTok(r ? "1" : "0");
        }
        return r;
    }
};

template <class Base>
struct Rec : Base
{
    using Base::Base;
    std::string atlasParams() const
    {
        if constexpr (std::is_base_of_v<ob::AtlasStateSpace, Base>)
            return "eps=" + vp::bits(this->epsilon_) + " cosa=" + vp::bits(this->cos_alpha_) + " backoff=" + vp::bits(this->backoff_) +
                   " maxc=" + std::to_string(this->maxChartsPerExtension_) + " rhos=" + vp::bits(this->rho_s_);
        else
            return "none";
    }
    bool discreteGeodesic(const ob::State *from, const ob::State *to, bool interpolate,
                          std::vector<ob::State *> *geodesic) const override
    {
        bool r = Base::discreteGeodesic(from, to, interpolate, geodesic);
        if (g_rec)
        {
            evTok("G");
            evTok(interpolate ? "1" : "0");
            evTok(r ? "1" : "0");
            evTok(geodesic ? "1" : "0");
            evTok(std::to_string(geodesic ? geodesic->size() : 0));
            if (geodesic)
                for (auto *s : *geodesic)
                    evVec(*s->template as<ob::ConstrainedStateSpace::StateType>());
        }
        return r;
    }
};

// TangentBundleSpaceInformation whose three-argument checkMotion delegates to the library's and only *remembers* (for the
// attribution of planner path vertices, F460) the states it handed back in lastValid.first that fail the constraint.
static std::set<std::vector<double>> g_lvBad;
struct RecTBSI : ob::TangentBundleSpaceInformation
{
    using ob::TangentBundleSpaceInformation::TangentBundleSpaceInformation;
    using ob::TangentBundleSpaceInformation::checkMotion;
    bool checkMotion(const ob::State *s1, const ob::State *s2, std::pair<ob::State *, double> &lastValid) const override
    {
        bool r = ob::TangentBundleSpaceInformation::checkMotion(s1, s2, lastValid);
        if (!r && lastValid.first != nullptr && !g_rec)
        {
            const auto &x = *lastValid.first->as<ob::ConstrainedStateSpace::StateType>();
            auto con = stateSpace_->as<ob::ConstrainedStateSpace>()->getConstraint();
            if (!con->isSatisfied(lastValid.first))
                g_lvBad.insert(std::vector<double>(x.data(), x.data() + x.size()));
        }
        return r;
    }
};

// ------------------------------------------------------------------------------------------ main
static std::map<std::string, std::string> kv(const std::vector<std::string> &t, size_t from)
{
    std::map<std::string, std::string> m;
    for (size_t i = from; i < t.size(); ++i)
    {
        auto p = t[i].find('=');
        if (p == std::string::npos)
            continue;
        m[t[i].substr(0, p)] = t[i].substr(p + 1);
    }
    return m;
}

struct BadOp
{
};

int main()
{
    ompl::msg::setLogLevel(ompl::msg::LOG_NONE);
    std::string line;
    if (!vp::readLine(line))
        return 2;
    auto hdr = vp::tokens(line);
    if (hdr.empty() || hdr[0] != "constrained")
    {
        std::cout << "bad-header\n";
        return 2;
    }
    auto h = kv(hdr, 1);
    unsigned n;
    double delta, lambda, tol, lo, hi;
    unsigned maxit;
    std::string spaceKind, conKind;
    int obsAxis = -1;
    double obsLo = 0, obsHi = 0;
    try
    {
        spaceKind = h.at("space");
        conKind = h.at("con");
        n = (unsigned)*vp::parseNat(h.at("n"));
        delta = *vp::parseBits(h.at("delta"));
        lambda = *vp::parseBits(h.at("lambda"));
        tol = *vp::parseBits(h.at("tol"));
        maxit = (unsigned)*vp::parseNat(h.at("maxit"));
        lo = *vp::parseBits(h.at("lo"));
        hi = *vp::parseBits(h.at("hi"));
        ompl::RNG::setSeed((std::uint_fast32_t)(*vp::parseNat(h.at("seed")) + 1));
        std::string o = h.at("obs");
        if (o != "none")
        {
            auto p1 = o.find(':'), p2 = o.rfind(':');
            obsAxis = (int)*vp::parseNat(o.substr(0, p1));
            obsLo = *vp::parseBits(o.substr(p1 + 1, p2 - p1 - 1));
            obsHi = *vp::parseBits(o.substr(p2 + 1));
        }
        if (n < 3 || n > 8 || (spaceKind != "proj" && spaceKind != "atlas" && spaceKind != "tb"))
            throw 1;
        static const char *kinds[] = {"sphere", "spherenj", "torus", "plane", "spherepl", "quartic", "quarticg", "nearpar", "isect", "hemi", "logg", "semising"};
        bool okk = false;
        for (auto k : kinds)
            okk |= conKind == k;
        if (!okk)
            throw 1;
    }
    catch (...)
    {
        std::cout << "bad-header\n";
        return 2;
    }

    auto rv = std::make_shared<ob::RealVectorStateSpace>(n);
    rv->setBounds(lo, hi);
    std::shared_ptr<ob::Constraint> con;
    if (conKind == "isect")
        con = std::make_shared<RecIsect>(n, tol, maxit);
    else
        con = std::make_shared<RecCon>(conKind, n, tol, maxit);
    std::shared_ptr<ob::ConstrainedStateSpace> css;
    std::shared_ptr<ob::ConstrainedSpaceInformation> csi;
    if (spaceKind == "proj")
    {
        css = std::make_shared<Rec<ob::ProjectedStateSpace>>(rv, con);
        csi = std::make_shared<ob::ConstrainedSpaceInformation>(css);
    }
    else if (spaceKind == "atlas")
    {
        css = std::make_shared<Rec<ob::AtlasStateSpace>>(rv, con);
        csi = std::make_shared<ob::ConstrainedSpaceInformation>(css);
    }
    else
    {
        css = std::make_shared<Rec<ob::TangentBundleStateSpace>>(rv, con);
        csi = std::make_shared<RecTBSI>(css);
    }
    css->setDelta(delta);
    css->setLambda(lambda);
    // non-default atlas parameters (optional header keys; read back by the `params` op for the model)
    if (auto *at0 = dynamic_cast<ob::AtlasStateSpace *>(css.get()))
    {
        try
        {
            if (h.count("aeps"))
                at0->setEpsilon(*vp::parseBits(h.at("aeps")));
            if (h.count("arho"))
                at0->setRho(*vp::parseBits(h.at("arho")));
            if (h.count("aalpha"))
                at0->setAlpha(*vp::parseBits(h.at("aalpha")));
            if (h.count("aexp"))
                at0->setExploration(*vp::parseBits(h.at("aexp")));
            if (h.count("abackoff"))
                at0->setBackoff(*vp::parseBits(h.at("abackoff")));
            if (h.count("amaxc"))
                at0->setMaxChartsPerExtension((unsigned)*vp::parseNat(h.at("amaxc")));
            if (h.count("asep"))
                at0->setSeparated(h.at("asep") == "1");
        }
        catch (std::exception &e)
        {
            std::cout << "bad-header atlas parameter: " << e.what() << "\n";
            return 2;
        }
    }
    auto valid = std::make_shared<RecValid>(csi, n);
    valid->axis = obsAxis;
    valid->lo = obsLo;
    valid->hi = obsHi;
    csi->setStateValidityChecker(valid);
    try
    {
        csi->setup();
    }
    catch (std::exception &e)
    {
        std::cout << "bad-header setup: " << e.what() << "\n";
        return 2;
    }
    auto *atlas = dynamic_cast<ob::AtlasStateSpace *>(css.get());
    auto sampler = css->allocStateSampler();

    auto readState = [&](const std::vector<std::string> &t, size_t &i, ob::State *s) {
        auto &x = *s->as<ob::ConstrainedStateSpace::StateType>();
        for (unsigned k = 0; k < n; ++k)
        {
            if (i >= t.size())
                throw BadOp();
            auto v = vp::parseBits(t[i++]);
            if (!v)
                throw BadOp();
            x[k] = *v;
        }
        if (atlas)
            s->as<ob::AtlasStateSpace::StateType>()->setChart(nullptr);
    };
    auto showState = [&](const ob::State *s) {
        std::string o;
        const auto &x = *s->as<ob::ConstrainedStateSpace::StateType>();
        for (unsigned k = 0; k < n; ++k)
            o += (k ? " " : "") + vp::bits(x[k]);
        return o;
    };
    auto needBits = [&](const std::vector<std::string> &t, size_t &i) {
        if (i >= t.size())
            throw BadOp();
        auto v = vp::parseBits(t[i++]);
        if (!v)
            throw BadOp();
        return *v;
    };

    ob::State *a = css->allocState(), *b = css->allocState(), *c = css->allocState();
    while (vp::readLine(line))
    {
        auto t = vp::tokens(line);
        if (t.empty())
            continue;
        g_ev.clear();
        g_clog.clear();
        g_rec = true;
        std::ostringstream opOut;  // the op's line is captured so that the chart log can be appended to it
        std::streambuf *coutBuf = std::cout.rdbuf(opOut.rdbuf());
        try
        {
            const std::string &op = t[0];
            size_t i = 1;
            if (op == "proj" && t.size() == 1 + n)
            {
                readState(t, i, a);
                bool r = con->project(a);
                std::cout << "ret=" << r << " x= " << showState(a) << " |" << g_ev << "\n";
            }
            else if (op == "anchor" && t.size() == 1 + n)
            {
                readState(t, i, a);
                if (atlas)
                    atlas->anchorChart(a);
                std::cout << "ok\n";
            }
            else if (op == "clog" && t.size() == 2 && (t[1] == "0" || t[1] == "1"))
            {
                g_clogOn = t[1] == "1";
                std::cout << "ok\n";
            }
            else if (op == "newchart" && t.size() == 1 + n)
            {
                readState(t, i, a);
                ob::AtlasChart *ch = atlas ? atlas->newChart(a->as<ob::AtlasStateSpace::StateType>()) : nullptr;
                std::cout << "chart=" << chartTok(ch) << "\n";
            }
            else if (op == "ipscan" && t.size() == 2 && vp::parseNat(t[1]))
            {
                // directed queries: for every halfspace of the chart, points f * u_ around its boundary (f = 1/2)
                const ob::AtlasChart *ch = nullptr;
                for (auto &kv : g_chartId)
                    if (kv.second == (int)*vp::parseNat(t[1]))
                        ch = static_cast<const ob::AtlasChart *>(kv.first);
                size_t cnt = 0;
                if (ch)
                {
                    static const double fs[] = {0.0, 0.3, 0.45, 0.4999999, 0.5, 0.5000001, 0.52, 0.6, 1.0, 3.0, -1.0};
                    std::vector<Eigen::VectorXd> us;
                    for (auto *hsp : ch->polytope_)
                        us.push_back(hsp->u_);
                    for (auto &u0 : us)
                        for (double f : fs)
                        {
                            Eigen::VectorXd v = f * u0;
                            ch->inPolytope(v);
                            ch->borderCheck(v);
                            ++cnt;
                        }
                }
                std::cout << "scanned=" << cnt << "\n";
            }
            else if (op == "setdelta" && t.size() == 2 && vp::parseBits(t[1]))
            {
                css->setDelta(*vp::parseBits(t[1]));   // mid-script; atlas rho / chart radii keep the values they were built with
                std::cout << "ok\n";
            }
            else if (op == "setlambda" && t.size() == 2 && vp::parseBits(t[1]))
            {
                css->setLambda(*vp::parseBits(t[1]));
                std::cout << "ok\n";
            }
            else if (op == "aclear" && t.size() == 1)
            {
                // AtlasStateSpace::clear(): every non-anchor chart is deleted, the anchors are re-created
                if (atlas)
                {
                    atlas->clear();
                    g_chartId.clear();
                    g_announced.clear();
                }
                std::cout << "ok\n";
            }
            else if (op == "interpo" && t.size() == 3 + 2 * n && (t[1] == "1" || t[1] == "2"))
            {
                // caller-owned output object aliased with an input: interpolate(a, b, t, a) / interpolate(a, b, t, b)
                i = 2;
                readState(t, i, a);
                readState(t, i, b);
                double tt = needBits(t, i);
                ob::State *outp = t[1] == "1" ? a : b;
                css->interpolate(a, b, tt, outp);
                std::cout << "r= " << showState(outp) << " |" << g_ev << "\n";
            }
            else if (op == "settol" && t.size() == 2 && vp::parseBits(t[1]))
            {
                // mid-script: charts that already exist are kept (no atlas->clear())
                con->setTolerance(*vp::parseBits(t[1]));
                std::cout << "ok\n";
            }
            else if (op == "setmaxiter" && t.size() == 2 && vp::parseNat(t[1]))
            {
                con->setMaxIterations((unsigned)*vp::parseNat(t[1]));
                std::cout << "ok\n";
            }
            else if (op == "params" && t.size() == 1)
            {
                std::string ps = "none";
                if (auto *r1 = dynamic_cast<Rec<ob::AtlasStateSpace> *>(css.get()))
                    ps = r1->atlasParams();
                else if (auto *r2 = dynamic_cast<Rec<ob::TangentBundleStateSpace> *>(css.get()))
                    ps = r2->atlasParams();
                std::cout << "params " << ps << "\n";
            }
            else if (op == "sat" && t.size() == 1 + n)
            {
                readState(t, i, a);
                bool r = con->isSatisfied(a);
                std::cout << "sat=" << r << " |" << g_ev << "\n";
            }
            else if (op == "sample" && t.size() >= 2)
            {
                i = 2;
                if (t[1] == "u" && t.size() == 2)
                    sampler->sampleUniform(a);
                else if ((t[1] == "n" || t[1] == "g") && t.size() == 3 + n)
                {
                    readState(t, i, b);
                    double d = needBits(t, i);
                    if (t[1] == "n")
                        sampler->sampleUniformNear(a, b, d);
                    else
                        sampler->sampleGaussian(a, b, d);
                }
                else
                    throw BadOp();
                std::cout << "s= " << showState(a) << " |" << g_ev << "\n";
            }
            else if (op == "geo" && t.size() == 2 + 2 * n && (t[1] == "0" || t[1] == "1"))
            {
                i = 2;
                readState(t, i, a);
                readState(t, i, b);
                std::vector<ob::State *> g;
                // call the base-class implementation's virtual entry (goes through Rec<>, whose G record is redundant here)
                bool r = css->discreteGeodesic(a, b, t[1] == "1", &g);
                std::string o = "ok=" + std::to_string((int)r) + " n=" + std::to_string(g.size());
                for (auto *s : g)
                {
                    o += " " + showState(s);
                    css->freeState(s);
                }
                std::cout << o << " |" << g_ev << "\n";
            }
            else if (op == "interp" && t.size() == 2 + 2 * n)
            {
                readState(t, i, a);
                readState(t, i, b);
                double tt = needBits(t, i);
                css->interpolate(a, b, tt, c);
                std::cout << "r= " << showState(c) << " |" << g_ev << "\n";
            }
            else if (op == "gi" && t.size() >= 3)
            {
                double tt = needBits(t, i);
                auto k = vp::parseNat(t[i++]);
                if (!k || *k == 0 || t.size() != 3 + *k * n)
                    throw BadOp();
                std::vector<ob::State *> g;
                try
                {
                    for (size_t j = 0; j < *k; ++j)
                    {
                        g.push_back(css->allocState());
                        readState(t, i, g.back());
                    }
                }
                catch (BadOp &)
                {
                    for (auto *s : g)
                        css->freeState(s);
                    throw;
                }
                ob::State *r = css->ob::ConstrainedStateSpace::geodesicInterpolate(g, tt);
                long idx = -1;
                for (size_t j = 0; j < g.size(); ++j)
                    if (g[j] == r)
                        idx = (long)j;
                std::cout << "idx=" << idx << "\n";
                for (auto *s : g)
                    css->freeState(s);
            }
            else if (op == "cm1" && t.size() == 1 + 2 * n)
            {
                readState(t, i, a);
                readState(t, i, b);
                bool r = csi->getMotionValidator()->checkMotion(a, b);
                std::cout << "v=" << r << " |" << g_ev << "\n";
            }
            else if (op == "cm2" && t.size() == 2 + 2 * n && (t[1] == "0" || t[1] == "1"))
            {
                i = 2;
                readState(t, i, a);
                readState(t, i, b);
                auto &cx = *c->as<ob::ConstrainedStateSpace::StateType>();
                for (unsigned k = 0; k < n; ++k)
                    cx[k] = SENT_STATE;
                std::pair<ob::State *, double> lv(t[1] == "1" ? c : nullptr, SENT_FRAC);
                bool r = csi->getMotionValidator()->checkMotion(a, b, lv);
                std::cout << "v=" << r << " first= " << showState(c) << " second=" << vp::bits(lv.second) << " |" << g_ev
                          << "\n";
            }
            else if (op == "gms" && t.size() == 2 + 2 * n && (t[1] == "0" || t[1] == "1"))
            {
                // (Constrained|TangentBundle)SpaceInformation::getMotionStates
                i = 2;
                readState(t, i, a);
                readState(t, i, b);
                std::vector<ob::State *> g;
                unsigned ret = csi->getMotionStates(a, b, g, 0, t[1] == "1", true);
                std::string o = "ret=" + std::to_string(ret) + " n=" + std::to_string(g.size());
                for (auto *s : g)
                {
                    o += " " + showState(s);
                    css->freeState(s);
                }
                std::cout << o << " |" << g_ev << "\n";
            }
            else if (op == "sicm" && t.size() == 2 + 2 * n && (t[1] == "0" || t[1] == "1"))
            {
                // SpaceInformation::checkMotion(s1, s2, lastValid) (virtual: TangentBundleSpaceInformation post-processes)
                i = 2;
                readState(t, i, a);
                readState(t, i, b);
                auto &cx = *c->as<ob::ConstrainedStateSpace::StateType>();
                for (unsigned k = 0; k < n; ++k)
                    cx[k] = SENT_STATE;
                if (atlas)
                    c->as<ob::AtlasStateSpace::StateType>()->setChart(nullptr);
                std::pair<ob::State *, double> lv(t[1] == "1" ? c : nullptr, SENT_FRAC);
                bool r = csi->checkMotion(a, b, lv);
                std::cout << "v=" << r << " first= " << showState(c) << " second=" << vp::bits(lv.second) << " |" << g_ev
                          << "\n";
            }
            else if (op == "vs" && t.size() >= 3 && vp::parseNat(t[1]))
            {
                // ConstrainedValidStateSampler::sample / sampleNear with attempts_ = t[1]
                auto vss = csi->allocValidStateSampler();
                vss->setNrAttempts((unsigned)*vp::parseNat(t[1]));
                i = 3;
                bool r;
                if (t[2] == "u" && t.size() == 3)
                    r = vss->sample(a);
                else if (t[2] == "n" && t.size() == 4 + n)
                {
                    readState(t, i, b);
                    double d = needBits(t, i);
                    r = vss->sampleNear(a, b, d);
                }
                else
                    throw BadOp();
                std::cout << "ret=" << r << " s= " << showState(a) << " |" << g_ev << "\n";
            }
            else if (op == "plan" && t.size() == 3 + 2 * n)
            {
                g_rec = false;
                g_lvBad.clear();
                std::string pn = t[1];
                auto ev = vp::parseNat(t[2]);
                if (!ev)
                    throw BadOp();
                i = 3;
                readState(t, i, a);
                readState(t, i, b);
                ob::PlannerPtr pl;
                if (pn == "RRT")
                    pl = std::make_shared<og::RRT>(csi);
                else if (pn == "RRTConnect")
                    pl = std::make_shared<og::RRTConnect>(csi);
                else if (pn == "RRTstar")
                    pl = std::make_shared<og::RRTstar>(csi);
                else if (pn == "PRM")
                    pl = std::make_shared<og::PRM>(csi);
                else if (pn == "KPIECE1")
                    pl = std::make_shared<og::KPIECE1>(csi);
                else if (pn == "BKPIECE1")
                    pl = std::make_shared<og::BKPIECE1>(csi);
                else if (pn == "EST")
                    pl = std::make_shared<og::EST>(csi);
                else if (pn == "BITstar")
                    pl = std::make_shared<og::BITstar>(csi);
                else
                    throw BadOp();
                if (atlas)
                {
                    atlas->clear();
                    g_chartId.clear();
                    g_announced.clear();
                    atlas->anchorChart(a);
                    atlas->anchorChart(b);
                }
                auto pdef = std::make_shared<ob::ProblemDefinition>(csi);
                pdef->setStartAndGoalStates(a, b, delta);
                pl->setProblemDefinition(pdef);
                pl->setup();
                unsigned long evals = 0, fireAt = *ev;
                ob::PlannerTerminationCondition ptc([&]() { return ++evals > fireAt; });
                ob::PlannerStatus st = pl->solve(ptc);
                std::string o = "status=" + st.asString();
                for (auto &ch : o)
                    if (ch == ' ')
                        ch = '_';
                auto path = pdef->getSolutionPath();
                if (path)
                {
                    auto *pg = path->as<og::PathGeometric>();
                    // path vertices that are bit-identical to an off-manifold state TangentBundleSpaceInformation::checkMotion
                    // handed back as lastValid.first during this run
                    std::string lv;
                    for (size_t j = 0; j < pg->getStateCount(); ++j)
                    {
                        const auto &x = *pg->getState(j)->as<ob::ConstrainedStateSpace::StateType>();
                        if (g_lvBad.count(std::vector<double>(x.data(), x.data() + x.size())))
                            lv += (lv.empty() ? "" : ",") + std::to_string(j);
                    }
                    o += " lvbad=" + (lv.empty() ? std::string("none") : lv);
                    o += " exact=" + std::to_string((int)!pdef->hasApproximateSolution()) + " k=" +
                         std::to_string(pg->getStateCount());
                    for (size_t j = 0; j < pg->getStateCount(); ++j)
                        o += " " + showState(pg->getState(j));
                }
                else
                    o += " exact=0 k=0";
                pl->clear();
                std::cout << o << "\n";
            }
            else
                std::cout << "bad-op\n";
        }
        catch (BadOp &)
        {
            std::cout << "bad-op\n";
        }
        catch (std::exception &e)
        {
            std::string w = e.what();
            for (auto &ch : w)
                if (ch == ' ' || ch == '\n')
                    ch = '_';
            std::cout << "exception " << w << " |" << g_ev << "\n";
        }
        std::cout.rdbuf(coutBuf);
        {
            std::string o = opOut.str();
            while (!o.empty() && o.back() == '\n')
                o.pop_back();
            if (!g_clog.empty())
                o += " ||" + g_clog;
            std::cout << o << "\n";
        }
    }
    css->freeState(a);
    css->freeState(b);
    css->freeState(c);
    return 0;
}
