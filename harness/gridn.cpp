// C13 harness for the PLAIN ompl::GridN<int> (src/ompl/datastructures/GridN.h) with the split protocol its API
// documents: createCell (neighbour counters of the adjacent cells are updated at once; the cell is not yet in the grid),
// then add(cell) -- or remove(cell) + destroyCell(cell) to give a tentative cell back ("If the cell has not been added to
// the grid, only update the neighbor list") -- and remove + destroyCell of cells of the grid.  Line protocol of
// lean/OmplModel/Driver/GridN.lean.  Only public members are used.  Cells are numbered in order of creation.
#include "common/proto.h"
#include <Eigen/Core>
#include <algorithm>
#include <map>
#include <vector>
#include "ompl/datastructures/GridN.h"

using G = ompl::GridN<int>;
using Cell = G::Cell;
using Coord = G::Coord;

static std::map<const void *, long> idOf;
static long nextId = 0;

static std::string joinC(const std::vector<std::string> &v)
{
    if (v.empty())
        return "-";
    std::string s;
    for (size_t i = 0; i < v.size(); ++i)
        s += (i ? "," : "") + v[i];
    return s;
}

static std::string cellStr(const Cell *c, unsigned dim, bool withData)
{
    std::vector<std::string> xs;
    for (unsigned i = 0; i < dim; ++i)
        xs.push_back(std::to_string(c->coord[i]));
    return std::to_string(idOf.at(c)) + ":" + joinC(xs) + ":" + std::to_string(c->neighbors) + ":" + (c->border ? "1" : "0") +
           (withData ? ":" + std::to_string(c->data) : std::string());
}

static bool coordAt(const std::vector<std::string> &t, size_t &i, unsigned dim, Coord &x)
{
    if (i + dim > t.size())
        return false;
    x.resize(dim);
    for (unsigned k = 0; k < dim; ++k)
    {
        auto v = vp::parseInt(t[i + k]);
        if (!v || *v < -2000000000LL || *v > 2000000000LL)
            return false;
        x[k] = (int)*v;
    }
    i += dim;
    return true;
}

int main()
{
    std::string line;
    if (!vp::readLine(line))
        return 2;
    auto h = vp::tokens(line);
    unsigned dim = 0, limit = 0;
    bool ok = h.size() >= 4 && h[0] == "gridn" && h[1].compare(0, 4, "dim=") == 0 && vp::parseNat(h[1].substr(4)) &&
              h[2].compare(0, 6, "limit=") == 0;
    bool hasBounds = false;
    Coord lo, up;
    if (ok)
    {
        dim = (unsigned)*vp::parseNat(h[1].substr(4));
        ok = dim >= 1 && dim <= 8;
        std::string v = h[2].substr(6);
        if (v == "default")
            limit = 2 * dim;
        else if (vp::parseNat(v))
            limit = (unsigned)*vp::parseNat(v);
        else
            ok = false;
        ok = ok && limit >= 1;
    }
    if (ok)
    {
        if (h[3] == "nobounds")
            ok = h.size() == 4;
        else if (h[3] == "bounds" && h.size() == 4 + 2 * (size_t)dim)
        {
            size_t i = 4;
            ok = coordAt(h, i, dim, lo) && coordAt(h, i, dim, up);
            hasBounds = ok;
        }
        else
            ok = false;
    }
    if (!ok)
    {
        std::cout << "bad-header\n";
        return 2;
    }
    G grid(dim);
    if (h[2] != "limit=default")
        grid.setInteriorCellNeighborLimit(limit);
    if (hasBounds)
        grid.setBounds(lo, up);
    Cell *pending = nullptr;
    auto fin = [&](const std::string &res) {
        std::vector<Cell *> cells;
        grid.getCells(cells);
        std::sort(cells.begin(), cells.end(), [](Cell *a, Cell *b) { return idOf.at(a) < idOf.at(b); });
        std::string s = res + " | n=" + std::to_string(grid.size());
        for (Cell *c : cells)
            s += " " + cellStr(c, dim, true);
        s += " | pending=" + (pending ? cellStr(pending, dim, false) : std::string("-"));
        std::cout << s << std::endl;
    };
    while (vp::readLine(line))
    {
        auto t = vp::tokens(line);
        if (t.empty())
            continue;
        const std::string &op = t[0];
        size_t i = 1;
        Coord x;
        if (op == "create")
        {
            if (!coordAt(t, i, dim, x) || i + 1 != t.size() || !vp::parseInt(t[i])) { std::cout << "bad-op\n"; continue; }
            if (pending) { fin("busy"); continue; }
            if (grid.has(x)) { fin("present"); continue; }
            pending = static_cast<Cell *>(grid.createCell(x));
            idOf[pending] = nextId++;
            pending->data = (int)*vp::parseInt(t[i]);
            fin("c=" + std::to_string(idOf.at(pending)));
        }
        else if (op == "add" && t.size() == 1)
        {
            if (!pending) { fin("nopending"); continue; }
            grid.add(pending);
            pending = nullptr;
            fin("ok");
        }
        else if (op == "abandon" && t.size() == 1)
        {
            if (!pending) { fin("nopending"); continue; }
            bool r = grid.remove(pending);
            idOf.erase(pending);
            grid.destroyCell(pending);
            pending = nullptr;
            fin(r ? "1" : "0");
        }
        else if (op == "rm")
        {
            if (!coordAt(t, i, dim, x) || i != t.size()) { std::cout << "bad-op\n"; continue; }
            if (pending) { fin("busy"); continue; }
            Cell *c = grid.getCell(x);
            if (!c) { fin("absent"); continue; }
            bool r = grid.remove(c);
            idOf.erase(c);
            grid.destroyCell(c);
            fin(r ? "1" : "0");
        }
        else if (op == "has")
        {
            if (!coordAt(t, i, dim, x) || i != t.size()) { std::cout << "bad-op\n"; continue; }
            bool hs = grid.has(x);
            Cell *c = grid.getCell(x);
            if (hs != (c != nullptr)) { fin("has/getCell-disagree"); continue; }
            fin(c ? "1 c=" + std::to_string(idOf.at(c)) : std::string("0"));
        }
        else if (op == "nb")
        {
            if (!coordAt(t, i, dim, x) || i != t.size()) { std::cout << "bad-op\n"; continue; }
            G::CellArray nb;
            const Coord &cx = x;
            grid.neighbors(cx, nb);
            std::string s = std::to_string(nb.size());
            for (Cell *n : nb)
                s += " " + std::to_string(idOf.at(n));
            fin(s);
        }
        else if (op == "obs" && t.size() == 1)
        {
            // getContent / getCoordinates / getCells / components() / status()
            std::vector<int> content;
            grid.getContent(content);
            std::sort(content.begin(), content.end());
            std::vector<Coord *> coords;
            grid.getCoordinates(coords);
            std::vector<long> ids;
            for (Coord *cp : coords)
            {
                Cell *c = grid.getCell(*cp);
                ids.push_back(c ? idOf.at(c) : -1);
            }
            std::sort(ids.begin(), ids.end());
            auto comps = grid.components();
            std::vector<std::string> sizes, cs, is, ct;
            std::vector<std::vector<long>> canon;
            for (auto &c : comps)
            {
                sizes.push_back(std::to_string(c.size()));
                std::vector<long> v;
                for (auto *cell : c)
                    v.push_back(idOf.at(cell));
                std::sort(v.begin(), v.end());
                canon.push_back(v);
            }
            std::sort(canon.begin(), canon.end(), [](const std::vector<long> &a, const std::vector<long> &b) {
                if (a.size() != b.size())
                    return a.size() > b.size();
                return a < b;
            });
            std::string cstr;
            for (size_t k = 0; k < canon.size(); ++k)
            {
                if (k)
                    cstr += ";";
                for (size_t j = 0; j < canon[k].size(); ++j)
                    cstr += (j ? "," : "") + std::to_string(canon[k][j]);
            }
            for (int v : content) ct.push_back(std::to_string(v));
            for (long v : ids) is.push_back(std::to_string(v));
            std::ostringstream os;
            grid.status(os);          // "<n> total cells \n<k> connected components: <sizes> \n"
            std::istringstream is2(os.str());
            long total = -1, ncomp = -1;
            std::string w;
            is2 >> total >> w >> w >> ncomp;
            fin("content=" + joinC(ct) + " cells=" + joinC(is) + " sizes=" + joinC(sizes) + " comps=" + (canon.empty() ? std::string("-") : cstr) +
                " status=" + std::to_string(total) + "/" + std::to_string(ncomp));
        }
        else if (op == "setlimit" && t.size() == 2 && vp::parseNat(t[1]) && *vp::parseNat(t[1]) >= 1 && *vp::parseNat(t[1]) <= 1000000)
        {
            if (pending) { fin("busy"); continue; }
            grid.setInteriorCellNeighborLimit((unsigned)*vp::parseNat(t[1]));
            fin("ok");
        }
        else if (op == "setbounds")
        {
            Coord l2, u2;
            if (!coordAt(t, i, dim, l2) || !coordAt(t, i, dim, u2) || i != t.size()) { std::cout << "bad-op\n"; continue; }
            if (pending) { fin("busy"); continue; }
            grid.setBounds(l2, u2);
            hasBounds = true;
            fin("ok");
        }
        else if (op == "setdim" && t.size() >= 2 && vp::parseNat(t[1]) && *vp::parseNat(t[1]) >= 1 && *vp::parseNat(t[1]) <= 8)
        {
            unsigned nd = (unsigned)*vp::parseNat(t[1]);
            Coord l2, u2;
            i = 2;
            bool wf = hasBounds ? (coordAt(t, i, nd, l2) && coordAt(t, i, nd, u2) && i == t.size()) : t.size() == 2;
            if (!wf) { std::cout << "bad-op\n"; continue; }
            if (pending || !grid.empty()) { fin("busy"); continue; }
            grid.setDimension(nd);
            dim = nd;
            if (hasBounds)
                grid.setBounds(l2, u2);
            fin("ok");
        }
        else if (op == "clear" && t.size() == 1)
        {
            if (pending) { fin("busy"); continue; }
            std::vector<Cell *> cells;
            grid.getCells(cells);
            for (Cell *c : cells)
                idOf.erase(c);
            grid.clear();
            fin("ok");
        }
        else
            std::cout << "bad-op\n";
    }
    if (pending)
    {
        grid.remove(pending);
        grid.destroyCell(pending);
    }
    return 0;
}
