// C03 harness: runs a HISTORY of planner API calls (solve k | clear | clearQuery | setpd | setsg | addstart |
// getpd | clearsol) against one real planner from /repo's current tree, on a unit-box environment with box
// obstacles, a state space that counts (and, in trace mode, logs) every allocState/freeState, and a termination
// condition that turns true at evaluation number k+1 of the current solve call and stays true (no wall clock).
//
// header:  proto planner=<name> seed=<n> dim=<d> trace=<0|1> [limit=<s>] [res=<bits>] [obj=len] boxes <pdim> <k> (<lo>*pdim <hi>*pdim)*k
// ops:     setpd <sx>*d <gx>*d <thr>      new ProblemDefinition (the previous one is dropped), setProblemDefinition
//          setsg <sx>*d <gx>*d <thr>      same ProblemDefinition object: setStartAndGoalStates + clearSolutionPaths
//          mutpd <sx>*d <gx>*d <thr>      as setsg, then planner->setProblemDefinition(the same pointer)
//          setpdg <sx>*d <n> (<gx>*d)*n <thr>   new ProblemDefinition with a GoalStates goal of n states
//          addstart <x>*d                 pdef->addStartState (the one change of a pdef a resumed solve accounts for)
//          solve <k>                      solve(ptc) with ptc false for the first k evaluations
//          solvei <k>                     the same, decided by a real IterationTerminationCondition(k)
//          solvet <k>                     ptc's function never fires; PlannerTerminationCondition::terminate() at evaluation k+1
//          setparam <name> <value>        planner->params().setParam (a parameter changed between calls)
//          clear | clearQuery | getpd | clearsol
// (doubles are u64 bit patterns.)  One line per op; at EOF planner, problem definitions and paths are destroyed and
// `end live=<n> allocs=<n> frees=<n> badfree=<n>` is printed.  ASan/LSan/UBSan are on: a report is a result.
//
// solve line:
//   solve st=<STATUS> nsol=<n> added=<n> has=<b> exact=<b> approx=<b> top=<approx>:<diff>:<optimized>:<hasopt>:<cost>:<len>
//         cmp=<na|same|better|worse> fired=<b> after=<n> evals=<n> firstsol=<n|-> firstexact=<n|-> plive=<n>
//         new=[<idx>:<approx>:<n>:<s0>:<goal>:<valid>:<motions>:<old>:<ctl>;...] path=<n> <bits>*
//   per new solution: n states, s0 = index of the current start state the first state equals (-1 none, -2 a start of an
//   earlier query), goal = last state satisfies the current goal (2: not, but it is at a goal of an earlier query), valid = all states valid, motions = all consecutive motions valid (geometric),
//   old = number of states equal to a start/goal state that exists only in an earlier query, ctl = control path shape ok.
//   cmp compares the top solution before and after the call with the real PlannerSolution::operator<.
// In trace mode (planner RRT) ` | ev=` lists what happened inside the planner call: A<serial> / F<serial>
// (allocState / freeState), P<b> (termination condition evaluated), M<serial of s1>:<b>:<bits of s2>,
// m<serial s1>:<serial s2>:<bits of s1> (before every M; RRTConnect lock-step), G<serial>:<sat>:<dist bits>; control planners: X<src serial>:<dst serial>:<bits of dst> (propagate), V<serial>:<b> (isValid).
#include "common/planning.h"
#include <ompl/base/DiscreteMotionValidator.h>
#include <ompl/base/PlannerData.h>
#include <ompl/base/terminationconditions/IterationTerminationCondition.h>
#include <ompl/multilevel/planners/qrrt/QRRT.h>
#include <ompl/multilevel/planners/qrrt/QRRTStar.h>
#include <ompl/multilevel/planners/qmp/QMP.h>
#include <ompl/multilevel/planners/qmp/QMPStar.h>
#include <ompl/control/SpaceInformation.h>
#include <ompl/control/PathControl.h>
#include <ompl/control/spaces/RealVectorControlSpace.h>
#include <ompl/control/planners/rrt/RRT.h>
#include <ompl/control/planners/sst/SST.h>
#include <ompl/control/planners/est/EST.h>
#include <ompl/control/planners/kpiece/KPIECE1.h>
#include <ompl/control/planners/pdst/PDST.h>
#include <ompl/util/RandomNumbers.h>
#include <chrono>
#include <map>
#include <set>
#include <thread>
#include <unistd.h>
#include <unordered_map>

namespace ob = ompl::base;
namespace og = ompl::geometric;
namespace oc = ompl::control;

// ------------------------------------------------------------------------------------------------ tracking space
struct Tracker
{
    std::mutex m;
    std::unordered_map<const ob::State *, long> live;  // pointer -> serial of the allocation
    long next = 0;
    long badfree = 0;
    bool trace = false;
    bool inCall = false;
    std::vector<std::string> ev;

    void emit(const std::string &s)
    {
        if (trace && inCall)
            ev.push_back(s);
    }
    long serial(const ob::State *s)
    {
        auto it = live.find(s);
        return it == live.end() ? -1 : it->second;
    }
};

class TrackingRV : public vp::Counting<ob::RealVectorStateSpace>
{
public:
    TrackingRV(std::shared_ptr<vp::AllocCounter> c, std::shared_ptr<Tracker> t, unsigned dim)
      : vp::Counting<ob::RealVectorStateSpace>(std::move(c), dim), t_(std::move(t))
    {
    }
    ob::State *allocState() const override
    {
        ob::State *s = vp::Counting<ob::RealVectorStateSpace>::allocState();
        std::lock_guard<std::mutex> g(t_->m);
        long id = t_->next++;
        t_->live[s] = id;
        t_->emit("A" + std::to_string(id));
        return s;
    }
    void freeState(ob::State *s) const override
    {
        {
            std::lock_guard<std::mutex> g(t_->m);
            auto it = t_->live.find(s);
            if (it == t_->live.end())
            {
                ++t_->badfree;
                t_->emit("F?");
            }
            else
            {
                t_->emit("F" + std::to_string(it->second));
                t_->live.erase(it);
            }
        }
        vp::Counting<ob::RealVectorStateSpace>::freeState(s);
    }

private:
    std::shared_ptr<Tracker> t_;
};

class TraceMV : public ob::MotionValidator
{
public:
    TraceMV(const ob::SpaceInformationPtr &si, std::shared_ptr<Tracker> t)
      : ob::MotionValidator(si), inner_(std::make_shared<ob::DiscreteMotionValidator>(si)), t_(std::move(t))
    {
    }
    bool checkMotion(const ob::State *s1, const ob::State *s2) const override
    {
        bool r = inner_->checkMotion(s1, s2);
        std::lock_guard<std::mutex> g(t_->m);
        if (t_->trace && t_->inCall)
        {
            std::vector<double> reals;
            si_->getStateSpace()->copyToReals(reals, s2);
            // m<serial s1>:<serial s2> first (which of the two is the planner's scratch state tells the tree side and
            // REACHED / ADVANCED of RRTConnect::growTree), then the M event the single-tree parsers read
            {
                std::vector<double> r1;
                si_->getStateSpace()->copyToReals(r1, s1);
                std::string e = "m" + std::to_string(t_->serial(s1)) + ":" + std::to_string(t_->serial(s2));
                for (double d : r1)
                    e += ":" + vp::bits(d);
                t_->ev.push_back(e);
            }
            std::string s = "M" + std::to_string(t_->serial(s1)) + ":" + (r ? "1" : "0");
            for (double d : reals)
                s += ":" + vp::bits(d);
            t_->ev.push_back(s);
        }
        return r;
    }
    bool checkMotion(const ob::State *s1, const ob::State *s2, std::pair<ob::State *, double> &last) const override
    {
        return inner_->checkMotion(s1, s2, last);
    }

private:
    ob::MotionValidatorPtr inner_;
    std::shared_ptr<Tracker> t_;
};

// validity checker that logs every answer (trace mode, control planners): V<serial>:<b>
class TraceVC : public vp::RecordingValidityChecker
{
public:
    TraceVC(const ob::SpaceInformationPtr &si, vp::Env env, std::shared_ptr<Tracker> t)
      : vp::RecordingValidityChecker(si, std::move(env), false), t_(std::move(t))
    {
    }
    bool isValid(const ob::State *state) const override
    {
        bool r = vp::RecordingValidityChecker::isValid(state);
        std::lock_guard<std::mutex> g(t_->m);
        if (t_->trace && t_->inCall)
            t_->ev.push_back("V" + std::to_string(t_->serial(state)) + ":" + (r ? "1" : "0"));
        return r;
    }

private:
    std::shared_ptr<Tracker> t_;
};

class TraceGoal : public ob::GoalState
{
public:
    TraceGoal(const ob::SpaceInformationPtr &si, std::shared_ptr<Tracker> t) : ob::GoalState(si), t_(std::move(t))
    {
    }
    bool isSatisfied(const ob::State *st, double *distance) const override
    {
        double d = 0;
        bool r = ob::GoalState::isSatisfied(st, &d);
        if (distance)
            *distance = d;
        std::lock_guard<std::mutex> g(t_->m);
        if (t_->trace && t_->inCall)
            t_->ev.push_back("G" + std::to_string(t_->serial(st)) + ":" + (r ? "1" : "0") + ":" + vp::bits(d));
        return r;
    }
    bool isSatisfied(const ob::State *st) const override
    {
        return isSatisfied(st, nullptr);
    }

private:
    std::shared_ptr<Tracker> t_;
};

// control space that counts allocControl/freeControl (leak observation for controls)
struct ControlCounter
{
    std::atomic<long> live{0}, allocs{0}, frees{0};
};

class CountingRVControl : public oc::RealVectorControlSpace
{
public:
    CountingRVControl(const ob::StateSpacePtr &space, unsigned dim, std::shared_ptr<ControlCounter> c)
      : oc::RealVectorControlSpace(space, dim), c_(std::move(c))
    {
    }
    oc::Control *allocControl() const override
    {
        ++c_->live;
        ++c_->allocs;
        return oc::RealVectorControlSpace::allocControl();
    }
    void freeControl(oc::Control *control) const override
    {
        --c_->live;
        ++c_->frees;
        oc::RealVectorControlSpace::freeControl(control);
    }

private:
    std::shared_ptr<ControlCounter> c_;
};

// ------------------------------------------------------------------------------------------------ planners
static const std::vector<std::string> &controlPlannerNames()
{
    static const std::vector<std::string> n = {"cRRT", "cRRTi", "cSST", "cEST", "cKPIECE1", "cPDST"};
    return n;
}

static bool isControl(const std::string &n)
{
    for (auto &c : controlPlannerNames())
        if (c == n)
            return true;
    return false;
}

static ob::PlannerPtr makePlanner(const std::string &n, const ob::SpaceInformationPtr &si,
                                  const std::shared_ptr<oc::SpaceInformation> &csi)
{
    if (csi)
    {
        if (n == "cRRT") return std::make_shared<oc::RRT>(csi);
        if (n == "cRRTi")
        {
            // control RRT keeping every propagated state as a motion (multi-step propagations, see the header set-up)
            auto p = std::make_shared<oc::RRT>(csi);
            p->setIntermediateStates(true);
            return p;
        }
        if (n == "cSST")
        {
            auto p = std::make_shared<oc::SST>(csi);
            p->setSelectionRadius(0.1);
            p->setPruningRadius(0.04);
            return p;
        }
        if (n == "cEST") return std::make_shared<oc::EST>(csi);
        if (n == "cKPIECE1") return std::make_shared<oc::KPIECE1>(csi);
        if (n == "cPDST") return std::make_shared<oc::PDST>(csi);
        throw vp::ParseError("planner " + n);
    }
    if (n == "FMT")
    {
        auto p = std::make_shared<og::FMT>(si);
        p->setNumSamples(150);
        return p;
    }
    if (n == "BFMT")
    {
        auto p = std::make_shared<og::BFMT>(si);
        p->setNumSamples(150);
        return p;
    }
    if (n == "SST")
    {
        // the defaults (selection radius 5, pruning radius 3) exceed the unit box: one witness, no growth
        auto p = std::make_shared<og::SST>(si);
        p->setSelectionRadius(0.1);
        p->setPruningRadius(0.04);
        return p;
    }
    if (n == "RRTi")
        return std::make_shared<og::RRT>(si, true);  // addIntermediateStates
    if (n == "RRTConnecti")
        return std::make_shared<og::RRTConnect>(si, true);
    if (n == "QRRT" || n == "QRRTStar" || n == "QMP" || n == "QMPStar")
    {
        // multilevel planners driven on a one-level sequence (the bundle-space machinery degenerates to one space)
        std::vector<ob::SpaceInformationPtr> sis{si};
        if (n == "QRRT") return std::make_shared<ompl::multilevel::QRRT>(sis);
        if (n == "QRRTStar") return std::make_shared<ompl::multilevel::QRRTStar>(sis);
        if (n == "QMP") return std::make_shared<ompl::multilevel::QMP>(sis);
        return std::make_shared<ompl::multilevel::QMPStar>(sis);
    }
    if (n == "BITstarA" || n == "ABITstarA")
    {
        // BIT* / ABIT* report approximate solutions only when asked to (closestVertexToGoal_ / closestDistanceToGoal_
        // bookkeeping in the ImplicitGraph); these variants ask
        std::shared_ptr<og::BITstar> p;
        if (n == "BITstarA")
            p = std::make_shared<og::BITstar>(si);
        else
            p = std::make_shared<og::ABITstar>(si);
        p->setConsiderApproximateSolutions(true);
        return p;
    }
    if (n == "CForest")
    {
        auto p = std::make_shared<og::CForest>(si);
        p->setNumThreads(2);
        return p;
    }
    if (n == "pRRT")
    {
        auto p = std::make_shared<og::pRRT>(si);
        p->setThreadCount(2);
        return p;
    }
    if (n == "pSBL")
    {
        auto p = std::make_shared<og::pSBL>(si);
        p->setThreadCount(2);
        return p;
    }
    if (n == "AnytimePathShortening")
    {
        auto p = std::make_shared<og::AnytimePathShortening>(si);
        p->setDefaultNumPlanners(2);
        return p;
    }
    return vp::makeGeometricPlanner(n, si);
}

// ------------------------------------------------------------------------------------------------ the session
struct EvalState
{
    std::atomic<unsigned long> evals{0};
    unsigned long fireAt = 0;
    std::atomic<long> firstSol{-1}, firstExact{-1};
    std::atomic<long long> firedAtMs{-1};  // steady-clock ms of the first evaluation that returned true
    std::atomic<long> firedAtEval{-1};     // number of the first evaluation that returned true (or called terminate())
    std::atomic<long long> lastEvalMs{-1};  // steady-clock ms of the latest evaluation
};

static long long nowMs()
{
    return std::chrono::duration_cast<std::chrono::milliseconds>(std::chrono::steady_clock::now().time_since_epoch()).count();
}

// hard wall limit (seconds) for solve() to return AFTER the termination condition was first evaluated true
static double g_returnLimit = 30.0;

struct Session
{
    std::string pname;
    unsigned dim = 2;
    std::shared_ptr<vp::AllocCounter> counter = std::make_shared<vp::AllocCounter>();
    std::shared_ptr<Tracker> tracker = std::make_shared<Tracker>();
    ob::StateSpacePtr space;
    ob::SpaceInformationPtr si;
    std::shared_ptr<oc::SpaceInformation> csi;
    std::shared_ptr<ControlCounter> ccounter = std::make_shared<ControlCounter>();
    ob::PlannerPtr planner;
    ob::ProblemDefinitionPtr pdef;
    std::vector<std::vector<double>> curStarts, curGoals, retired;
    std::vector<std::vector<double>> retiredStarts, retiredGoals;  // the same, by role (for the narrow finding matches)
    bool setupDone = false;
    long extraGoalStates = 0;  // a GoalStates goal holds more than one state
    bool withObjective = false;  // header obj=len: every problem definition gets a PathLengthOptimizationObjective

    std::vector<double> reals(const ob::State *s) const
    {
        std::vector<double> r;
        space->copyToReals(r, s);
        return r;
    }

    // states held by the problem definition (starts, goal state, states of stored solution paths)
    long accounted() const
    {
        long n = 0;
        if (pdef)
        {
            n += pdef->getStartStateCount();
            if (pdef->getGoal())
                n += 1 + extraGoalStates;
            std::set<const ob::Path *> seen;
            for (const auto &s : pdef->getSolutions())
            {
                if (!s.path_ || !seen.insert(s.path_.get()).second)
                    continue;
                if (auto *pg = dynamic_cast<og::PathGeometric *>(s.path_.get()))
                    n += pg->getStateCount();
                else if (auto *pc = dynamic_cast<oc::PathControl *>(s.path_.get()))
                    n += pc->getStateCount();
            }
        }
        return n;
    }

    std::string evs()
    {
        std::lock_guard<std::mutex> g(tracker->m);
        if (!tracker->trace)
            return "";
        std::string s = " | ev=";
        for (size_t i = 0; i < tracker->ev.size(); ++i)
            s += (i ? " " : "") + tracker->ev[i];
        tracker->ev.clear();
        return s;
    }

    void enter()
    {
        std::lock_guard<std::mutex> g(tracker->m);
        tracker->inCall = true;
    }
    void leave()
    {
        std::lock_guard<std::mutex> g(tracker->m);
        tracker->inCall = false;
    }

    void retireCurrent()
    {
        for (auto &s : curStarts)
        {
            retired.push_back(s);
            retiredStarts.push_back(s);
        }
        for (auto &s : curGoals)
        {
            retired.push_back(s);
            retiredGoals.push_back(s);
        }
        curStarts.clear();
        curGoals.clear();
    }

    bool isOldOnly(const std::vector<double> &r) const
    {
        for (auto &c : curStarts)
            if (c == r)
                return false;
        for (auto &c : curGoals)
            if (c == r)
                return false;
        for (auto &o : retired)
            if (o == r)
                return true;
        return false;
    }

    void fillStartGoal(const std::vector<double> &s, const std::vector<double> &g, double thr)
    {
        ob::ScopedState<> st(space), gl(space);
        for (unsigned i = 0; i < dim; ++i)
        {
            st[i] = s[i];
            gl[i] = g[i];
        }
        pdef->clearStartStates();
        pdef->addStartState(st);
        extraGoalStates = 0;
        if (tracker->trace)
        {
            auto goal = std::make_shared<TraceGoal>(si, tracker);
            goal->setState(gl);
            goal->setThreshold(thr);
            pdef->setGoal(goal);
        }
        else
            pdef->setGoalState(gl, thr);
        curStarts.push_back(s);
        curGoals.push_back(g);
    }
};

static std::string describeTop(const ob::PlannerSolution &s)
{
    return std::string(s.approximate_ ? "1" : "0") + ":" + vp::bits(s.difference_) + ":" + (s.optimized_ ? "1" : "0") + ":" +
           (s.opt_ ? "1" : "0") + ":" + vp::bits(s.cost_.value()) + ":" + vp::bits(s.length_);
}

static std::vector<ob::State *> statesOf(const ob::PathPtr &p, bool &known)
{
    known = true;
    if (auto *pg = dynamic_cast<og::PathGeometric *>(p.get()))
        return pg->getStates();
    if (auto *pc = dynamic_cast<oc::PathControl *>(p.get()))
        return pc->getStates();
    known = false;
    return {};
}

// kind: 0 = evaluation-counting function; 1 = the decision is taken by a real ompl::base::IterationTerminationCondition(k);
// 2 = the function never returns true, PlannerTerminationCondition::terminate() is called at evaluation k+1
static void doSolve(Session &S, unsigned long k, int kind = 0)
{
    if (!S.planner || !S.pdef)
    {
        std::cout << "solve no-pdef\n";
        return;
    }
    auto es = std::make_shared<EvalState>();
    es->fireAt = k;
    ob::ProblemDefinitionPtr pdef = S.pdef;
    std::shared_ptr<Tracker> tr = S.tracker;
    auto itc = std::make_shared<ob::IterationTerminationCondition>((unsigned int)k);
    auto holder = std::make_shared<std::shared_ptr<ob::PlannerTerminationCondition>>();
    ob::PlannerTerminationCondition ptc([es, pdef, tr, kind, itc, holder]() {
        unsigned long n = ++es->evals;
        if (es->firstSol.load() < 0 && pdef->hasSolution())
        {
            long exp = -1;
            es->firstSol.compare_exchange_strong(exp, (long)n);
        }
        if (es->firstExact.load() < 0 && pdef->hasExactSolution())
        {
            long exp = -1;
            es->firstExact.compare_exchange_strong(exp, (long)n);
        }
        bool r = n > es->fireAt;
        if (kind == 1)
            r = itc->eval();
        else if (kind == 2)
        {
            if (r && *holder)
            {
                (*holder)->terminate();
                if (es->firedAtEval.load() < 0)
                {
                    long exp = -1;
                    es->firedAtEval.compare_exchange_strong(exp, (long)n);
                }
                if (es->firedAtMs.load() < 0)
                {
                    long long exp = -1;
                    es->firedAtMs.compare_exchange_strong(exp, nowMs());
                }
            }
            r = false;  // from now on terminate_ answers; this function is not called again
        }
        es->lastEvalMs.store(nowMs());
        if (r && es->firedAtEval.load() < 0)
        {
            long exp = -1;
            es->firedAtEval.compare_exchange_strong(exp, (long)n);
        }
        if (r && es->firedAtMs.load() < 0)
        {
            long long exp = -1;
            es->firedAtMs.compare_exchange_strong(exp, nowMs());
        }
        if (tr->trace)
        {
            std::lock_guard<std::mutex> g(tr->m);
            tr->emit(r ? "P1" : "P0");
        }
        return r;
    });
    *holder = std::make_shared<ob::PlannerTerminationCondition>(ptc);  // shares the implementation object with ptc
    size_t before = S.pdef->getSolutionCount();
    ob::PlannerSolution oldTop(nullptr);
    bool hadTop = S.pdef->getSolution(oldTop);
    ob::PlannerStatus st = ob::PlannerStatus::UNKNOWN;
    std::string exc;
    S.enter();
    try
    {
        if (!S.setupDone)
        {
            S.planner->setup();
            S.setupDone = true;
        }
        // watchdog: the condition has been evaluated true and solve() still has not returned after the wall limit
        std::atomic<bool> done{false};
        es->lastEvalMs.store(nowMs());
        std::thread dog([&done, es, k]() {
            while (!done.load())
            {
                std::this_thread::sleep_for(std::chrono::milliseconds(50));
                long long f = es->firedAtMs.load();
                long long le = es->lastEvalMs.load();
                if (f < 0 && le >= 0 && !done.load() && (nowMs() - le) > (long long)(g_returnLimit * 1000.0))
                {
                    // not yet fired, but the planner stopped consulting its termination condition altogether
                    std::cout << "solve STALLED k=" << k << " evals=" << es->evals.load() << " limit_s=" << g_returnLimit
                              << " (termination condition not evaluated for the limit; it would never be seen to fire)" << std::endl;
                    std::cout.flush();
                    _exit(96);
                }
                if (f >= 0 && !done.load() && (nowMs() - f) > (long long)(g_returnLimit * 1000.0))
                {
                    std::cout << "solve NORETURN k=" << k << " evals=" << es->evals.load() << " limit_s=" << g_returnLimit
                              << " (termination condition evaluated true, solve() did not return within the limit)" << std::endl;
                    std::cout.flush();
                    _exit(97);
                }
            }
        });
        try
        {
            st = S.planner->solve(ptc);
        }
        catch (...)
        {
            done = true;
            dog.join();
            throw;
        }
        done = true;
        dog.join();
    }
    catch (std::exception &e)
    {
        exc = e.what();
        for (char &c : exc)
            if (c == ' ' || c == '\n')
                c = '_';
    }
    S.leave();
    holder->reset();
    std::string ev = S.evs();
    unsigned long evals = es->evals.load();
    // "after" = evaluations after the one that FIRST answered true.  For the evaluation counter that one is k + 1; a real
    // IterationTerminationCondition driven by a multi-threaded planner (CForest, pRRT, ...) increments a plain unsigned int
    // from several threads and may answer true later than its k+1-th call, so the index is recorded, not assumed.
    long firedAt = es->firedAtEval.load();
    bool fired = firedAt >= 0;
    unsigned long after = fired && evals >= (unsigned long)firedAt ? evals - (unsigned long)firedAt : 0;
    auto sols = S.pdef->getSolutions();
    ob::PlannerSolution newTop(nullptr);
    bool hasTop = S.pdef->getSolution(newTop);
    std::string cmp = "na";
    if (hadTop && hasTop)
        cmp = newTop < oldTop ? "better" : (oldTop < newTop ? "worse" : "same");
    std::ostringstream o;
    // planning.h's statusName() predates PlannerStatus::INFEASIBLE
    std::string stName = static_cast<ob::PlannerStatus::StatusType>(st) == ob::PlannerStatus::INFEASIBLE ? "INFEASIBLE" : vp::statusName(st);
    o << "solve st=" << (exc.empty() ? stName : ("EXC:" + exc)) << " nsol=" << sols.size()
      << " added=" << (long)sols.size() - (long)before << " has=" << S.pdef->hasSolution()
      << " exact=" << S.pdef->hasExactSolution() << " approx=" << S.pdef->hasApproximateSolution()
      << " top=" << (hasTop ? describeTop(newTop) : std::string("-")) << " cmp=" << cmp << " fired=" << fired
      << " after=" << after << " evals=" << evals << " firstsol=";
    if (es->firstSol.load() < 0) o << "-"; else o << es->firstSol.load();
    o << " firstexact=";
    if (es->firstExact.load() < 0) o << "-"; else o << es->firstExact.load();
    o << " plive=" << (S.counter->live.load() - S.accounted());
    // details of the solutions added by this call (index_ >= before)
    o << " new=[";
    bool firstNew = true;
    ob::Goal *goal = S.pdef->getGoal().get();
    for (const auto &s : sols)
    {
        if (s.index_ < (int)before)
            continue;
        bool known = false;
        std::vector<ob::State *> sts;
        if (s.path_)
            sts = statesOf(s.path_, known);
        int s0 = -1;
        bool gl = false, glOld = false, val = true, mot = true;
        long old = 0;
        std::string ctl = "-";
        if (!sts.empty())
        {
            auto r0 = S.reals(sts.front());
            for (size_t i = 0; i < S.curStarts.size(); ++i)
                if (S.curStarts[i] == r0)
                    s0 = (int)i;
            if (s0 < 0)
                for (auto &o : S.retiredStarts)
                    if (o == r0)
                        s0 = -2;  // the path begins at a start state of an EARLIER query
            gl = goal->isSatisfied(sts.back());
            if (!gl)
            {
                // does the path end at a goal of an earlier query (within the current threshold)?
                double thr = 0.0;
                if (auto *gr = dynamic_cast<ob::GoalRegion *>(goal))
                    thr = gr->getThreshold();
                auto rl = S.reals(sts.back());
                for (auto &o : S.retiredGoals)
                {
                    double d2 = 0;
                    for (size_t j = 0; j < o.size() && j < rl.size(); ++j)
                        d2 += (o[j] - rl[j]) * (o[j] - rl[j]);
                    if (std::sqrt(d2) <= thr)
                        glOld = true;
                }
            }
            for (auto *x : sts)
            {
                if (!S.si->satisfiesBounds(x) || !S.si->isValid(x))
                    val = false;
                if (S.isOldOnly(S.reals(x)))
                    ++old;
            }
            if (dynamic_cast<og::PathGeometric *>(s.path_.get()))
            {
                for (size_t i = 0; i + 1 < sts.size(); ++i)
                    if (!S.si->checkMotion(sts[i], sts[i + 1]))
                        mot = false;
            }
            else if (auto *pc = dynamic_cast<oc::PathControl *>(s.path_.get()))
            {
                bool ok = pc->getControlCount() + 1 == pc->getStateCount() &&
                          pc->getControlDurations().size() == pc->getControlCount();
                for (double d : pc->getControlDurations())
                    if (!(d > 0))
                        ok = false;
                ctl = ok ? "1" : "0";
            }
        }
        o << (firstNew ? "" : ";") << s.index_ << ":" << s.approximate_ << ":" << sts.size() << ":" << s0 << ":" << (gl ? 1 : (glOld ? 2 : 0)) << ":"
          << val << ":" << mot << ":" << old << ":" << ctl;
        firstNew = false;
    }
    o << "]";
    // the top solution's states
    o << " path=";
    if (hasTop && newTop.path_)
    {
        bool known = false;
        auto sts = statesOf(newTop.path_, known);
        o << sts.size();
        for (auto *x : sts)
            o << " " << vp::showReals(S.reals(x));
    }
    else
        o << "-";
    std::cout << o.str() << ev << std::endl;
}

int main()
{
    vp::quietLogs();
    std::string line;
    if (!vp::readLine(line))
        return 2;
    Session S;
    vp::Env env;
    try
    {
        auto t = vp::tokens(line);
        if (t.size() < 6 || t[0] != "proto")
            throw vp::ParseError("header");
        std::map<std::string, std::string> kv;
        size_t i = 1;
        for (; i < t.size() && t[i] != "boxes"; ++i)
        {
            auto p = t[i].find('=');
            if (p == std::string::npos)
                throw vp::ParseError("kv");
            kv[t[i].substr(0, p)] = t[i].substr(p + 1);
        }
        if (!kv.count("planner") || !kv.count("seed") || !kv.count("dim") || !kv.count("trace"))
            throw vp::ParseError("keys");
        S.pname = kv["planner"];
        auto seed = vp::parseNat(kv["seed"]);
        auto dim = vp::parseNat(kv["dim"]);
        if (!seed || !dim || *dim < 1 || *dim > 6)
            throw vp::ParseError("seed/dim");
        S.dim = (unsigned)*dim;
        S.tracker->trace = kv["trace"] == "1";
        if (kv.count("limit"))
        {
            auto l = vp::parseNat(kv["limit"]);
            if (!l || *l < 1)
                throw vp::ParseError("limit");
            g_returnLimit = (double)*l;
        }
        env.parse(t, i);
        if (i != t.size() || env.pdim > S.dim)
            throw vp::ParseError("trailing");
        ompl::RNG::setSeed((std::uint_fast32_t)(*seed + 1));
        auto sp = std::make_shared<TrackingRV>(S.counter, S.tracker, S.dim);
        ob::RealVectorBounds b(S.dim);
        b.setLow(0.0);
        b.setHigh(1.0);
        sp->setBounds(b);
        S.space = sp;
        if (isControl(S.pname))
        {
            auto cspace = std::make_shared<CountingRVControl>(S.space, S.dim, S.ccounter);
            ob::RealVectorBounds cb(S.dim);
            cb.setLow(-1.0);
            cb.setHigh(1.0);
            cspace->setBounds(cb);
            S.csi = std::make_shared<oc::SpaceInformation>(S.space, cspace);
            S.si = S.csi;
            unsigned d = S.dim;
            std::shared_ptr<Tracker> tr = S.tracker;
            ob::StateSpacePtr sp0 = S.space;
            S.csi->setStatePropagator([d, tr, sp0](const ob::State *s, const oc::Control *u, const double dt, ob::State *out) {
                const double *x = s->as<ob::RealVectorStateSpace::StateType>()->values;
                const double *v = u->as<oc::RealVectorControlSpace::ControlType>()->values;
                double *y = out->as<ob::RealVectorStateSpace::StateType>()->values;
                double tmp[8];
                for (unsigned j = 0; j < d; ++j)
                    tmp[j] = x[j] + v[j] * dt;
                for (unsigned j = 0; j < d; ++j)
                    y[j] = tmp[j];
                if (tr->trace)
                {
                    std::lock_guard<std::mutex> g(tr->m);
                    if (tr->inCall)
                    {
                        std::string e = "X" + std::to_string(tr->serial(s)) + ":" + std::to_string(tr->serial(out));
                        for (unsigned j = 0; j < d; ++j)
                            e += ":" + vp::bits(y[j]);
                        tr->ev.push_back(e);
                    }
                }
            });
            if (S.pname == "cRRTi")
            {
                // many short steps: a propagation crosses the goal region in the middle, not at its last state
                S.csi->setPropagationStepSize(0.02);
                S.csi->setMinMaxControlDuration(2, 20);
            }
            else
            {
                S.csi->setPropagationStepSize(0.05);
                S.csi->setMinMaxControlDuration(1, 8);
            }
        }
        else
            S.si = std::make_shared<ob::SpaceInformation>(S.space);
        if (S.tracker->trace && S.csi)
            S.si->setStateValidityChecker(std::make_shared<TraceVC>(S.si, env, S.tracker));
        else
            S.si->setStateValidityChecker(std::make_shared<vp::RecordingValidityChecker>(S.si, env, false));
        double res = 0.02;
        if (kv.count("res"))
        {
            auto r = vp::parseBits(kv["res"]);
            if (!r || !(*r > 0) || *r > 1)
                throw vp::ParseError("res");
            res = *r;
        }
        S.si->setStateValidityCheckingResolution(res);
        S.withObjective = kv.count("obj") && kv["obj"] == "len";
        if (S.tracker->trace && !S.csi)
            S.si->setMotionValidator(std::make_shared<TraceMV>(S.si, S.tracker));
        S.si->setup();
        S.planner = makePlanner(S.pname, S.si, S.csi);
    }
    catch (std::exception &e)
    {
        std::cout << "bad-header\n";
        return 2;
    }

    auto readPoint = [&](const std::vector<std::string> &t, size_t &i) {
        std::vector<double> r;
        for (unsigned j = 0; j < S.dim; ++j)
            r.push_back(vp::needF(t, i));
        return r;
    };
    auto startValid = [&](const std::vector<double> &s) {
        ob::ScopedState<> st(S.space);
        for (unsigned i = 0; i < S.dim; ++i)
            st[i] = s[i];
        return S.si->satisfiesBounds(st.get()) && S.si->isValid(st.get());
    };

    while (vp::readLine(line))
    {
        auto t = vp::tokens(line);
        if (t.empty())
            continue;
        try
        {
            const std::string &op = t[0];
            if ((op == "setpd" || op == "setsg" || op == "mutpd") && t.size() == 2 + 2 * S.dim)
            {
                size_t i = 1;
                auto s = readPoint(t, i);
                auto g = readPoint(t, i);
                double thr = vp::needF(t, i);
                if ((op == "setsg" || op == "mutpd") && !S.pdef)
                {
                    std::cout << "bad-op\n";
                    continue;
                }
                S.retireCurrent();
                if (op == "setpd")
                {
                    auto np = std::make_shared<ob::ProblemDefinition>(S.si);
                    if (S.withObjective)
                        np->setOptimizationObjective(std::make_shared<ob::PathLengthOptimizationObjective>(S.si));
                    ob::ProblemDefinitionPtr oldp = S.pdef;
                    S.pdef = np;
                    S.fillStartGoal(s, g, thr);
                    S.enter();
                    S.planner->setProblemDefinition(S.pdef);
                    if (!S.setupDone)
                    {
                        // as SimpleSetup::setup() does: the planner is set up once it has its problem definition, so
                        // clear()/getPlannerData() before the first solve() act on a set-up planner
                        S.planner->setup();
                        S.setupDone = true;
                    }
                    S.leave();
                    oldp.reset();  // the caller drops the old problem definition
                }
                else
                {
                    S.fillStartGoal(s, g, thr);
                    S.pdef->clearSolutionPaths();
                    if (op == "mutpd")
                    {
                        // the new query was written into the SAME ProblemDefinition object; announce it
                        S.enter();
                        S.planner->setProblemDefinition(S.pdef);
                        S.leave();
                    }
                }
                // lvs: StateSpace::getLongestValidSegmentLength() (what validSegmentCount divides by), for the model of
                // the intermediate-states branch
                std::cout << op << " ok svalid=" << startValid(s) << " gvalid=" << startValid(g)
                          << " plive=" << (S.counter->live.load() - S.accounted())
                          << " lvs=" << vp::bits(S.space->getLongestValidSegmentLength()) << S.evs() << std::endl;
            }
            else if (op == "setpdg" && t.size() >= 3 + S.dim)
            {
                // new ProblemDefinition with a GoalStates goal of n states
                size_t i = 1;
                auto s0 = readPoint(t, i);
                unsigned n = (unsigned)vp::needN(t, i);
                if (n < 1 || t.size() != 3 + S.dim + n * S.dim)
                    throw vp::ParseError("setpdg");
                std::vector<std::vector<double>> gs;
                for (unsigned j = 0; j < n; ++j)
                    gs.push_back(readPoint(t, i));
                double thr = vp::needF(t, i);
                S.retireCurrent();
                auto np = std::make_shared<ob::ProblemDefinition>(S.si);
                if (S.withObjective)
                    np->setOptimizationObjective(std::make_shared<ob::PathLengthOptimizationObjective>(S.si));
                ob::ProblemDefinitionPtr oldp = S.pdef;
                S.pdef = np;
                ob::ScopedState<> st(S.space);
                for (unsigned j = 0; j < S.dim; ++j)
                    st[j] = s0[j];
                S.pdef->addStartState(st);
                auto goal = std::make_shared<ob::GoalStates>(S.si);
                for (auto &g : gs)
                {
                    ob::ScopedState<> gl(S.space);
                    for (unsigned j = 0; j < S.dim; ++j)
                        gl[j] = g[j];
                    goal->addState(gl);
                    S.curGoals.push_back(g);
                }
                goal->setThreshold(thr);
                S.pdef->setGoal(goal);
                S.curStarts.push_back(s0);
                S.extraGoalStates = (long)n - 1;
                S.enter();
                S.planner->setProblemDefinition(S.pdef);
                if (!S.setupDone)
                {
                    S.planner->setup();
                    S.setupDone = true;
                }
                S.leave();
                oldp.reset();
                std::cout << "setpdg ok svalid=" << startValid(s0) << " gvalid=1 plive=" << (S.counter->live.load() - S.accounted())
                          << S.evs() << std::endl;
            }
            else if (op == "addstart" && t.size() == 1 + S.dim && S.pdef)
            {
                size_t i = 1;
                auto s = readPoint(t, i);
                ob::ScopedState<> st(S.space);
                for (unsigned j = 0; j < S.dim; ++j)
                    st[j] = s[j];
                S.pdef->addStartState(st);
                S.curStarts.push_back(s);
                std::cout << "addstart ok svalid=" << startValid(s) << std::endl;
            }
            else if ((op == "solve" || op == "solvei" || op == "solvet") && t.size() == 2 && vp::parseNat(t[1]))
                doSolve(S, *vp::parseNat(t[1]), op == "solve" ? 0 : (op == "solvei" ? 1 : 2));
            else if (op == "setparam" && t.size() == 3)
            {
                bool ok = S.planner->params().hasParam(t[1]) && S.planner->params().setParam(t[1], t[2]);
                std::cout << "setparam ok=" << ok << std::endl;
            }
            else if ((op == "clear" || op == "clearQuery") && t.size() == 1)
            {
                S.enter();
                if (op == "clear")
                    S.planner->clear();
                else
                    S.planner->clearQuery();
                S.leave();
                std::cout << op << " ok plive=" << (S.counter->live.load() - S.accounted()) << S.evs() << std::endl;
            }
            else if (op == "clearsol" && t.size() == 1 && S.pdef)
            {
                S.pdef->clearSolutionPaths();
                std::cout << "clearsol ok" << std::endl;
            }
            else if (op == "getpd" && t.size() == 1)
            {
                S.enter();
                unsigned v, e, ns, ng;
                {
                    ob::PlannerData pd(S.si);
                    S.planner->getPlannerData(pd);
                    v = pd.numVertices();
                    e = pd.numEdges();
                    ns = pd.numStartVertices();
                    ng = pd.numGoalVertices();
                    // touch every vertex state (a dangling state pointer is a heap-use-after-free for ASan)
                    double acc = 0;
                    for (unsigned i = 0; i < v; ++i)
                        if (const ob::State *x = pd.getVertex(i).getState())
                            acc += S.reals(x)[0];
                    if (acc != acc)
                        std::cout << "";
                }
                S.leave();
                std::cout << "getpd v=" << v << " e=" << e << " starts=" << ns << " goals=" << ng << S.evs() << std::endl;
            }
            else
                std::cout << "bad-op" << std::endl;
        }
        catch (vp::ParseError &)
        {
            std::cout << "bad-op" << std::endl;
        }
        catch (std::exception &e)
        {
            std::string w = e.what();
            for (char &c : w)
                if (c == ' ' || c == '\n')
                    c = '_';
            std::cout << t[0] << " EXC:" << w << std::endl;
        }
    }
    // destroy planner, problem definition and paths; then read the counters
    S.enter();
    S.planner.reset();
    S.leave();
    std::string ev = S.evs();
    S.pdef.reset();
    long live = S.counter->live.load();
    std::cout << "end live=" << live << " allocs=" << S.counter->allocs.load() << " frees=" << S.counter->frees.load()
              << " badfree=" << S.tracker->badfree << " clive=" << S.ccounter->live.load() << ev << std::endl;
    return 0;
}
